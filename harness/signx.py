"""C01 harness: sign requests as structures, the bytes the device must end up holding (independent
encoders), scripted / random device policies, projection of one execution into a SignExchangeProps trace."""
import json
import struct

from . import enc, mgr, reqs
from .simdev import PATHS, PATH_BYTES, AUTH_PATHS, ScriptedPolicy, FaithfulSignPolicy, der_sig, MODE_SIGNER
from .transport import install


def expected_parts(st):
    """Bytes the device must hold for the request structure `st` (see reqs.make / build_exact)."""
    pb = PATH_BYTES[st["key"]]
    if "hash" in st:
        return {"path": pb + st["hash"]}
    txp = enc.tx_bytes(st["tx"], blank=True)
    if st["mode"] == "segwit":
        extra = enc.varint(len(st["ws"])) + st["ws"] + struct.pack("<Q", st["ov"])
        mode = 1
    else:
        extra, mode = b"", 0
    btc = struct.pack("<I", 7 + len(txp)) + bytes([mode]) + struct.pack("<H", len(extra)) + txp + extra
    mp = bytes([len(st["proof"])]) + b"".join(bytes([len(n)]) + n for n in st["proof"])
    return {"path": pb + struct.pack("<I", st["input"]), "btc": btc, "rcpt": st["receipt"], "mp": mp}


def split_der(sig):
    """The harness's own reading of a signature answer: (well-formed?, r, s). First byte 0x30 or the
    documented 0x31 quirk; trailing bytes after the two INTEGERs are tolerated."""
    try:
        if len(sig) < 8 or sig[0] not in (0x30, 0x31):
            return False, b"", b""
        total = sig[1]
        if total > len(sig) - 2 or sig[2] != 0x02:
            return False, b"", b""
        rl = sig[3]
        r = sig[4:4 + rl]
        if len(r) != rl or rl == 0:
            return False, b"", b""
        o = 4 + rl
        if len(sig) < o + 2 or sig[o] != 0x02:
            return False, b"", b""
        sl = sig[o + 1]
        s = sig[o + 2:o + 2 + sl]
        if len(s) != sl or sl == 0 or total < rl + sl + 4:
            return False, b"", b""
        return True, bytes(r), bytes(s)
    except Exception:
        return False, b"", b""


def make_sig(cls, rng):
    r = bytes(rng.getrandbits(8) for _ in range(rng.choice([8, 20, 31, 32, 33])))
    s = bytes(rng.getrandbits(8) for _ in range(rng.choice([8, 31, 32, 33])))
    if cls == "der30":
        return der_sig(r, s)
    if cls == "der31":
        return der_sig(r, s, first=0x31)
    if cls == "trailing":
        return der_sig(r, s, trailing=bytes(rng.getrandbits(8) for _ in range(rng.randint(1, 6))))
    # malformed: clear-cut
    good = der_sig(r, s)
    return rng.choice([b"", b"\x30", good[:6], b"\x2f" + good[1:], good[:2] + b"\x03" + good[3:],
                       good[:4 + len(r)] + b"\x05" + good[5 + len(r):], bytes([0x30, 200]) + good[2:]])


def build_exact(rng, lens, units, segwit):
    """An authorised sign request whose btc / rcpt / mp parts are exactly lens[p] * units[p] bytes."""
    key = rng.choice(list(AUTH_PATHS))
    ws = bytes(rng.getrandbits(8) for _ in range(rng.choice([5, 20]))) if segwit else None
    ov = rng.choice([1, 2 ** 64 - 1, 12345]) if segwit else None
    extra = (len(enc.varint(len(ws))) + len(ws) + 8) if segwit else 0
    target_tx = lens["btc"] * units["btc"] - 7 - extra
    ops = [("push", bytes(rng.getrandbits(8) for _ in range(4)), "direct"), ("op0",), ("small", 2)]
    tx = {"version": 1, "ins": [{"prev": bytes(rng.getrandbits(8) for _ in range(32)), "n": 1, "ops": ops, "seq": 0xffffffff}],
          "outs": [], "lock": 0}
    base = len(enc.tx_bytes(tx, blank=True))
    rem = target_tx - base
    while rem > 0:
        take = min(rem, 9 + 200)
        if take < 9:
            return None
        tx["outs"].append({"value": 5, "script": bytes(rng.getrandbits(8) for _ in range(take - 9))})
        rem -= take
        if rem in range(1, 9):   # cannot make an output that small: shorten the previous one
            tx["outs"][-1]["script"] = tx["outs"][-1]["script"][:-(9 - rem)] if len(tx["outs"][-1]["script"]) >= 9 - rem else None
            if tx["outs"][-1]["script"] is None:
                return None
            rem = 9
    if len(enc.tx_bytes(tx, blank=True)) != target_tx:
        return None
    rcpt = bytes(rng.getrandbits(8) for _ in range(lens["rcpt"] * units["rcpt"]))
    total_mp = lens["mp"] * units["mp"]
    nodes, left = [], total_mp - 1
    while left > 0:
        n = min(left - 1, 255)
        if n <= 0:
            return None
        if left - 1 - n == 1:
            n -= 1
        nodes.append(bytes(rng.getrandbits(8) for _ in range(n)))
        left -= 1 + n
    st = {"cmd": "sign", "key": key, "tx": tx, "input": rng.choice([0, 1, 2 ** 32 - 1]), "receipt": rcpt,
          "proof": nodes, "mode": "segwit" if segwit else "legacy"}
    msg = {"tx": enc.tx_bytes(tx).hex(), "input": st["input"], "sighashComputationMode": st["mode"]}
    if segwit:
        st.update(ws=ws, ov=ov)
        msg.update(witnessScript=ws.hex(), outpointValue=ov)
    req = {"version": 5, "command": "sign", "keyId": PATHS[key], "message": msg,
           "auth": {"receipt": rcpt.hex(), "receipt_merkle_proof": [n.hex() for n in nodes]}}
    exp = expected_parts(st)
    assert len(exp["btc"]) == lens["btc"] * units["btc"] and len(exp["mp"]) == total_mp, (len(exp["btc"]), len(exp["mp"]))
    return req, st


class Bench:
    def __init__(self, version=2):
        self.version = version
        self.world, self.proto = mgr.serving_manager(version=version)

    def run(self, req, st, policy, rng, coop=False):
        """Execute one sign request against the device driven by `policy`; -> trace dict."""
        install(self.world)
        d = self.world.device
        d.mode = MODE_SIGNER
        d.sign = None
        d.sign_policy = policy
        d.next_signature = None
        del d.sign_log[:]
        del self.world.log[:]
        self.world.reset_counters()
        self.proto._comm_issue = False
        o = mgr.handle_line(self.proto, json.dumps(req).encode())
        rep = o.reply() or {}
        sess = d.sign_log[-1] if d.sign_log else d.sign
        open_sess = d.sign if d.sign is not None else None
        if open_sess is not None:
            sess = open_sess
        exp = expected_parts(st)
        auth = "hash" not in st
        got = {"path": b"", "btc": b"", "rcpt": b"", "mp": b""}
        dev = "abandoned"
        sig = b""
        if sess is not None:
            got["path"] = sess["first"]
            for p in ("btc", "rcpt", "mp"):
                got[p] = sess["got"][p]
            res = sess.get("result")
            if res == "success":
                dev = "success"
                sig = sess.get("sig", b"")
            elif res is not None and (res.startswith("sw:") or res == "wrongop"):
                dev = "failure"
        sigok, rexp, sexp = split_der(sig) if dev == "success" else (False, b"", b"")
        # exchanges the host issued after the device's failing answer
        apdus = [e for e in self.world.log if e["ev"] == "apdu"]
        after = (len(apdus) - sess["n"]) if (dev == "failure" and sess is not None) else 0
        ok = rep.get("errorcode") == 0
        r = s = b""
        if ok:
            try:
                r = bytes.fromhex(rep["signature"]["r"])
                s = bytes.fromhex(rep["signature"]["s"])
            except Exception:
                r = s = b"\xff"
        parts = ("path", "btc", "rcpt", "mp") if auth else ("path",)
        t = {"auth": auth,
             "exp": {p: list(exp.get(p, b"")) for p in ("path", "btc", "rcpt", "mp")},
             "got": {p: list(got[p]) if p in parts else [] for p in ("path", "btc", "rcpt", "mp")},
             "dev": dev, "sigok": sigok, "ok": ok, "r": list(r), "s": list(s), "rexp": list(rexp),
             "sexp": list(sexp), "after": after, "coop": bool(coop)}
        if not auth:
            for p in ("btc", "rcpt", "mp"):
                t["exp"][p] = []
        meta = {"code": rep.get("errorcode"), "apdus": len(apdus), "shutdown": o.shutdown,
                "asks": sess.get("asks") if sess else None}
        return t, meta


def policy_from_script(script, units, rng):
    """Model script (units) -> concrete decisions (bytes)."""
    out = []
    cur = None
    for step in script:
        k = step[0]
        if k == "next":
            cur = step[1]
            out.append(("next", cur, step[2] * units[cur]))
        elif k == "more":
            out.append(("more", step[1] * units[cur]))
        elif k == "success":
            out.append(("success", make_sig(step[1], rng)))
        elif k == "sw":
            out.append(("sw", rng.choice([0x6A87, 0x6A88, 0x6A89, 0x6A8A, 0x6A8D, 0x6A8F, 0x6A94, 0x6A99, 0x6B00, 0x6D00, 0x69FF])))
        elif k == "op":
            out.append(("op", rng.choice([0x7E, 0x10, 0x20, 0x40])))
    return out


class RandomPolicy:
    """Free device policy for binding B: chunk sizes 1..255, early / late termination, faults."""

    def __init__(self, rng, p_fault=0.08, p_early=0.05, p_late=0.1):
        self.rng = rng
        self.p_fault, self.p_early, self.p_late = p_fault, p_early, p_late
        self.faith = FaithfulSignPolicy()
        self.late = 0

    def _n(self):
        r = self.rng.random()
        if r < 0.2:
            return self.rng.choice([1, 2, 255, 254, 76, 77])
        return self.rng.randint(1, 255)

    def first(self, dev):
        if self.rng.random() < self.p_fault:
            return self.rng.choice([("sw", self.rng.choice([0x6A87, 0x6A8F, 0x6A90, 0x6A99, 0x6B00])), ("op", 0x7E)])
        return ("next", "btc", self._n())

    def decide(self, dev, part, got):
        r = self.rng.random()
        if r < self.p_fault:
            return self.rng.choice([("sw", self.rng.choice([0x6A87, 0x6A88, 0x6A89, 0x6A8A, 0x6A8D, 0x6A94, 0x6A99, 0x6BFF])),
                                    ("op", self.rng.choice([0x7E, 0x01]))])
        need = self.faith.needed(part, got)
        complete = need is not None and len(got) >= need
        nxt = {"btc": "rcpt", "rcpt": "mp", "mp": "success"}[part]
        if complete:
            if self.rng.random() < self.p_late and self.late < 2:
                self.late += 1
                return ("more", self._n())        # asks for more than remains
            if nxt == "success":
                return ("success", make_sig(self.rng.choice(["der30", "der30", "der31", "trailing", "malformed"]), self.rng))
            return ("next", nxt, self._n())
        if self.rng.random() < self.p_early:
            if nxt == "success":
                return ("success", make_sig("der30", self.rng))
            return ("next", nxt, self._n())
        return ("more", self._n())
