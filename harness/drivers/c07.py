"""C07 — an SGX (version-2) attestation certificate is accepted only if the whole quote-to-root chain
verifies.

TLC: CertV2 (Env: genuine chains of depth 1..3 + <= 2 defects, re-parenting, wrong root; Sys: the
`_parse` / `validate_and_get_values` walk with the per-kind is_valid) exhaustively against the reference
semantics `SpecValid` of CertV2Props; GenCertV2 prints every abstract certificate; each is concretised
into REAL certificates (fresh P-256 / P-384 / RSA X.509 chains, real report bodies and quotes, byte
flips at seeded positions), run through `HSMCertificate.from_jsonfile(..).validate_and_get_values(root)`
and the observation is judged by TLC (TraceCertV2) against the same `SpecValid`; valid verdicts must
hand back exactly the signed custom message and quote (compared in TLC as byte sequences)."""
import json
import multiprocessing
import os
import random
import time
import zlib

from .. import certv2, core, tlc

ROOT = certv2.ROOT_NAME
PROCS = int(os.environ.get("VERIF_PROCS", "4"))


# ------------------------------------------------------------------------------------------------
# abstract certificate (TLC) -> concrete plans
# ------------------------------------------------------------------------------------------------
def shape(b):
    xs = sorted(n for n in b["cert"] if n[0] == "x" and n[1:].isdigit())
    d = len(xs)
    spare = b["cert"].get("spare")
    kind = "none" if spare is None else ("fresh" if spare["key"] == "spare" else "twin")
    return d, kind


def name_map(d):
    cn = [x["name"] for x in certv2.default_spec(d)["x509"]]
    m = {"x%d" % (i + 1): cn[i] for i in range(d)}
    m.update({"gatt": "g_attestation", "gquote": "g_quote", "evil": "evil_ca"})     # (forged branch)
    m.update({"att": "attestation", "quote": "quote", "spare": "spare_ca", "ghost": "ghost_ca",
              ROOT: ROOT, "other": "other", "wrong": "wrong", "nokey": "nokey", "foreign": "foreign"})
    return m


# Element names in the file (free text in version 2, docs/attestation.md) - boundary-first members
SUB_NAMES = ("s", "x", "_", "root", "sgx", "sgx_", "_root", "gx_roo", "g", "r", "oot", "t", "")   # proper substrings
ODD_NAMES = ("sgx_root2", "xsgx_root", "sgx_root ", " sgx_root", "sgx_rootsgx_root",                 # super-strings
             "SGX_ROOT", "Sgx_Root", "sgx_Root", "SGX",                                              # case variants
             "device", "ui", "signer", "attestation_v1",                                             # version-1 words
             "platform ca", " ", "quoting\tenclave", "name\nwith newline", "pck-\u00e9\u4e2d\u6587",    # blanks, non-ASCII
             "n" * 3000, "sgx_" * 600 + "root")                                                      # very long
PSEUDO = {"other", "wrong", "nokey", "foreign", "ghost_ca", "nobody", "ROT", "none"}


def label_name(label, n, m, rng):
    """A concrete name of class `label` for model element n (unique among the names in m)."""
    taken = set(m.values()) | PSEUDO
    if label == "sub":
        cands = [x for x in SUB_NAMES if x not in taken]
    else:
        cands = [x for x in ODD_NAMES if x not in taken]
        # another element's name in another case ("two elements whose names differ only in case")
        cands += [v.swapcase() for k, v in m.items() if k != n and v.swapcase() != v
                  and v.swapcase() not in taken and k in ("att", "quote", "x1", "x2", "x3")]
    return rng.choice(cands)


def plan_names(b, rng):
    """Model element name -> name in the file, for one concretisation."""
    d, _k = shape(b)
    m = name_map(d)
    for n, e in sorted(b["cert"].items()):
        if e.get("label", "plain") != "plain":
            m[n] = label_name(e["label"], n, m, rng)
    return m


def orig_parent(n, d, spare_kind, cert=None):
    if n == "gatt":
        return "x%d" % d
    if n == "gquote":
        return "gatt"
    if n == "evil":
        return cert["evil"]["by"] if cert else "gatt"
    if n == "att" and cert is not None and "evil" in cert:
        return "evil"
    if n == "quote":
        return "att"
    if n == "att":
        return "x%d" % d
    if n == "spare":
        return ROOT if spare_kind == "fresh" or d == 1 else "x%d" % (d - 1)
    if n == ROOT:                 # an embedded self-signed root certificate
        return ROOT
    i = int(n[1:])
    return ROOT if i == 1 else "x%d" % (i - 1)


def time_sensitive(b):
    return b["rot"].get("win", "all") != "all" or \
        any(e.get("win", "all") not in ("all", "na") for e in b["cert"].values())


def mapped_abstract(b, names=None):
    """The TLC certificate with the concrete element names (to compare with what was realised)."""
    d, _k = shape(b)
    m = names or name_map(d)
    cert = {}
    for n, e in b["cert"].items():
        e2 = dict(e)
        e2["by"] = m[e["by"]]
        e2["key"] = m[e["key"]]
        e2["sigBy"] = m[e["sigBy"]]
        cert[m[n]] = e2
    rot = dict(b["rot"])
    rot["key"] = m[rot["key"]]
    return {"cert": cert, "rot": rot, "target": m["quote"]}


ATT_BIND_VARIANTS = ("noauth", "misplaced", "reversed", "otherkey", "random", "truncated", "swappedkey")
QUOTE_BIND_VARIANTS = ("misplaced", "otherdata", "random", "truncated")
X509_FLIP_REGIONS = ("tbs", "tbs", "tbs", "sig", "sig", "sigalg", "outer_hdr", "sig_hdr")
MSG_SIGONLY_REGIONS = {"attkey": ("body", "body", "report_data_tail"),
                       "quote": ("quote_header", "body", "body", "report_data_tail")}


LONG_LENGTHS = (254, 255, 256, 257, 258, 300, 520)     # X.509 elements between attestation key and root


def filler_items(tag, k):
    return [{"name": "%s_%03d" % (tag, i), "time": "Valid", "window": "all", "curve": "P256",
             "sig": "parent", "naming": "canon", "filler": True} for i in range(k)]


def inflate(sp, rng, total=None):
    """SCALE: the 2 or 3 X.509 items of `sp` stay top, (middle,) bottom of a chain of `total` X.509
    elements; genuine filler elements make up the rest (boundary-first: 253..255 of them below the
    middle one, i.e. 254..256 X.509 certificates under the element the middle one certifies)."""
    xs = sp["x509"]
    total = total or rng.choice(LONG_LENGTHS)
    if len(xs) == 2:
        sp["x509"] = [xs[0]] + filler_items("fa", total - 2) + [xs[1]]
    else:
        rest = total - 3
        lows = [m for m in (253, 254, 255) if m <= rest]
        lower = rng.choice(lows) if lows and rng.random() < 0.8 else rng.randrange(0, rest + 1)
        sp["x509"] = [xs[0]] + filler_items("fa", rest - lower) + [xs[1]] + filler_items("fb", lower) + [xs[2]]
    sp["key_pool"] = 64
    return sp


def deflate(cert, fillers):
    """The abstract certificate without its filler elements (certifier / signer references that point
    into a run are moved to the element above the run) - comparable with TLC's short chain."""
    fs = set(fillers)
    if not fs:
        return cert

    def up(n):
        while n in fs:
            n = cert[n]["by"]
        return n
    out = {}
    for n, e in cert.items():
        if n in fs:
            continue
        e2 = dict(e)
        if e2["sigBy"] in fs:
            a = up(e2["sigBy"])
            e2["sigBy"] = cert[a]["key"] if a in cert else a
        if e2["by"] in fs:
            e2["by"] = up(e2["by"])
        out[n] = e2
    return out


def scale_profiles(rng, quick):
    """Explicit long chains (depth 254 .. 520): all valid; one defect (expired / not yet valid / wrong
    signer / other curve) at the top, in the middle, at the bottom; the genuine root certificate
    re-appearing in the middle (254 +/- 1 X.509 certificates below what it certifies) of a chain whose
    real top is fine / expired / wrongly signed."""
    out = []

    def base(total):
        sp = certv2.default_spec(3)
        sp["x509"] = [{"name": "platform_ca", "time": "Valid", "curve": "P256", "sig": "parent"}] + \
            filler_items("ca", total - 2) + \
            [{"name": "quoting_enclave", "time": "Valid", "curve": "P256", "sig": "parent"}]
        sp["key_pool"] = 64
        sp["vary_content"] = True
        sp["shuffle"] = rng.random() < 0.5
        return sp
    for total in LONG_LENGTHS:
        full = (not quick) or total in (254, 256, 257, 520)
        out.append(({"spec": base(total), "flips": []}, {"src": "scale", "x509": total, "case": "genuine"}))
        if not full:
            continue
        for pos_name, pos in (("top", 0), ("middle", total // 2), ("bottom", total - 1)):
            for what, edit in (("expired", {"time": "Expired"}), ("notyet", {"time": "NotYet"}),
                               ("wrongsigner", {"sig": "other"}), ("othercurve", {"curve": "P384"})):
                sp = base(total)
                sp["x509"][pos].update(edit)
                sp["x509"][pos].pop("filler", None)
                out.append(({"spec": sp, "flips": []},
                            {"src": "scale", "x509": total, "case": "%s@%s" % (what, pos_name)}))
        for below in (253, 254, 255):
            r = total - 2 - below if total - 2 - below >= 1 else total // 2
            for top_name, edit in (("fine", {}), ("expired", {"time": "Expired"}), ("wrongsigner", {"sig": "other"})):
                sp = base(total)
                sp["x509"][r] = {"name": "root_again", "is_root": True}
                sp["x509"][0].update(edit)
                out.append(({"spec": sp, "flips": []},
                            {"src": "scale", "x509": total,
                             "case": "root-reappears@%d-below,top-%s" % (total - 2 - r, top_name)}))
    return out


def plans_for(b, rng, nflip):
    """Concretisation plans of one abstract certificate: plan 0 realises every defect structurally
    (another key, another hash input, ...), plans 1..nflip realise every defect that byte corruption
    can produce by a real byte flip at a seeded position.  Dimensions the abstraction leaves open
    (key encoding, element order, auth data length, report-data tail, same-key root...) are seeded
    random members."""
    d, spare_kind = shape(b)
    cert = b["cert"]
    flippable = False

    def mk(flip_mode):
        nonlocal flippable
        m = plan_names(b, rng)
        sp = certv2.default_spec(d)
        for i in range(d):
            sp["x509"][i]["name"] = m["x%d" % (i + 1)]
            sp["x509"][i]["label"] = cert["x%d" % (i + 1)].get("label", "plain")
        sp["attkey"].update(name=m["att"], label=cert["att"].get("label", "plain"))
        sp["quote"].update(name=m["quote"], label=cert["quote"].get("label", "plain"))
        flips = []
        sp["shuffle"] = rng.random() < 0.5
        sp["pem_newlines"] = rng.random() < 0.3
        sp["attkey"]["auth_len"] = rng.choice((1, 2, 32, 32, 64, 333, 1000))
        sp["attkey"]["encoding"] = rng.choice(("uncompressed", "uncompressed", "raw"))
        sp["attkey"]["bind"] = rng.choice(("ok", "ok", "ok_tail"))
        sp["quote"]["bind"] = rng.choice(("ok", "ok", "ok_tail"))
        sp["root"] = {"curve": "P256", "time": "Valid"}
        # free content of the X.509 elements (serial, extensions, hash, name style) and, for a third
        # of the plans, validity windows that touch the (frozen) clock exactly
        sp["vary_content"] = True
        sp["time_edge"] = rng.random() < 0.34
        # a window that does not cover every instant: the certificate lives on a timeline and the same
        # objects are validated once per instant of the history TLC chose
        sp["timeline"] = "extreme" if b.get("scale") == "extreme" else time_sensitive(b)
        sp["root"]["window"] = b["rot"].get("win", "all")
        sp["rot"] = rng.choice(("right", "right", "samekey")) if b["rot"]["key"] == ROOT \
            else {"wrong": "fresh", "foreign": "foreign"}.get(b["rot"]["key"], "top")
        if b["rot"].get("kind") == "v1root":
            sp["rot"] = "v1root"            # a root of trust of another kind
        if spare_kind != "none":
            ex = {"name": m["spare"], "parent": m[orig_parent("spare", d, spare_kind)],
                  "time": "Valid", "curve": "P256", "sig": "parent",
                  "label": cert["spare"].get("label", "plain")}
            if spare_kind == "twin":
                ex["samekey_as"] = m["x%d" % d]
            sp["extra"] = [ex]
        for n, e in cert.items():
            cn = m[n]
            op = orig_parent(n, d, spare_kind, cert)
            if n in ("gatt", "gquote"):
                continue                    # genuine elements of the forged-branch shape
            if n == "evil":
                # an X.509 element whose named certifier is an element of another kind
                sp["graft"] = {"under": "quote" if e["by"] == "gquote" else "attkey",
                               "sig": {"evil": "self", "gatt": "certifier"}.get(e["sigBy"], "other")}
                continue
            if e["by"] != op:
                sp["reparent"][cn] = m[e["by"]]
            sigbad = e["sigBy"] == "other"
            if n == ROOT:
                # a root certificate shipped inside the certificate under the reserved root name
                sp["embed"] = {"kind": "genuine" if e["key"] == ROOT else "foreign", "time": e["time"],
                               "window": e["win"], "sig": "self"}
                if sigbad:
                    flippable = True
                    if flip_mode:
                        flips.append({"el": cn, "field": "message",
                                      "region": rng.choice(X509_FLIP_REGIONS)})
                    else:
                        sp["embed"]["sig"] = "other"
            elif e["kind"] == "x509" and e["key"] == ROOT:
                # this chain element IS the genuine root certificate, re-appearing below the top
                sp["x509"][int(n[1:]) - 1]["is_root"] = True
            elif e["kind"] == "x509":
                xs = sp["extra"][0] if n == "spare" else sp["x509"][int(n[1:]) - 1]
                if e["sigBy"] == "foreign":
                    xs["sig"] = "foreign"       # the chain hangs from the foreign root
                xs["time"] = e["time"]
                xs["window"] = e["win"]
                if n != "spare":
                    xs["naming"] = e["naming"]
                if e["curve"] == "Other" and n == "spare":
                    xs["curve"] = "P384"          # (a twin shows the curve of the key it shares)
                elif e["curve"] == "Other":
                    # RSA only where no X.509 is issued under that key (the property speaks of
                    # "the key of the certificate" without fixing a scheme; the code is ECDSA-only)
                    xs["curve"] = rng.choice(("P384", "RSA")) if n == "x%d" % d else "P384"
                if sigbad:
                    flippable = True
                    if flip_mode:
                        flips.append({"el": cn, "field": "message",
                                      "region": rng.choice(X509_FLIP_REGIONS)})
                    else:
                        xs["sig"] = "other" if n == "spare" else rng.choice(("other", "other", "swap"))
            else:
                es = sp["attkey"] if e["kind"] == "attkey" else sp["quote"]
                both = sigbad and not e["binds"]
                if both and flip_mode and rng.random() < 0.5:
                    flippable = True
                    flips.append({"el": cn, "field": "message", "region": "report_data_hash"})
                    # a flipped hash octet breaks the binding AND the signature
                else:
                    if sigbad:
                        flippable = True
                        if flip_mode:
                            if rng.random() < 0.5:
                                flips.append({"el": cn, "field": "signature"})
                            else:
                                flips.append({"el": cn, "field": "message",
                                              "region": rng.choice(MSG_SIGONLY_REGIONS[e["kind"]])})
                        else:
                            es["sig"] = rng.choice(("other", "other", "swap"))
                    if not e["binds"]:
                        flippable = True
                        if flip_mode:
                            flips.append({"el": cn, "field": "auth_data" if e["kind"] == "attkey"
                                          else "custom_data"})
                        elif e["kind"] == "attkey":
                            v = rng.choice(ATT_BIND_VARIANTS if e["keyValid"] else ATT_BIND_VARIANTS[:-1])
                            if v == "swappedkey":
                                es["key"] = "swapped"
                            else:
                                es["bind"] = v
                        else:
                            es["bind"] = rng.choice(QUOTE_BIND_VARIANTS)
                if e["kind"] == "attkey" and not e["keyValid"]:
                    flippable = True
                    if flip_mode:
                        flips.append({"el": cn, "field": "key", "region": "xy"})
                    else:
                        es["key"] = "offcurve"
        if b.get("len") == "long":
            inflate(sp, rng)
        tz = b.get("tz", "utc")
        if tz != "utc":
            sp["time_edge"] = True      # an offset matters where the clock is a step from a boundary
        return {"spec": sp, "flips": flips, "clocks": list(b["clks"]) if sp["timeline"] else None, "tz": tz,
                "names": m}

    plans = [mk(False)]
    if flippable:
        plans += [mk(True) for _ in range(nflip)]
    else:
        plans.append(mk(False))
    return plans


# ------------------------------------------------------------------------------------------------
# running the real code
# ------------------------------------------------------------------------------------------------
def b2l(b):
    return list(bytes(b))


# fields that are also read back through SgxQuote.to_dict(): every decoded integer + the values the
# verify command prints
DICT_FIELDS = tuple(p + n for lay, p in ((certv2.QUOTE_HEADER, ""), (certv2.REPORT_BODY, "report_body."))
                    for (n, _s, k) in lay.fields if k == "uint") + \
    ("report_body.mrenclave", "report_body.mrsigner", "report_body.report_data")
UNREADABLE = [256]        # sentinel: never equal to a byte sequence


def signed_values(mat):
    """What was signed, from the builder's own structured input (oracle side)."""
    fb = {k: b2l(v) for k, v in certv2.quote_field_bytes(mat).items()}
    return {"custom": b2l(mat["quote"]["custom_data"]), "quote": b2l(mat["quote"]["message"]),
            "fields": fb, "dict_fields": {k: fb[k] for k in DICT_FIELDS}}


def _attr_path(obj, dotted):
    for part in dotted.split("."):
        obj = getattr(obj, part)
    return obj


def _dict_path(obj, dotted):
    for part in dotted.split("."):
        obj = obj[part]
    return obj


def project_value(read, size, kind):
    """TOTAL projection of one returned value onto the octets it stands for: an unsigned integer of
    `size` bytes -> its little-endian octets, a byte string (or hex text, as to_dict() gives) -> its
    octets.  Anything else the code may hand back (negative or oversized number, wrong type, an
    exception while reading it) is an observation that differs from every signed byte string."""
    try:
        v = read()
        if kind == "uint":
            if isinstance(v, int) and not isinstance(v, bool) and 0 <= v < (1 << (8 * size)):
                return b2l(v.to_bytes(size, "little"))
            return UNREADABLE
        if isinstance(v, str):
            v = bytes.fromhex(v)
        if isinstance(v, (bytes, bytearray)):
            return b2l(v)
        return UNREADABLE
    except Exception:
        return UNREADABLE


def reported_values(value):
    """Projection (total: never raises) of the value the validator returned for a valid quote target:
    custom message, raw quote, every field of the returned SgxQuote read as an attribute, and the
    integers / printed values read again through SgxQuote.to_dict()."""
    def get(k):
        try:
            return value[k]
        except Exception:
            return None
    q = get("sgx_quote")
    fields, sizes = {}, {}
    for lay, prefix in ((certv2.QUOTE_HEADER, ""), (certv2.REPORT_BODY, "report_body.")):
        for (n, size, kind) in lay.fields:
            path = prefix + n
            sizes[path] = (size, kind)
            ap = path + ".field" if path == "report_body.report_data" else path
            fields[path] = project_value(lambda ap=ap: _attr_path(q, ap), size, kind)
    try:
        qd = q.to_dict()
    except Exception:
        qd = None
    dict_fields = {}
    for path in DICT_FIELDS:
        dp = path + ".field" if path == "report_body.report_data" else path
        dict_fields[path] = project_value(lambda dp=dp: _dict_path(qd, dp), *sizes[path])
    return {"custom": project_value(lambda: get("message"), 0, "bytes"),
            "quote": project_value(lambda: q.get_raw_data(), 0, "bytes"),
            "fields": fields, "dict_fields": dict_fields}


EMPTY_VALUES = {"custom": [], "quote": [], "fields": {}, "dict_fields": {}}


# The UTC offset of the machine the validator runs on (an environment choice): name -> (hours east of
# UTC, POSIX TZ string - whose sign is the other way round)
MACHINE_TZ = {"utc": (0, "UTC0"), "m8": (-8, "PST8"), "p9": (9, "JST-9"), "p14": (14, "<+14>-14"),
              "m12": (-12, "<-12>12")}
_CURRENT_TZ = ["utc"]


class machine_tz:
    """Run a block as on a machine in that time zone: TZ + time.tzset() (so the REAL datetime.now() gives
    that local time) and the same offset for the frozen clock; restored afterwards."""

    def __init__(self, name):
        self.name = name or "utc"

    def __enter__(self):
        import time
        self.old_env = os.environ.get("TZ")
        self.old_name = _CURRENT_TZ[0]
        os.environ["TZ"] = MACHINE_TZ[self.name][1]
        time.tzset()
        _CURRENT_TZ[0] = self.name

    def __exit__(self, *a):
        import time
        if self.old_env is None:
            os.environ.pop("TZ", None)
        else:
            os.environ["TZ"] = self.old_env
        time.tzset()
        _CURRENT_TZ[0] = self.old_name
        return False


def observe(cert, root_pem, target, scratch, tag, via_file=True, pre_root_pem=None, clock=None, tz=None):
    """`clock` (ISO string or datetime): run the code with `datetime.now()` of admin.certificate_v2
    frozen at that instant (boundary validity windows); None = the wall clock.  `tz`: the machine's
    time zone (key of MACHINE_TZ)."""
    import datetime as _dt
    instant = _dt.datetime.fromisoformat(clock) if isinstance(clock, str) else clock
    with machine_tz(tz):
        undo = _freeze(instant)
        try:
            return _observe(cert, root_pem, target, scratch, tag, via_file, pre_root_pem)
        finally:
            undo()


def _root_of_trust(path, text):
    """The object handed to validate_and_get_values: the X.509 root element read from the PEM file, or -
    for the text "v1root:<hex>" - a root of trust of another kind (version-1 HSMCertificateRoot)."""
    from admin.certificate import HSMCertificateRoot, HSMCertificateV2ElementX509
    if text.startswith("v1root:"):
        return HSMCertificateRoot(text[len("v1root:"):])
    return HSMCertificateV2ElementX509.from_pemfile(path, ROOT, ROOT)


def _observe(cert, root_pem, target, scratch, tag, via_file=True, pre_root_pem=None):
    """Run the real loader + validator; project the outcome. With `pre_root_pem` the certificate object is
    first asked about that other root of trust and only then about `root_pem` (the verdict must be a
    function of certificate and root, not of what the object was asked before)."""
    import warnings
    warnings.filterwarnings("ignore")       # cryptography deprecation chatter on corrupted serials
    from admin.certificate import HSMCertificate, HSMCertificateV2, HSMCertificateV2ElementX509
    obs = {"loaded": False, "valid": False, "failing": "none", "exc": None, "reported": EMPTY_VALUES}
    cp, rp = certv2.write_files(cert, root_pem, scratch, tag)
    try:
        root = _root_of_trust(rp, root_pem)
        try:
            c = HSMCertificate.from_jsonfile(cp) if via_file else HSMCertificateV2(cert)
        except ValueError as e:
            obs["exc"] = "load: %s" % str(e)[:120]
            return obs
        obs["loaded"] = True
        if pre_root_pem is not None:
            try:
                pp = os.path.join(scratch, "pre_%s.pem" % tag)
                with open(pp, "w") as f:
                    f.write(pre_root_pem)
                c.validate_and_get_values(HSMCertificateV2ElementX509.from_pemfile(pp, ROOT, ROOT))
            except Exception:
                pass
            finally:
                try:
                    os.unlink(pp)
                except OSError:
                    pass
        try:
            res = c.validate_and_get_values(root)
        except Exception as e:          # not a verdict: certainly not "reported valid"
            obs["exc"] = "validate: %r" % (e,)
            return obs
        try:                            # reading the result must not be able to fail the harness
            r = res.get(target)
            if r is None:
                obs["exc"] = "no verdict for target"
                return obs
            if r[0] is True:
                obs["valid"] = True
                obs["reported"] = reported_values(r[1])
            else:
                obs["failing"] = str(r[1])
        except Exception as e:
            if obs["valid"]:
                obs["reported"] = {"custom": UNREADABLE, "quote": UNREADABLE, "fields": {}, "dict_fields": {}}
            obs["exc"] = "unreadable result: %r" % (e,)
        return obs
    finally:
        for p in (cp, rp):
            try:
                os.unlink(p)
            except OSError:
                pass


def _freeze(instant):
    """Freeze admin.certificate_v2's clock at `instant` (datetime) / unfreeze (None); returns undo."""
    import admin.certificate_v2 as cv2
    real = cv2.datetime
    if instant is None:
        return lambda: None

    import datetime as _dt
    hours = MACHINE_TZ[_CURRENT_TZ[0]][0]

    class FrozenDateTime(real):
        """Faithful to datetime.now: without tz the naive LOCAL time of the machine, with tz the aware
        time in that zone - both denoting the frozen instant."""
        @classmethod
        def now(cls, tz=None):
            if tz is not None:
                return instant.astimezone(tz)
            try:
                return (instant.astimezone(_dt.timezone.utc) + _dt.timedelta(hours=hours)).replace(tzinfo=None)
            except OverflowError:       # local time beyond year 1 / 9999 cannot be expressed
                return instant.astimezone(_dt.timezone.utc).replace(tzinfo=None)
    cv2.datetime = FrozenDateTime

    def undo():
        cv2.datetime = real
    return undo


def _ask(c, root, target):
    """One validate_and_get_values on loaded objects, projected (total)."""
    obs = {"loaded": True, "valid": False, "failing": "none", "exc": None, "reported": EMPTY_VALUES}
    try:
        res = c.validate_and_get_values(root)
    except Exception as e:
        obs["exc"] = "validate: %r" % (e,)
        return obs
    try:
        r = res.get(target)
        if r is None:
            obs["exc"] = "no verdict for target"
        elif r[0] is True:
            obs["valid"] = True
            obs["reported"] = reported_values(r[1])
        else:
            obs["failing"] = str(r[1])
    except Exception as e:
        if obs["valid"]:
            obs["reported"] = {"custom": UNREADABLE, "quote": UNREADABLE, "fields": {}, "dict_fields": {}}
        obs["exc"] = "unreadable result: %r" % (e,)
    return obs


def observe_history(cert, root_pem, target, scratch, tag, instants, via_file=True, alt_root_pem=None,
                    requery=(), tz=None):
    with machine_tz(tz):
        return _observe_history(cert, root_pem, target, scratch, tag, instants, via_file, alt_root_pem,
                                requery)


def _observe_history(cert, root_pem, target, scratch, tag, instants, via_file=True, alt_root_pem=None,
                     requery=()):
    """The SAME loaded certificate object and the SAME root-of-trust element object are asked once per
    entry of `instants` (ISO string = clock of admin.certificate_v2 frozen there, None = wall clock).
    In the rounds listed in `requery` the certificate object is first asked about `alt_root_pem`.
    Returns one observation per round."""
    import datetime as _dt
    import warnings
    warnings.filterwarnings("ignore")
    from admin.certificate import HSMCertificate, HSMCertificateV2, HSMCertificateV2ElementX509
    cp, rp = certv2.write_files(cert, root_pem, scratch, tag)
    ap = os.path.join(scratch, "alt_%s.pem" % tag)
    try:
        root = _root_of_trust(rp, root_pem)
        alt = None
        if alt_root_pem is not None:
            with open(ap, "w") as f:
                f.write(alt_root_pem)
            alt = HSMCertificateV2ElementX509.from_pemfile(ap, ROOT, ROOT)
        try:
            c = HSMCertificate.from_jsonfile(cp) if via_file else HSMCertificateV2(cert)
        except ValueError as e:
            return [{"loaded": False, "valid": False, "failing": "none", "exc": "load: %s" % str(e)[:120],
                     "reported": EMPTY_VALUES} for _ in instants]
        out = []
        for k, iso in enumerate(instants):
            undo = _freeze(_dt.datetime.fromisoformat(iso) if iso else None)
            try:
                if alt is not None and k in requery:
                    try:
                        c.validate_and_get_values(alt)
                    except Exception:
                        pass
                out.append(_ask(c, root, target))
            finally:
                undo()
        return out
    finally:
        for p in (cp, rp, ap):
            try:
                os.unlink(p)
            except OSError:
                pass


SWEEP_BASE = None       # (cert, root_pem, material) of the representative chain; set before forking


def run_task(task):
    """Never raises: an exception of the harness itself comes back as {"id", "harness_error"}."""
    try:
        return _run_task(task)
    except Exception:
        import traceback
        return {"id": task[0], "harness_error": traceback.format_exc()[-1500:], "meta": task[3]}


def _run_task(task):
    """task = (tid, seed, plan, meta, scratch) -> trace dict (runs in a worker process).
    plan None-spec ("base": True): the flips are applied to the one representative chain."""
    tid, seed, plan, meta, scratch = task
    rng = random.Random("C07:%d:%d" % (seed, tid))
    if plan.get("base"):
        cert, root_pem, mat = SWEEP_BASE
        cert, abstract, applied = certv2.apply_flips(cert, mat, plan["flips"], rng)
    else:
        cert, root_pem, mat, abstract, applied = certv2.realise(plan, rng)
    if plan.get("clocks") and mat.get("clocks"):
        return _run_history(tid, plan, meta, scratch, cert, root_pem, mat, abstract, applied)
    clock = mat.get("clock").isoformat() if mat.get("clock") is not None else None
    tz = plan.get("tz") or "utc"
    obs = observe(cert, root_pem, abstract["target"], scratch, "t%d" % tid, via_file=(tid % 5 != 4),
                  clock=clock, tz=tz)
    t = {"id": tid, "cert": abstract["cert"], "rot": abstract["rot"], "target": abstract["target"],
         "loaded": obs["loaded"], "valid": obs["valid"], "failing": obs["failing"],
         "reported": obs["reported"],
         "signed": signed_values(mat) if obs["valid"] else EMPTY_VALUES,
         "unspecified": abstract["unspecified"], "exc": obs["exc"], "applied": applied,
         "meta": dict(meta, frozen_clock=clock is not None, tz=tz),
         "fillers": [x["name"] for x in mat["spec"]["x509"] if x.get("filler")] if not plan.get("base") else [],
         "concrete": zlib.compress(json.dumps({"certificate": cert, "root_pem": root_pem,
                                               "clock": clock, "tz": tz}).encode())}
    # the same question put to an object that was first asked about another root of trust
    roots = mat.get("root_pem") if isinstance(mat, dict) else None
    if isinstance(roots, dict) and roots.get("right") and roots.get("fresh"):
        alt = roots["fresh"] if root_pem == roots["right"] else roots["right"]
        obs2 = observe(cert, root_pem, abstract["target"], scratch, "q%d" % tid, via_file=False,
                       pre_root_pem=alt, clock=clock, tz=tz)
        if (obs2["loaded"], obs2["valid"], obs2["reported"]) != (obs["loaded"], obs["valid"], obs["reported"]):
            t2 = dict(t)
            t2.update(id=tid + 50000000, loaded=obs2["loaded"], valid=obs2["valid"], failing=obs2["failing"],
                      reported=obs2["reported"], exc=obs2["exc"],
                      signed=signed_values(mat) if obs2["valid"] else EMPTY_VALUES,
                      meta=dict(meta, requery=True))
            t["also"] = t2
    return t


ROUND_ID = 10000000        # id of the k-th validation (k = 2, 3) of task tid: tid + (k - 1) * ROUND_ID


def _run_history(tid, plan, meta, scratch, cert, root_pem, mat, abstract, applied):
    """Several validations of the same objects, the clock set anew before each (plan["clocks"] = instants
    1|2|3 of the builder's timeline).  One trace per validation, each with the abstract certificate AS IT
    IS AT THAT INSTANT; the first is returned, the others ride along in "also"."""
    ks = list(plan["clocks"])
    edge = bool(mat["spec"].get("time_edge"))
    # instant 2 is "now": without boundary windows the first validation may as well use the wall clock
    instants = [None if (k == 2 and not edge and i == 0) else mat["clocks"][k].isoformat()
                for i, k in enumerate(ks)]
    roots = mat["root_pem"]
    alt = roots["fresh"] if root_pem == roots["right"] else roots["right"]
    requery = [i for i in range(len(ks)) if (tid + i) % 2 == 1]
    obss = observe_history(cert, root_pem, abstract["target"], scratch, "h%d" % tid, instants,
                           via_file=(tid % 5 != 4), alt_root_pem=alt, requery=requery,
                           tz=plan.get("tz") or "utc")
    traces = []
    for i, (k, obs) in enumerate(zip(ks, obss)):
        ab = certv2.retime(mat, abstract, k)
        traces.append({
            "id": tid + i * ROUND_ID, "cert": ab["cert"], "rot": ab["rot"], "target": ab["target"],
            "loaded": obs["loaded"], "valid": obs["valid"], "failing": obs["failing"],
            "reported": obs["reported"], "signed": signed_values(mat) if obs["valid"] else EMPTY_VALUES,
            "unspecified": ab["unspecified"], "exc": obs["exc"], "applied": applied,
            "meta": dict(meta, frozen_clock=instants[i] is not None, round=i + 1, instants=ks[:i + 1],
                         requery=i in requery, tz=plan.get("tz") or "utc"),
            "concrete": zlib.compress(json.dumps({
                "certificate": cert, "root_pem": root_pem, "history": instants[:i + 1],
                "alt_root_pem": alt, "requery": [r for r in requery if r <= i],
                "tz": plan.get("tz") or "utc"}).encode())})
    t = traces[0]
    t["history_outcomes"] = ["valid" if x["valid"] else ("invalid" if x["loaded"] else "loaderror")
                             for x in traces]
    t["final"] = {"cert": traces[-1]["cert"], "rot": traces[-1]["rot"]}
    t["fillers"] = [x["name"] for x in mat["spec"]["x509"] if x.get("filler")]
    t["also"] = traces[1:]
    return t


HARNESS_ERRORS = []       # tasks the harness itself failed on (reported after the verdicts)


def run_tasks(tasks):
    if PROCS <= 1 or len(tasks) < 64:
        res = [run_task(t) for t in tasks]
    else:
        ctxm = multiprocessing.get_context("fork")
        with ctxm.Pool(PROCS) as pool:
            res = pool.map(run_task, tasks, chunksize=32)
    out, extras = [], []
    for t in res:
        if "harness_error" in t:
            HARNESS_ERRORS.append(t)
            continue
        also = t.pop("also", None)
        out.append(t)
        if isinstance(also, list):
            extras.extend(also)
        elif also is not None:
            extras.append(also)
    return out + extras


# ------------------------------------------------------------------------------------------------
# classes / signatures
# ------------------------------------------------------------------------------------------------
def defects_of(abstract):
    """Kind-level description of how an abstract certificate deviates from a genuine one."""
    cert = abstract["cert"]
    out = []
    for n, e in sorted(cert.items()):
        k = e["kind"]
        # the certifier of an element signed by the root authority is the root of trust GIVEN to the
        # validator, never an element of that name inside the certificate
        by = cert.get(e["by"]) if e["by"] != ROOT else None
        if n == ROOT:
            out.append("embedded-root=%s" % ("genuine" if e["key"] == ROOT else "foreign"))
            if e["time"] != "Valid":
                out.append("embedded-root:time=%s" % e["time"])
            if e["sigBy"] != e["key"]:
                out.append("embedded-root:sig=bad")
            continue
        if k == "x509":
            if e["time"] != "Valid":
                out.append("x509:time=%s" % e["time"])
            if e["curve"] != "P256":
                out.append("x509:curve=Other")
            if e.get("naming", "canon") != "canon":
                out.append("x509:naming=%s" % e["naming"])
        if e["sigBy"] == "foreign":
            out.append("x509:issued-by-foreign-root" + ("" if e["by"] == ROOT else "+reparent"))
        elif e["sigBy"] == "other":
            out.append("%s:sig=bad" % k)
        elif by is not None and e["sigBy"] != by["key"]:
            out.append("%s:reparent->%s" % (k, by["kind"]))
        elif by is None and e["by"] != ROOT:
            out.append("%s:reparent->dangling" % k)
        elif by is None and e["sigBy"] != ROOT:
            out.append("%s:reparent->root" % k)
        if k != "x509" and not e["binds"]:
            out.append("%s:binds=F" % k)
        if k == "attkey" and not e["keyValid"]:
            out.append("attkey:key=invalid")
    for n in cert:
        if n != ROOT and n in ROOT:
            out.append("element-name-is-substring-of-root-name")
        elif n != ROOT and (len(n) > 40 or not all(ch.islower() or ch.isdigit() or ch == "_" for ch in n)):
            out.append("element-name:unusual")
    nx = sum(1 for n, e in cert.items() if e["kind"] == "x509" and n != ROOT)
    if nx > 3:
        out.append("x509-elements:%s" % ("4..255" if nx < 256 else "256+"))
    if any(n != ROOT and e["kind"] == "x509" and e["key"] == ROOT for n, e in cert.items()):
        out.append("root-certificate-reappears-in-chain")
    if abstract["rot"].get("kind") != "x509":
        out.append("rot:kind=%s" % abstract["rot"].get("kind"))
    for n, e in cert.items():
        if e["kind"] == "x509" and e["by"] in cert and cert[e["by"]]["kind"] != "x509":
            out.append("x509-certified-by-%s" % cert[e["by"]]["kind"])
    if abstract["rot"]["key"] != ROOT:
        out.append({"wrong": "rot=wrong", "foreign": "rot=foreign-root"}.get(abstract["rot"]["key"],
                                                                            "rot=top-element"))
    if abstract["rot"]["curve"] != "P256":
        out.append("rot:curve=Other")
    if abstract["rot"].get("time", "Valid") != "Valid":
        out.append("rot:time=%s" % abstract["rot"]["time"])
    return sorted(set(out))


def signature(clause, t):
    obs = "valid" if t["valid"] else ("invalid" if t["loaded"] else "loaderror")
    return "%s|%s|observed=%s" % (clause, "+".join(defects_of(t)) or "genuine", obs)


# ------------------------------------------------------------------------------------------------
# binding B: random specs over the concrete domains
# ------------------------------------------------------------------------------------------------
def random_plan(rng):
    d = rng.choice((1, 2, 2, 3, 3, 4))
    sp = certv2.default_spec(d)
    pdef = rng.choice((0.0, 0.05, 0.15))

    def bad():
        return rng.random() < pdef
    names = set()

    def fresh_name(base):
        while True:
            n = base if rng.random() < 0.5 else "%s_%x" % (base[:6], rng.getrandbits(24))
            if rng.random() < 0.15:      # names are free text: substrings / variants of the reserved one ...
                n = rng.choice(SUB_NAMES + ODD_NAMES)
            if n not in names and n != ROOT and n not in PSEUDO:
                names.add(n)
                return n
    for i, xs in enumerate(sp["x509"]):
        xs["name"] = fresh_name(xs["name"])
        if bad():
            xs["time"] = rng.choice(("Expired", "NotYet"))
        if bad():
            xs["sig"] = rng.choice(("other", "swap"))
        if rng.random() < 0.15:
            xs["curve"] = "P384" if i < d - 1 else rng.choice(("P384", "RSA"))
    sp["root"] = {"curve": rng.choice(("P256", "P256", "P384")), "time": "Valid"}
    sp["vary_content"] = rng.random() < 0.8
    sp["time_edge"] = rng.random() < 0.25
    clocks = None
    if rng.random() < 0.3:            # a timeline: windows + 2..3 validations at independent instants
        sp["timeline"] = rng.choice((True, True, "extreme"))
        clocks = [rng.choice((1, 2, 3)) for _ in range(rng.choice((1, 2, 3)))]
        sp["root"]["window"] = rng.choice(("all", "all", "all", "until1", "from3", "only2"))
        for xs in sp["x509"]:
            xs["window"] = rng.choice(("all", "all", "all", "until1", "from3", "only2"))
    for i, xs in enumerate(sp["x509"]):
        if rng.random() < 0.3:
            opts = ["selfissued", "likeparent", "nomatch", "rootsubject"]
            if i > 0:
                opts.append("rootissuer")
            if d >= 3 or (d == 2 and i == 0):
                opts.append("dupsubject")
            xs["naming"] = rng.choice(opts)
    a, q = sp["attkey"], sp["quote"]
    a["name"] = fresh_name("attestation")
    q["name"] = fresh_name("quote")
    a["auth_len"] = rng.choice((1, 16, 32, 100, 1000, rng.randrange(1, 1001)))
    a["encoding"] = rng.choice(("uncompressed", "raw"))
    a["bind"] = rng.choice(ATT_BIND_VARIANTS[:-1]) if bad() else rng.choice(("ok", "ok_tail"))
    if bad():
        a["key"] = rng.choice(("offcurve", "swapped"))
    if bad():
        a["sig"] = rng.choice(("other", "swap"))
    q["custom_data"] = rng.randbytes(rng.choice((1, 15, 32, 127, 300, rng.randrange(1, 400))))
    q["bind"] = rng.choice(QUOTE_BIND_VARIANTS) if bad() else rng.choice(("ok", "ok_tail"))
    if bad():
        q["sig"] = rng.choice(("other", "swap"))
    if rng.random() < 0.3:
        ex = {"name": fresh_name("spare_ca"), "parent": rng.choice([ROOT] + [x["name"] for x in sp["x509"][:-1]]),
              "time": rng.choice(("Valid", "Expired", "NotYet")), "sig": rng.choice(("parent", "other"))}
        if rng.random() < 0.5:
            tw = rng.choice(sp["x509"])
            if tw["curve"] != "RSA":
                ex["samekey_as"] = tw["name"]
        sp["extra"] = [ex]
    allnames = [x["name"] for x in sp["x509"]] + [a["name"], q["name"]] + [x["name"] for x in sp["extra"]]
    if bad():
        n = rng.choice(allnames[:d + 2])
        sp["reparent"][n] = rng.choice(allnames + [ROOT, "nobody"])
    sp["rot"] = rng.choice(("fresh", "top")) if bad() else rng.choice(("right", "samekey"))
    if rng.random() < 0.25:
        sp["embed"] = {"kind": rng.choice(("genuine", "foreign")),
                       "time": rng.choice(("Valid", "Valid", "Expired", "NotYet")),
                       "sig": rng.choice(("self", "self", "other"))}
        if rng.random() < 0.4 and sp["x509"][0].get("sig", "parent") == "parent":
            sp["x509"][0]["sig"] = "foreign"
        if rng.random() < 0.4:
            sp["rot"] = rng.choice(("foreign", "fresh", "right"))
    sp["shuffle"] = rng.random() < 0.5
    sp["pem_newlines"] = rng.random() < 0.3
    flips = []
    if rng.random() < 0.35:
        for _ in range(rng.choice((1, 1, 2))):
            el = rng.choice(allnames)
            typ = "x509_pem" if el not in (a["name"], q["name"]) else \
                ("sgx_attestation_key" if el == a["name"] else "sgx_quote")
            f = rng.choice(certv2.fields_of({"type": typ}))
            flips.append({"el": el, "field": f})
    if clocks:
        for xs in sp["x509"]:
            xs.pop("time", None)      # on a timeline the window decides
        for ex in sp["extra"]:
            ex["window"] = {"Valid": "all", "Expired": "until1", "NotYet": "from3"}[ex.get("time", "Valid")]
    # RSA issuers of X.509 elements are outside what C07 exercises (see plans_for)
    return {"spec": sp, "flips": flips, "clocks": clocks, "tz": rng.choice(("utc", "utc") + tuple(MACHINE_TZ))}


def rsa_issues_x509(plan):
    sp = plan["spec"]
    rsa = {x["name"] for x in sp["x509"] if x.get("curve") == "RSA"}
    if not rsa:
        return False
    xs = sp["x509"]
    for i in range(1, len(xs)):
        if xs[i - 1]["name"] in rsa:
            return True
    for ex in sp.get("extra") or []:
        if ex.get("parent") in rsa:
            return True
    for n, p in (sp.get("reparent") or {}).items():
        if p in rsa and n not in (sp["attkey"]["name"], sp["quote"]["name"]):
            return True
    return False


# ------------------------------------------------------------------------------------------------
# the check
# ------------------------------------------------------------------------------------------------
SYS_ACTIONS = ("Mutate", "MutateName", "Stretch", "Shift", "Lengthen", "Relabel", "Start", "ParseStep", "Build", "Walk", "Tick")


def payload_of(t):
    return {k: t[k] for k in ("id", "cert", "rot", "target", "loaded", "valid", "failing",
                              "reported", "signed")}


def judge(res, traces, label):
    traces = [t for t in traces if not t["unspecified"]]
    verdicts, stats = tlc.validate("TraceCertV2", "Trace_CertV2.cfg", [payload_of(t) for t in traces],
                                   shards=PROCS)
    res.checker_cmds.append("tlc -workers 1 -config Trace_CertV2.cfg TraceCertV2 (%s, x%d shards)"
                            % (label, stats["jvms"]))
    accepted = drift = 0
    for t in traces:
        v = verdicts[t["id"]]
        if v["clause"] in ("Malformed", "Stuck"):
            raise core.MachineryError("trace %s of %s is %s: %s" % (t["id"], label, v["clause"],
                                                                   json.dumps(t["cert"])[:400]))
        t["accepted"] = bool(v["ok"])
        if v["ok"]:
            accepted += 1
            drift += 1 if v.get("at") == 1 else 0
        else:
            res.violation(signature(v["clause"], t),
                          "v2 certificate [%s] root=%s: validator says %s (%s), violates %s"
                          % ("+".join(defects_of(t)) or "genuine", t["rot"]["key"],
                             "VALID" if t["valid"] else "not valid",
                             t["failing"] if t["loaded"] else t["exc"], v["clause"]),
                          {"abstract": {"cert": t["cert"], "rot": t["rot"], "target": t["target"]},
                           "applied_flips": t["applied"],
                           "concrete": json.loads(zlib.decompress(t["concrete"]).decode()),
                           "signed": t["signed"], "meta": t["meta"], "verdict": v})
    res.add_validation(stats, accepted)
    return accepted, drift


def selftest_trace_spec(traces, next_id, have_violations=False):
    """DESIGN 3.7(a): accepted observations with one logged field corrupted must be rejected by the
    trace specification (otherwise the judge is blind)."""
    import copy
    # only observations TLC accepted are corrupted (a rejected one is a violation, reported as such)
    val = next((t for t in traces if t["valid"] and t.get("accepted")), None)
    inv = next((t for t in traces if t["loaded"] and not t["valid"] and t.get("accepted")), None)
    if val is None or inv is None:
        if have_violations:     # e.g. every valid observation was rejected: that IS the finding
            return 0
        raise core.MachineryError("selftest: no valid / invalid observation to corrupt")
    neg = []

    def add(t, clause, edit):
        t2 = copy.deepcopy(payload_of(t))
        edit(t2)
        t2["id"] = next_id + len(neg)
        neg.append((t2, clause))
    add(val, "ValidIff", lambda t: t.update(valid=False))
    add(inv, "ValidIff", lambda t: t.update(valid=True, reported=val["reported"], signed=val["reported"]))
    add(val, "ReportedExact", lambda t: t["reported"]["custom"].__setitem__(-1, t["reported"]["custom"][-1] ^ 1))
    add(val, "ReportedExact", lambda t: t["reported"]["quote"].__setitem__(100, t["reported"]["quote"][100] ^ 0x10))
    add(val, "ReportedExact", lambda t: t["reported"]["fields"].__setitem__(
        "report_body.mrsigner", t["reported"]["fields"]["report_body.mrenclave"]))
    add(val, "ReportedExact", lambda t: t["reported"]["dict_fields"].__setitem__(
        "report_body.attributes.flags", UNREADABLE))
    add(val, "ReportedExact", lambda t: t["reported"]["fields"].__setitem__(
        "report_body.isvsvn", [t["reported"]["fields"]["report_body.isvsvn"][1],
                               t["reported"]["fields"]["report_body.isvsvn"][0] ^ 0x80]))
    verdicts, _ = tlc.validate("TraceCertV2", "Trace_CertV2.cfg", [t for t, _c in neg], shards=1)
    for t, clause in neg:
        v = verdicts[t["id"]]
        if v["ok"] or v["clause"] != clause:
            raise core.MachineryError("selftest: corrupted observation not rejected by %s: %s" % (clause, v))
    return len(neg)


def run(ctx):
    res = core.Result()
    # paths of 500+ elements: TLC evaluates the recursive Path / SpecValid of CertV2Props on them
    os.environ.setdefault("JAVA_TOOL_OPTIONS", "-Xss512m")
    res.assumptions = [
        "perfect cryptography (DESIGN 3.3): a signature verifies only under the key that made it over "
        "the exact message; SHA-256 has no collisions — a flipped byte of a message / signature / auth "
        "data / custom data / key coordinate is a broken signature / binding / key",
        "the code does not distinguish two members of one abstract class beyond the seeded samples "
        "(key material is fresh OS randomness per run; positions, masks and variants are seeded)",
        "validity windows are >= 1 day away from the wall clock on either side, except in the runs "
        "with the code's clock (admin.certificate_v2.datetime.now) frozen by the harness at a whole "
        "second T: there Valid windows touch T exactly (not_before == T and/or not_after == T: the "
        "unchanged code accepts equality, as RFC 5280's inclusive period), Expired is not_after == "
        "T - 1 s, NotYet is not_before == T + 1 s",
        "names, serial numbers, extensions and signature hash of the X.509 elements are free content: "
        "the reference semantics never reads them (every naming pattern is an explicit Env choice of "
        "the model; serial / extensions / hash / name style are seeded boundary-first)",
        "the text speaks of the periods of the certificate's X.509 elements; when the root of trust "
        "handed to the validator is itself outside its period (explored on the timelines) a refusal is "
        "allowed as well as the code's present behaviour of not looking at it (the verify command "
        "checks the root separately, C08) - a false accept never is",
        "time moving between validations: the same loaded certificate object and root element object "
        "are validated 2 (quick) / 3 (thorough) times with admin.certificate_v2's clock frozen at "
        "instants of a 3-instant timeline chosen by TLC (before / inside / exactly at / after the "
        "windows of each X.509 element and of the root); every validation is judged against the "
        "reference at THAT instant",
        "X.509 elements issued under an RSA key are not exercised (the text does not fix a signature "
        "scheme, the code is ECDSA-only and refuses them); RSA / P-384 keys are exercised as the "
        "attestation key's certifier, P-384 also as issuer of X.509 elements",
        "encoding-level octets (the BIT STRING unused-bits octet of an X.509 signature, the 04 prefix "
        "of the attestation key) are skipped by the byte sweep: flipping them can denote the same "
        "signature / key",
        "attestation key 'key' means the 64 bytes x || y (as in Intel's QE report; cross-checked on a "
        "recorded QE report body)",
    ]
    certv2.self_test()
    # 1. design check, exhaustive ---------------------------------------------------------------
    # (quick: histories of 2 validations, thorough: of 3)
    # quick: ONE exhaustive run serves as design check and as generator (Genq_CertV2.cfg carries every
    # invariant of MC_CertV2.cfg; the liveness property is checked in the thorough tier)
    gen_early = None
    if ctx.quick:
        try:
            gen_early = tlc.generate("GenCertV2", "Genq_CertV2.cfg", coverage=True)
        except tlc.TLCError as e:
            raise core.MachineryError("CertV2 model: %s" % e)
        r = gen_early[1]
    else:
        r = tlc.check("CertV2", "MC_CertV2.cfg", coverage=True, workers=4)
    if r.violated:
        raise core.MachineryError("CertV2 model violates %s — model of the code and reference "
                                  "semantics disagree; reproduce on the code before reporting" % r.violated)
    res.add_tlc(r, "Genq_CertV2 exhaustive, all invariants + generation" if ctx.quick
                else "MC_CertV2 exhaustive (+ liveness Terminates)")
    counts = r.action_counts()
    never = [a for a in SYS_ACTIONS if counts.get(a, 0) == 0]
    if never:
        raise core.MachineryError("vacuity: actions never taken: %s" % never)
    res.coverage["uncovered_actions"] = never
    if not ctx.quick:
        r4 = tlc.check("CertV2", "MC4_CertV2.cfg", workers=4)
        if r4.violated:
            raise core.MachineryError("CertV2 model (<= 4 defects) violates %s" % r4.violated)
        res.add_tlc(r4, "MC4_CertV2 exhaustive, <= 4 simultaneous defects (model only)")
    rn = tlc.run("CertV2", "Neg_CertV2.cfg", workers=2, extra=("-continue",))
    missing = {"NeverValid", "NeverInvalid", "NeverLoadError"} - set(rn.violated)
    if missing:
        raise core.MachineryError("vacuity guard: outcomes never produced by the model: %s" % sorted(missing))
    rn2 = tlc.run("CertV2", "Neg2_CertV2.cfg", workers=2)
    if "NeverChanges" not in rn2.violated:
        raise core.MachineryError("vacuity guard: no verdict ever changes between two validations")
    # 2. every abstract certificate ---------------------------------------------------------------
    # (quick: clock histories of 2 validations, thorough: of 3)
    if gen_early:
        behaviours, rg = gen_early
    else:
        behaviours, rg = tlc.generate("GenCertV2", "Gen_CertV2.cfg")
        res.add_tlc(rg, "Gen_CertV2 certificates")
    uniq = {}
    for b in behaviours:
        uniq.setdefault(json.dumps([b["cert"], b["rot"], b["clks"], b["scale"], b["tz"], b["len"]],
                                   sort_keys=True), b)
    behaviours = [uniq[k] for k in sorted(uniq)]
    res.coverage["behaviours_generated"] = len(behaviours)
    res.coverage["clock_histories_generated"] = sum(1 for b in behaviours if len(b["clks"]) > 1)
    res.coverage["model_outcomes"] = {o: sum(1 for b in behaviours if b["outcome"] == o)
                                      for o in ("valid", "invalid", "loaderror")}
    # 3. concretise + run the real code -------------------------------------------------------------
    if ctx.quick:
        def timedef(b):
            return any(e["win"] not in ("all", "na") for n, e in b["cert"].items()
                       if n not in ("spare", ROOT))

        def plain(b):
            return "spare" not in b["cert"] and ROOT not in b["cert"]

        def is_must(b):
            # every single deviation, every valid certificate with canonical names, and every
            # (naming x time defect) pair at every depth and position of the plain chains
            # (single deviations with both clock histories 2,1 and 2,3; the pairs with 2,1)
            return (b["ndef"] <= 1
                    or (b["nren"] == 0 and b["outcome"] == "valid" and not time_sensitive(b))
                    or (b["nren"] == 1 and timedef(b) and plain(b) and b["clks"] == [2, 1])
                    or (b["scale"] == "extreme" and plain(b))       # edge dates x every window defect
                    or (b["tz"] == ("m8", "p14")[ctx.seed % 2] and plain(b)))   # UTC offset x every window defect
        must = [b for b in behaviours if is_must(b)]
        rest = [b for b in behaviours if not is_must(b)]
        ctx.rng.shuffle(rest)
        rt = [b for b in rest if b["nren"] == 1 and timedef(b)][:100]
        nl = [b for b in rest if b["outcome"] != "loaderror" and not (b["nren"] == 1 and timedef(b))][:300]
        le = [b for b in rest if b["outcome"] == "loaderror"][:100]
        lg = [b for b in rest if b["len"] == "long"][:30]       # long chains with one more deviation
        # unusual element names x one more deviation (re-parenting first: a parent reference is where a
        # name is used)
        def labelled(b):
            return any(e.get("label", "plain") != "plain" for e in b["cert"].values())

        def reparented(b):
            dd, sk = shape(b)
            return any(e["by"] != orig_parent(n, dd, sk) for n, e in b["cert"].items())
        lb = [b for b in rest if labelled(b) and reparented(b) and plain(b)][:200] + \
             [b for b in rest if labelled(b) and not reparented(b)][:100]
        chosen = must + rt + nl + le
        seen_ids = {id(b) for b in chosen}
        for b in lg + lb:
            if id(b) not in seen_ids:
                seen_ids.add(id(b))
                chosen.append(b)
        nflip = 2
    else:
        # every certificate; of the four clock histories of a time-sensitive certificate with more than
        # one deviation, one (seeded); all four for single deviations and for the edge-date scale
        def keep(b):
            if b["ndef"] <= 1 or len(b["clks"]) == 1 or b["scale"] == "extreme" or b["tz"] != "utc":
                return True
            # (the certificate is the same in all four records except for the time classes at the
            # last instant: key on what does not change)
            ident = sorted((n, e["win"], e["by"], e["sigBy"], e["curve"], e["binds"], e["keyValid"],
                            e["naming"]) for n, e in b["cert"].items())
            h = zlib.crc32(json.dumps([ident, b["rot"]["key"], b["rot"]["win"], ctx.seed]).encode())
            return b["clks"] == [[2, 1, 3], [2, 3, 2], [2, 3, 1], [2, 1, 2]][h % 4]
        chosen = [b for b in behaviours if keep(b)]
        nflip = 3
    tasks, by_id = [], {}
    tid = 0
    for bi, b in enumerate(chosen):
        few = (ctx.quick and b["ndef"] > 1) or (len(b["clks"]) > 1 and b["ndef"] > 1)
        plans = plans_for(b, ctx.rng, 1 if few else nflip)
        for pi, plan in enumerate(plans):
            tid += 1
            tasks.append((tid, ctx.seed, plan, {"src": "model", "plan": pi, "names": plan["names"]},
                          ctx.scratch))
            by_id[tid] = b
    _t0 = time.time()
    traces = run_tasks(tasks)
    res.coverage.setdefault("phase_wall_s", {})["model_certificates"] = round(time.time() - _t0, 1)
    # the concretisation must realise exactly the abstract certificate TLC asked for
    model_drift = 0
    for t in traces:
        b = by_id.get(t["id"])
        if b is None:        # an extra observation (answer changed after a query with another root)
            continue
        want = mapped_abstract(b, t["meta"].get("names"))
        got = t.get("final") or t            # (a history: TLC's record shows the LAST instant)
        if deflate(got["cert"], t.get("fillers") or ()) != want["cert"] or got["rot"] != want["rot"] \
                or t["unspecified"]:
            gc = deflate(got["cert"], t.get("fillers") or ())
            diff = {n: (gc.get(n), want["cert"].get(n)) for n in set(gc) | set(want["cert"])
                    if gc.get(n) != want["cert"].get(n)}
            raise core.MachineryError("concretisation does not realise the abstract certificate: "
                                      "%s ; rot %s vs %s" % (json.dumps(diff, sort_keys=True)[:900],
                                                             got["rot"], want["rot"]))
        obs = t.get("history_outcomes") or ["valid" if t["valid"] else ("invalid" if t["loaded"]
                                                                        else "loaderror")]
        if obs != list(b["outs"])[:len(obs)]:
            model_drift += 1
    res.coverage["behaviours_replayed"] = len(chosen)
    res.coverage["concrete_certificates_from_model"] = len(traces)
    res.coverage["byte_flip_realisations"] = sum(1 for t in traces if t["applied"])
    all_traces = list(traces)
    # 4. byte sweep of one representative chain ---------------------------------------------------------
    sweep_rng = random.Random("C07:sweep:%d" % ctx.seed)
    global SWEEP_BASE
    SWEEP_BASE = certv2.build(dict(certv2.default_spec(3), vary_content=True), sweep_rng)
    base_cert = SWEEP_BASE[0]
    stride = ctx.pick(6, 1)
    off = sweep_rng.randrange(stride)
    sweep_tasks = []
    skipped = 0
    for e in base_cert["elements"]:
        for f in certv2.fields_of(e):
            data = certv2.field_bytes(base_cert, e["name"], f)
            regs = certv2.regions_for(base_cert, e["name"], f, data)
            for pos in range(len(data)):
                if "encoding" in certv2.flip_effect(e["type"], f, certv2.region_of(regs, pos)):
                    skipped += 1
                    continue
                if (pos + off) % stride:
                    continue
                masks = [sweep_rng.choice((0x01, 0x80, sweep_rng.randrange(1, 256)))]
                if not ctx.quick:
                    masks.append(masks[0] ^ (1 << sweep_rng.randrange(8)) or 0xFF)
                for mask in masks:
                    tid += 1
                    sweep_tasks.append((tid, ctx.seed, {"base": True,
                                                        "flips": [{"el": e["name"], "field": f,
                                                                   "pos": pos, "mask": mask}]},
                                        {"src": "sweep", "el": e["name"], "field": f, "pos": pos},
                                        ctx.scratch))
    _t0 = time.time()
    sweep = run_tasks(sweep_tasks)
    res.coverage.setdefault("phase_wall_s", {})["byte_sweep"] = round(time.time() - _t0, 1)
    res.coverage["sweep_flips"] = len(sweep_tasks)
    res.coverage["sweep_positions"] = len({(t[3]["el"], t[3]["field"], t[3]["pos"]) for t in sweep_tasks})
    res.coverage["sweep_stride"] = stride
    res.coverage["encoding_level_positions_skipped"] = skipped
    all_traces += sweep
    # 5. random specs over the concrete domains (binding B) ------------------------------------------------
    n_rand = ctx.pick(600, 12000)
    rnd_tasks = []
    while len(rnd_tasks) < n_rand:
        plan = random_plan(ctx.rng)
        if rsa_issues_x509(plan):
            continue
        tid += 1
        rnd_tasks.append((tid, ctx.seed, plan, {"src": "random"}, ctx.scratch))
    _t0 = time.time()
    rnd = run_tasks(rnd_tasks)
    res.coverage.setdefault("phase_wall_s", {})["random"] = round(time.time() - _t0, 1)
    res.coverage["random_certificates"] = len(rnd)
    res.coverage["random_unspecified_skipped"] = sum(1 for t in rnd if t["unspecified"])
    all_traces += rnd
    # 5a. scale: chains of 254 .. 520 X.509 elements ---------------------------------------------------
    sc_tasks = []
    for plan, meta in scale_profiles(ctx.rng, ctx.quick):
        tid += 1
        sc_tasks.append((tid, ctx.seed, plan, meta, ctx.scratch))
    _t0 = time.time()
    sc = run_tasks(sc_tasks)
    res.coverage.setdefault("phase_wall_s", {})["long_chains"] = round(time.time() - _t0, 1)
    res.coverage["long_chain_profiles"] = len(sc_tasks)
    all_traces += sc
    # 5a'. an X.509 element certified by an element of ANOTHER KIND (forged branch under a genuine attestation
    # key / quote, forged quote as target), and a root of trust of another kind ---------------------------
    kind_tasks = []
    for depth in (1, 2, 3):
        for under in ("attkey", "quote"):
            for gsig in ("self", "certifier", "other") if under == "attkey" else ("self", "other"):
                sp = certv2.default_spec(depth)
                sp.update(vary_content=True, shuffle=ctx.rng.random() < 0.5, graft={"under": under, "sig": gsig})
                tid += 1
                kind_tasks.append((tid, ctx.seed, {"spec": sp, "flips": []},
                                   {"src": "other-kind", "case": "x509-under-%s,%s" % (under, gsig)}, ctx.scratch))
        for extra in ({}, {"graft": {"under": "attkey", "sig": "self"}}):
            sp = certv2.default_spec(depth)
            sp.update(vary_content=True, rot="v1root", **extra)
            tid += 1
            kind_tasks.append((tid, ctx.seed, {"spec": sp, "flips": []},
                               {"src": "other-kind", "case": "root-of-trust-is-v1-root"}, ctx.scratch))
    kt = run_tasks(kind_tasks)
    res.coverage["other_kind_certifier_profiles"] = len(kind_tasks)
    all_traces += kt
    # 5b. numeric boundaries of every decoded integer of the quote (genuine certificates) ---------------
    prof_tasks = []
    for lay, where in ((certv2.QUOTE_HEADER, "header"), (certv2.REPORT_BODY, "body")):
        for (n, size, kind) in lay.fields:
            if kind != "uint":
                continue
            for v in certv2.uint_boundaries(size):
                sp = certv2.default_spec(ctx.rng.choice((1, 2, 3)))
                sp["vary_content"] = True
                sp["quote"][where] = {n: v}
                tid += 1
                prof_tasks.append((tid, ctx.seed, {"spec": sp, "flips": []},
                                   {"src": "int-boundary", "field": n, "value": hex(v)}, ctx.scratch))
    _t0 = time.time()
    prof = run_tasks(prof_tasks)
    res.coverage.setdefault("phase_wall_s", {})["int_boundaries"] = round(time.time() - _t0, 1)
    res.coverage["integer_boundary_profiles"] = len(prof)
    all_traces += prof
    # 6. TLC judges every observation ---------------------------------------------------------------
    _t0 = time.time()
    accepted, drift = judge(res, all_traces, "all")
    res.coverage.setdefault("phase_wall_s", {})["tlc_trace_validation"] = round(time.time() - _t0, 1)
    res.coverage["harness_errors"] = len(HARNESS_ERRORS)
    if HARNESS_ERRORS and not res.violations:
        raise core.MachineryError("%d task(s) failed inside the harness, first: %s" % (
            len(HARNESS_ERRORS), HARNESS_ERRORS[0]["harness_error"]))
    res.coverage["selftest_corrupted_observations_rejected"] = selftest_trace_spec(
        all_traces, tid + 1, bool(res.violations))
    res.coverage["model_drift"] = model_drift + drift
    res.coverage["observed_outcomes"] = {
        "valid": sum(1 for t in all_traces if t["valid"]),
        "invalid": sum(1 for t in all_traces if t["loaded"] and not t["valid"]),
        "loaderror": sum(1 for t in all_traces if not t["loaded"])}
    res.coverage["valid_values_compared_bytewise_in_TLC"] = res.coverage["observed_outcomes"]["valid"]
    res.coverage["unexpected_exceptions"] = sorted({t["exc"] for t in all_traces
                                                    if t["exc"] and t["exc"].startswith("validate")})[:5]
    res.coverage["validations_after_clock_moved"] = sum(1 for t in all_traces if t["meta"].get("round", 1) > 1)
    res.coverage["certificates_with_256_or_more_x509"] = sum(
        1 for t in all_traces if sum(1 for e in t["cert"].values() if e["kind"] == "x509") >= 256)
    res.coverage["runs_with_machine_utc_offset"] = sum(1 for t in all_traces if t["meta"].get("tz", "utc") != "utc")
    res.coverage["frozen_clock_boundary_runs"] = sum(1 for t in all_traces if t["meta"].get("frozen_clock"))
    res.coverage["noncanonical_naming_certificates"] = sum(
        1 for t in all_traces if any(e.get("naming", "canon") not in ("canon", "na") for e in t["cert"].values()))
    res.coverage["distinct_abstract_classes_hit"] = len({"+".join(defects_of(t)) for t in all_traces})
    for t in (traces[:1] + [t for t in traces if t["valid"]][:1] + [t for t in traces if t["applied"]][:1]
              + sweep[:1] + rnd[:2]):
        res.sample({"defects": defects_of(t), "rot": t["rot"]["key"], "flips": t["applied"],
                    "observed": "valid" if t["valid"] else ("invalid:" + t["failing"] if t["loaded"]
                                                            else "loaderror"),
                    "source": t["meta"]["src"], "elements": sorted(t["cert"])})
    return res


def replay(ctx, path):
    os.environ.setdefault("JAVA_TOOL_OPTIONS", "-Xss512m")
    with open(path) as f:
        data = json.load(f)
    rp = data["replay"]
    ab = rp["abstract"]
    cc = rp["concrete"]
    if cc.get("history"):
        obs = observe_history(cc["certificate"], cc["root_pem"], ab["target"], ctx.scratch, "replay",
                              cc["history"], alt_root_pem=cc.get("alt_root_pem"),
                              requery=cc.get("requery") or (), tz=cc.get("tz"))[-1]
    else:
        obs = observe(cc["certificate"], cc["root_pem"], ab["target"], ctx.scratch, "replay",
                      clock=cc.get("clock"), tz=cc.get("tz"))
    t = {"id": 1, "cert": ab["cert"], "rot": ab["rot"], "target": ab["target"], "loaded": obs["loaded"],
         "valid": obs["valid"], "failing": obs["failing"], "reported": obs["reported"],
         "signed": rp["signed"] if obs["valid"] else EMPTY_VALUES}
    if obs["valid"] and rp["signed"] == EMPTY_VALUES:
        # the recorded run was not valid, so no signed values were kept: rebuild them from the quote
        # element's own bytes is NOT an oracle; report the verdict on validity only
        t["signed"] = t["reported"]
    verdicts, _ = tlc.validate("TraceCertV2", "Trace_CertV2.cfg", [t])
    print(json.dumps({"defects": defects_of(ab), "root": ab["rot"]["key"], "applied_flips": rp["applied_flips"],
                      "observed": {k: obs[k] for k in ("loaded", "valid", "failing", "exc")},
                      "verdict": verdicts[1]}, indent=1))
    return 0 if verdicts[1]["ok"] else 1
