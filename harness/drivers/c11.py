"""C11 — link failures get a device-error reply and are repaired on the next request.
TLC: Link (exhaustive) ; GenLink plans (command x exchange index x kind x connect failures x follow-up)
replayed on the real manager ; TraceLink judges the recorded transport logs."""
import json
import random

from .. import core, mgr, reqs, tlc
from ..simdev import SimDevice, MODE_SIGNER, FaithfulSignPolicy

STEPS = {"version": 0, "getPubKey": 1, "sign_hash": 1, "sign_v1": 1, "sign_legacy": 16,
         "sign_segwit": 8, "advanceBlockchain": 17, "updateAncestorBlock": 13,
         "resetAdvanceBlockchain": 1, "blockchainState": 9, "blockchainParameters": 1,
         "signerHeartbeat": 5, "uiHeartbeat": 10}


def request_for(cmd, version):
    rng = random.Random("link:" + cmd)
    return reqs.make(cmd, rng, 5 if version == 2 else 1)[0]


NO_HEARTBEAT = {"signerHeartbeat", "uiHeartbeat"}       # the SGX / TCPSigner simulators have no heartbeat apps


def platform_for(plan, k):
    """A share of the plans runs on the TCP-transport dongle classes (HSM2DongleSGX / HSM2DongleTCP override
    connect and disconnect): every third plan whose commands exist there."""
    if plan["cmd"] in NO_HEARTBEAT or plan["follow"] in NO_HEARTBEAT:
        return "ledger"
    return {1: "sgx", 2: "tcp"}.get(k % 6, "ledger")


class _MemPin:
    """A PIN object as the bring-up uses it (no change due)."""

    def __init__(self, pin):
        self._pin = pin

    def get_pin(self):
        return self._pin

    def needs_change(self):
        return False


def boot_reference(version):
    """The bring-up of a manager that finds the device locked in its bootloader, as a sequence of tokens: APDUs and
    the closing / re-opening of the link that is part of it (the app is launched, the device re-enumerates)."""
    from ..simdev import MODE_BOOT
    d = SimDevice(platform="ledger", mode=MODE_BOOT)
    d.exit_modes = [MODE_SIGNER]
    world, proto = mgr.serving_manager(device=d, version=version, platform="ledger", pin=_MemPin(d.pin))
    toks = []
    for e in world.log:
        if e["ev"] == "apdu":
            toks.append(bytes(e["apdu"]))
        elif e["ev"] in ("close", "open"):
            toks.append(e["ev"])
    return toks[1:] if toks and toks[0] == "open" else toks     # (the first opening is the repair's own)


def run_plan(plan, version, fault_kind_impl=None, platform="ledger", boot=False, boot_seq=None, bt_pos=None):
    """One history on a fresh serving manager: faulted command, then follow-ups. boot: the device is power-cycled
    at the fault and waits locked in its bootloader, so the repair goes through unlock and app launch."""
    if boot:
        dev = SimDevice(platform="ledger", mode=MODE_SIGNER)
        world, proto = mgr.serving_manager(device=dev, version=version, platform=platform, pin=_MemPin(dev.pin))
    else:
        world, proto = mgr.serving_manager(version=version, platform=platform)
    signer_seq = [e["apdu"] for e in world.log if e["ev"] == "apdu"]
    refs = {"seq": signer_seq}
    init_seq = signer_seq
    ninit = len(boot_seq) if boot else len(signer_seq)
    events = []
    state = {"ptr": 0, "cmd_seen": False}

    def on_event(ev):
        from ..simdev import MODE_BOOT
        init_seq = refs["seq"]
        ninit = len(init_seq)
        p = state["ptr"]
        if boot and ev["ev"] in ("close", "open") and not state["cmd_seen"] and 0 < p < ninit \
                and init_seq[p] == ev["ev"] and ev.get("ok", True):
            # the re-opening that is part of the bootloader bring-up: one of its steps, not a new repair
            events.append({"k": "apdu", "init": p + 1, "fault": "none", "n": ninit})
            state["ptr"] = p + 1
            return
        if ev["ev"] == "close":
            events.append({"k": "close"})
            state["ptr"], state["cmd_seen"] = 0, False
        elif ev["ev"] == "open":
            events.append({"k": "open", "ok": "t" if ev["ok"] else "f"})
            state["ptr"], state["cmd_seen"] = 0, False
            # which bring-up this opening starts depends on where it finds the device
            refs["seq"] = list(boot_seq) if (boot and world.device.mode == MODE_BOOT) else signer_seq
        elif ev["ev"] == "apdu":
            init_seq = refs["seq"]
            ninit = len(init_seq)
            init = 0
            p = state["ptr"]
            if not state["cmd_seen"] and p < ninit and ev["apdu"] == init_seq[p] \
                    and state.get("since_open", True):
                init = p + 1
                if "fault" not in ev or (boot and ev.get("fault") == "drop"):
                    state["ptr"] = p + 1
            else:
                state["cmd_seen"] = True
            f = ev.get("fault", "none")
            if boot and init and f == "drop":
                f = "none"      # leaving the bootloader menu: the device's answer is to drop off the bus
            events.append({"k": "apdu", "init": init, "fault": f, "n": ninit if init else 0})
    world.on_event = on_event
    bt = plan.get("btimeout", 0)
    nreq = 2 + plan["connfail"] + (1 if bt else 0)
    first_len = None
    for r in range(nreq):
        cmd = plan["cmd"] if r == 0 else plan["follow"]
        req = request_for(cmd, version)
        events.append({"k": "req", "cmd": cmd})
        # a request that does not start with a reconnection sends command APDUs straight away
        state["cmd_seen"] = True
        world.reset_counters()
        if r == 0 and plan["kind"] == "connfail":
            # the device drops off at this EXIT exchange as usual and is not back when the command re-opens the link
            armed = {"n": 0}

            def hook(w, apdu, idx, pos=plan["pos"] - 1):
                if idx == pos:
                    w.connect_failures = 1
                return None
            world.fault_hook = hook
        elif r == 0:
            world.faults = {plan["pos"] - 1: (plan["kind"],)}
        if r == 1:
            world.fault_hook = None
            world.connect_failures = plan["connfail"]
            if boot:
                from ..simdev import MODE_BOOT
                world.device.mode = MODE_BOOT          # power-cycled: locked, in the bootloader
                world.device.exit_modes = [MODE_SIGNER]
        if bt and r == 1 + plan["connfail"]:
            # the first reconnection that opens: its bt-th bring-up exchange times out
            if boot:
                # (bt_pos-th APDU of the long bring-up; the re-opening inside it is not an exchange)
                n_apdu_before = sum(1 for t in boot_seq[:bt_pos] if not isinstance(t, str))
                world.faults = {n_apdu_before: ("timeout",)}
            else:
                world.faults = {bt - 1: ("timeout",)}
        n0 = len(world.log)
        o = mgr.handle_line(proto, json.dumps(req).encode())
        if r == 0:
            first_len = len([e for e in world.log[n0:] if e["ev"] == "apdu"])
        rep = o.reply()
        code = rep.get("errorcode") if rep else None
        events.append({"k": "reply", "code": code if isinstance(code, int) and not isinstance(code, bool) else 0,
                       "hascode": isinstance(code, int) and not isinstance(code, bool),
                       "shutdown": bool(o.shutdown)})
        if o.shutdown:
            break
    full = []
    for e in events:
        d = {"k": e["k"], "ok": e.get("ok", "t"), "init": e.get("init", 0), "fault": e.get("fault", "none"),
             "n": e.get("n", 0),
             "code": e.get("code", 0), "hascode": e.get("hascode", True), "shutdown": e.get("shutdown", False)}
        full.append(d)
    return full, ninit, first_len


def run(ctx):
    res = core.Result()
    res.assumptions = [
        "transport failure objects are the ones ledgerblue's HID transport raises (BaseException('Error "
        "while writing'), OSError('read error'), CommException('Timeout'))",
        "reference bring-up sequence = the APDUs observed at manager start against the same device",
        "link errors are not injected at the two EXIT exchanges of uiHeartbeat (the device's normal answer "
        "there is to drop the link, which the code treats as success); time-outs are",
        "one injected fault per history; reconnection fails 0..2 times then succeeds; optionally one time-out at "
        "exchange 2..4 of the repeated bring-up (not a link error: the repair stays owed)",
    ]
    traces, info = [], {}
    drift = 0
    for version, cfgs in ((2, ("MC_Link.cfg", "Gen_Link.cfg")), (1, ("MC_LinkV1.cfg", "Gen_LinkV1.cfg"))):
        r = tlc.check("Link", cfgs[0], coverage=True, workers=8)
        if r.violated:
            raise core.MachineryError("Link model violates %s" % r.violated)
        res.add_tlc(r, "%s exhaustive" % cfgs[0])
        never = [a for a, c in r.action_counts().items() if c == 0
                 and not (version == 1 and a.startswith("Exit"))]      # protocol v1 has no uiHeartbeat
        if never:
            raise core.MachineryError("vacuity: Link actions never taken: %s" % never)
        plans, rg = tlc.generate("GenLink", cfgs[1])
        res.add_tlc(rg, cfgs[1])
        res.coverage["plans_generated_v%d" % (5 if version == 2 else 1)] = len(plans)
        order = list(range(len(plans)))
        ctx.rng.shuffle(order)
        if version == 2:
            order = order[:ctx.pick(1400, len(order))]
        boot_seq = boot_reference(version)
        # (not at the exchange that leaves the bootloader menu: no answer is what the device normally gives there,
        # and the code goes on by design)
        # (nor at the first onboarding query or the retries query: the unchanged code stops the manager when it cannot
        # learn those - by design, see C09)
        apdu_idx = [i for i, t in enumerate(boot_seq) if i > 0 and not isinstance(t, str)
                    and not (len(t) > 1 and t[1] in (0xFF, 0x45))]
        n_boot = 0
        for k, pi in enumerate(order):
            plan = plans[pi]
            plat = platform_for(plan, k)
            ev, ninit, first_len = run_plan(plan, version, platform=plat)
            if first_len is not None and plan["pos"] > STEPS[plan["cmd"]]:
                drift += 1
            tid = len(traces) + 1
            traces.append({"id": tid, "ninit": ninit, "deverr_abs": 905 if version == 2 else 2, "ev": ev})
            info[tid] = {"plan": plan, "version": version, "platform": plat}
            # the same plan with the device power-cycled at the fault: it waits locked in the bootloader, the repair
            # goes through unlock, app launch and a second opening; a time-out may hit any exchange of that long
            # bring-up (early / in the PIN transfer / after the app was launched, by the abstract position)
            if plat == "ledger" and plan["kind"] in ("write", "read") and plan["cmd"] != "uiHeartbeat" \
                    and plan["follow"] != "uiHeartbeat" and (k % 3 == 0 or plan.get("btimeout", 0)):
                bt = plan.get("btimeout", 0)
                third = max(1, len(apdu_idx) // 3)
                band = {2: apdu_idx[:third], 3: apdu_idx[third:2 * third], 4: apdu_idx[2 * third:]}.get(bt, apdu_idx)
                bt_pos = ctx.rng.choice(band) if bt else None
                ev, ninit, _ = run_plan(plan, version, platform="ledger", boot=True, boot_seq=boot_seq, bt_pos=bt_pos)
                tid = len(traces) + 1
                traces.append({"id": tid, "ninit": ninit, "deverr_abs": 905 if version == 2 else 2, "ev": ev})
                info[tid] = {"plan": dict(plan, boot=True, bt_pos=bt_pos), "version": version, "platform": "ledger"}
                n_boot += 1
        res.coverage["repairs_through_the_bootloader_v%d" % (5 if version == 2 else 1)] = n_boot
    for n in ("NegOwed", "NegRepairs"):
        rn = tlc.run("Link", n + "_Link.cfg", workers=4)
        if not rn.violated:
            raise core.MachineryError("vacuity guard %s did not fire" % n)
    res.coverage["behaviours_replayed"] = len(traces)
    res.coverage["behaviours_by_platform"] = {k: sum(1 for x in info.values() if x.get("platform") == k)
                                              for k in ("ledger", "sgx", "tcp")}
    verdicts, stats = tlc.validate("TraceLink", "Trace_Link.cfg", traces)
    res.checker_cmds.append("tlc -workers 1 -config Trace_Link.cfg TraceLink (x%d shards)" % stats["jvms"])
    accepted = 0
    owed_seen = repaired_seen = 0
    for t in traces:
        v = verdicts[t["id"]]
        inf = info[t["id"]]
        p = inf["plan"]
        if any(e["k"] == "apdu" and e["fault"] in ("write", "read") for e in t["ev"]):
            owed_seen += 1
        if any(e["k"] == "apdu" and e["init"] == t["ninit"] for e in t["ev"]):
            repaired_seen += 1
        if v["ok"]:
            accepted += 1
            continue
        sig = "%s|v%d cmd=%s pos=%d kind=%s connfail=%d follow=%s%s" % (
            v["clause"], 5 if inf["version"] == 2 else 1, p["cmd"], p["pos"], p["kind"], p["connfail"],
            p["follow"] if v["at"] > 3 else "*", (" bringup-timeout@%d" % p["btimeout"]) if p.get("btimeout") else "") + \
            (" repair-through-bootloader" if p.get("boot") else "") + \
            ((" plat=%s" % inf["platform"]) if inf.get("platform", "ledger") != "ledger" else "")
        res.violation(sig, "link-failure handling violates %s at event %s: %s" % (
            v["clause"], v["at"], json.dumps(p, sort_keys=True)),
            {"plan": p, "version": inf["version"], "platform": inf.get("platform", "ledger"), "events": t["ev"], "verdict": v})
    res.add_validation(stats, accepted)
    from .. import manager_phase
    manager_phase.run_phase(ctx, res, "C11")
    res.coverage["histories_with_link_error"] = owed_seen
    res.coverage["histories_with_completed_repair"] = repaired_seen
    res.coverage["model_drift"] = drift
    if owed_seen == 0 or repaired_seen == 0:
        raise core.MachineryError("vacuity: no recorded history contains a link error / a repair")
    for t in traces[:2] + traces[-1:]:
        res.sample({"plan": info[t["id"]]["plan"],
                    "events": [(e["k"], e["init"], e["fault"], e["code"]) for e in t["ev"]]})
    return res


def replay(ctx, path):
    with open(path) as f:
        d = json.load(f)["replay"]
    ev, ninit, _ = run_plan(d["plan"], d["version"], platform=d.get("platform", "ledger"))
    t = {"id": 1, "ninit": ninit, "deverr_abs": 905 if d["version"] == 2 else 2, "ev": ev}
    verdicts, _ = tlc.validate("TraceLink", "Trace_Link.cfg", [t])
    print(json.dumps({"plan": d["plan"], "events": ev, "verdict": verdicts[1]}, indent=1))
    return 0 if verdicts[1]["ok"] else 1
