"""C11 — link failures get a device-error reply and are repaired on the next request.
TLC: Link (exhaustive) ; GenLink plans (command x exchange index x kind x connect failures x follow-up)
replayed on the real manager ; TraceLink judges the recorded transport logs."""
import json
import random

from .. import core, mgr, reqs, tlc
from ..simdev import SimDevice, MODE_SIGNER, FaithfulSignPolicy

STEPS = {"version": 0, "getPubKey": 1, "sign_hash": 1, "sign_v1": 1, "sign_legacy": 16,
         "sign_segwit": 8, "advanceBlockchain": 17, "updateAncestorBlock": 13,
         "resetAdvanceBlockchain": 1, "blockchainState": 9, "blockchainParameters": 1,
         "signerHeartbeat": 5, "uiHeartbeat": 10}


def request_for(cmd, version):
    rng = random.Random("link:" + cmd)
    return reqs.make(cmd, rng, 5 if version == 2 else 1)[0]


NO_HEARTBEAT = {"signerHeartbeat", "uiHeartbeat"}       # the SGX / TCPSigner simulators have no heartbeat apps


def platform_for(plan, k):
    """A share of the plans runs on the TCP-transport dongle classes (HSM2DongleSGX / HSM2DongleTCP override
    connect and disconnect): every third plan whose commands exist there."""
    if plan["cmd"] in NO_HEARTBEAT or plan["follow"] in NO_HEARTBEAT:
        return "ledger"
    return {1: "sgx", 2: "tcp"}.get(k % 6, "ledger")


def run_plan(plan, version, fault_kind_impl=None, platform="ledger"):
    """One history on a fresh serving manager: faulted command, then follow-ups."""
    world, proto = mgr.serving_manager(version=version, platform=platform)
    init_seq = [e["apdu"] for e in world.log if e["ev"] == "apdu"]
    ninit = len(init_seq)
    events = []
    state = {"ptr": 0, "cmd_seen": False}

    def on_event(ev):
        if ev["ev"] == "close":
            events.append({"k": "close"})
            state["ptr"], state["cmd_seen"] = 0, False
        elif ev["ev"] == "open":
            events.append({"k": "open", "ok": "t" if ev["ok"] else "f"})
            state["ptr"], state["cmd_seen"] = 0, False
        elif ev["ev"] == "apdu":
            init = 0
            p = state["ptr"]
            if not state["cmd_seen"] and p < ninit and ev["apdu"] == init_seq[p] \
                    and state.get("since_open", True):
                init = p + 1
                if "fault" not in ev:
                    state["ptr"] = p + 1
            else:
                state["cmd_seen"] = True
            f = ev.get("fault", "none")
            events.append({"k": "apdu", "init": init, "fault": f})
    world.on_event = on_event
    bt = plan.get("btimeout", 0)
    nreq = 2 + plan["connfail"] + (1 if bt else 0)
    first_len = None
    for r in range(nreq):
        cmd = plan["cmd"] if r == 0 else plan["follow"]
        req = request_for(cmd, version)
        events.append({"k": "req", "cmd": cmd})
        # a request that does not start with a reconnection sends command APDUs straight away
        state["cmd_seen"] = True
        world.reset_counters()
        if r == 0 and plan["kind"] == "connfail":
            # the device drops off at this EXIT exchange as usual and is not back when the command re-opens the link
            armed = {"n": 0}

            def hook(w, apdu, idx, pos=plan["pos"] - 1):
                if idx == pos:
                    w.connect_failures = 1
                return None
            world.fault_hook = hook
        elif r == 0:
            world.faults = {plan["pos"] - 1: (plan["kind"],)}
        if r == 1:
            world.fault_hook = None
            world.connect_failures = plan["connfail"]
        if bt and r == 1 + plan["connfail"]:
            # the first reconnection that opens: its bt-th bring-up exchange times out
            world.faults = {bt - 1: ("timeout",)}
        n0 = len(world.log)
        o = mgr.handle_line(proto, json.dumps(req).encode())
        if r == 0:
            first_len = len([e for e in world.log[n0:] if e["ev"] == "apdu"])
        rep = o.reply()
        code = rep.get("errorcode") if rep else None
        events.append({"k": "reply", "code": code if isinstance(code, int) and not isinstance(code, bool) else 0,
                       "hascode": isinstance(code, int) and not isinstance(code, bool),
                       "shutdown": bool(o.shutdown)})
        if o.shutdown:
            break
    full = []
    for e in events:
        d = {"k": e["k"], "ok": e.get("ok", "t"), "init": e.get("init", 0), "fault": e.get("fault", "none"),
             "code": e.get("code", 0), "hascode": e.get("hascode", True), "shutdown": e.get("shutdown", False)}
        full.append(d)
    return full, ninit, first_len


def run(ctx):
    res = core.Result()
    res.assumptions = [
        "transport failure objects are the ones ledgerblue's HID transport raises (BaseException('Error "
        "while writing'), OSError('read error'), CommException('Timeout'))",
        "reference bring-up sequence = the APDUs observed at manager start against the same device",
        "link errors are not injected at the two EXIT exchanges of uiHeartbeat (the device's normal answer "
        "there is to drop the link, which the code treats as success); time-outs are",
        "one injected fault per history; reconnection fails 0..2 times then succeeds; optionally one time-out at "
        "exchange 2..4 of the repeated bring-up (not a link error: the repair stays owed)",
    ]
    traces, info = [], {}
    drift = 0
    for version, cfgs in ((2, ("MC_Link.cfg", "Gen_Link.cfg")), (1, ("MC_LinkV1.cfg", "Gen_LinkV1.cfg"))):
        r = tlc.check("Link", cfgs[0], coverage=True, workers=8)
        if r.violated:
            raise core.MachineryError("Link model violates %s" % r.violated)
        res.add_tlc(r, "%s exhaustive" % cfgs[0])
        never = [a for a, c in r.action_counts().items() if c == 0
                 and not (version == 1 and a.startswith("Exit"))]      # protocol v1 has no uiHeartbeat
        if never:
            raise core.MachineryError("vacuity: Link actions never taken: %s" % never)
        plans, rg = tlc.generate("GenLink", cfgs[1])
        res.add_tlc(rg, cfgs[1])
        res.coverage["plans_generated_v%d" % (5 if version == 2 else 1)] = len(plans)
        order = list(range(len(plans)))
        ctx.rng.shuffle(order)
        if version == 2:
            order = order[:ctx.pick(1400, len(order))]
        for k, pi in enumerate(order):
            plan = plans[pi]
            plat = platform_for(plan, k)
            ev, ninit, first_len = run_plan(plan, version, platform=plat)
            if first_len is not None and plan["pos"] > STEPS[plan["cmd"]]:
                drift += 1
            tid = len(traces) + 1
            traces.append({"id": tid, "ninit": ninit, "deverr_abs": 905 if version == 2 else 2, "ev": ev})
            info[tid] = {"plan": plan, "version": version, "platform": plat}
    for n in ("NegOwed", "NegRepairs"):
        rn = tlc.run("Link", n + "_Link.cfg", workers=4)
        if not rn.violated:
            raise core.MachineryError("vacuity guard %s did not fire" % n)
    res.coverage["behaviours_replayed"] = len(traces)
    res.coverage["behaviours_by_platform"] = {k: sum(1 for x in info.values() if x.get("platform") == k)
                                              for k in ("ledger", "sgx", "tcp")}
    verdicts, stats = tlc.validate("TraceLink", "Trace_Link.cfg", traces)
    res.checker_cmds.append("tlc -workers 1 -config Trace_Link.cfg TraceLink (x%d shards)" % stats["jvms"])
    accepted = 0
    owed_seen = repaired_seen = 0
    for t in traces:
        v = verdicts[t["id"]]
        inf = info[t["id"]]
        p = inf["plan"]
        if any(e["k"] == "apdu" and e["fault"] in ("write", "read") for e in t["ev"]):
            owed_seen += 1
        if any(e["k"] == "apdu" and e["init"] == t["ninit"] for e in t["ev"]):
            repaired_seen += 1
        if v["ok"]:
            accepted += 1
            continue
        sig = "%s|v%d cmd=%s pos=%d kind=%s connfail=%d follow=%s%s" % (
            v["clause"], 5 if inf["version"] == 2 else 1, p["cmd"], p["pos"], p["kind"], p["connfail"],
            p["follow"] if v["at"] > 3 else "*", (" bringup-timeout@%d" % p["btimeout"]) if p.get("btimeout") else "") + \
            ((" plat=%s" % inf["platform"]) if inf.get("platform", "ledger") != "ledger" else "")
        res.violation(sig, "link-failure handling violates %s at event %s: %s" % (
            v["clause"], v["at"], json.dumps(p, sort_keys=True)),
            {"plan": p, "version": inf["version"], "platform": inf.get("platform", "ledger"), "events": t["ev"], "verdict": v})
    res.add_validation(stats, accepted)
    from .. import manager_phase
    manager_phase.run_phase(ctx, res, "C11")
    res.coverage["histories_with_link_error"] = owed_seen
    res.coverage["histories_with_completed_repair"] = repaired_seen
    res.coverage["model_drift"] = drift
    if owed_seen == 0 or repaired_seen == 0:
        raise core.MachineryError("vacuity: no recorded history contains a link error / a repair")
    for t in traces[:2] + traces[-1:]:
        res.sample({"plan": info[t["id"]]["plan"],
                    "events": [(e["k"], e["init"], e["fault"], e["code"]) for e in t["ev"]]})
    return res


def replay(ctx, path):
    with open(path) as f:
        d = json.load(f)["replay"]
    ev, ninit, _ = run_plan(d["plan"], d["version"], platform=d.get("platform", "ledger"))
    t = {"id": 1, "ninit": ninit, "deverr_abs": 905 if d["version"] == 2 else 2, "ev": ev}
    verdicts, _ = tlc.validate("TraceLink", "Trace_Link.cfg", [t])
    print(json.dumps({"plan": d["plan"], "events": ev, "verdict": verdicts[1]}, indent=1))
    return 0 if verdicts[1]["ok"] else 1
