"""C03 — no client request can take the manager down or go unanswered.
TLC: Serve (exhaustive, with liveness) ; GenServe histories of request-line classes replayed over real TCP
against a live manager (real TCPServer.run, real bring-up, faithful device) ; TraceServe judges what the
client saw. Random byte strings / JSON go through the same validation."""
import json
import os
import random
import socket
import threading

from .. import core, env, lines, mgr, tlc
from ..simdev import SimDevice, MODE_SIGNER
from ..transport import World, install


from ..live import LiveManager  # noqa: E402


def write_cfg(path, classes, maxconns, poison, invs, props=(), spec="Spec", view=True):
    with open(path, "w") as f:
        f.write("SPECIFICATION %s\nCONSTANTS\n  Classes = {%s}\n  MaxConns = %d\n  WithPoison = %s\n" % (
            spec, ", ".join('"%s"' % c for c in classes), maxconns, "TRUE" if poison else "FALSE"))
        for i in invs:
            f.write("INVARIANT %s\n" % i)
        for p in props:
            f.write("PROPERTY %s\n" % p)
        if view:
            f.write("VIEW View\n")
        f.write("CHECK_DEADLOCK FALSE\n")


def random_line(rng, never=()):
    """Binding B: arbitrary bytes, near-JSON, mutated valid requests."""
    r = rng.random()
    if r < 0.25:
        return bytes(rng.getrandbits(8) for _ in range(rng.randint(0, 200))).replace(b"\n", b" ")
    names = sorted(set(lines.CLASSES) - set(never))
    base = lines.CLASSES[rng.choice(names)](rng)
    if r < 0.5 or len(base) > 20000:
        return base
    b = bytearray(base)
    for _ in range(rng.randint(1, 3)):
        op = rng.random()
        if not b:
            break
        i = rng.randrange(len(b))
        if op < 0.4:
            b[i] = rng.choice(b'{}[]",:0123456789-eE.tfn\\ ')
        elif op < 0.7:
            del b[i:i + rng.randint(1, 6)]
        else:
            b[i:i] = rng.choice([b'"', b"[", b"{", b"-", b"1e999", b"\\u0000", b"null", b"9" * 50])
    return bytes(b).replace(b"\n", b" ")


def run(ctx):
    res = core.Result()
    res.assumptions = [
        "the device keeps to its protocol (faithful simulator, DESIGN.md App. E); only the client misbehaves",
        "real socketserver.TCPServer on an ephemeral loopback port, real bring-up, one connection at a time",
        "'shutdown requested' is observed inside the manager process (the handler's shutdown() call)",
        "logging is disabled in the harness (log formatting is not part of the observed behaviour)",
    ]
    v5 = sorted(lines.CLASSES)
    v1 = sorted(lines.V1_CLASSES)
    # 1. design check incl. liveness, and the negative configuration
    mc = os.path.join(ctx.scratch, "MC_Serve.cfg")
    write_cfg(mc, v5, 3, False, ["NoViolation", "NeverDown"], ["Progress"], spec="FairSpec")
    r = tlc.check("Serve", mc, workers=4, coverage=True)
    if r.violated:
        raise core.MachineryError("Serve model violates %s" % r.violated)
    res.add_tlc(r, "MC_Serve: %d classes, histories of 3 connections, safety + liveness" % len(v5))
    neg = os.path.join(ctx.scratch, "Neg_Serve.cfg")
    write_cfg(neg, v5[:5], 2, True, ["NoViolation"])
    rn = tlc.run("Serve", neg, workers=2)
    if "NoViolation" not in rn.violated:
        raise core.MachineryError("vacuity guard: a raising handler does not violate the Serve invariants")
    # 2. histories from TLC
    gen = os.path.join(ctx.scratch, "Gen_Serve.cfg")
    write_cfg(gen, v5, 2, False, ["NoViolation", "EmitB"], view=False)
    hists, rg = tlc.generate("GenServe", gen)
    res.add_tlc(rg, "Gen_Serve: all histories of 2 connections")
    res.coverage["histories_generated"] = len(hists)
    singles = [[c] for c in v5]
    ctx.rng.shuffle(hists)
    # the same header strings through both block commands, in every order (on one manager)
    reuse = [[a, b] for a in lines.REUSE_CLASSES for b in lines.REUSE_CLASSES if a != b]
    chosen = singles + reuse + hists[:ctx.pick(500, 40000)]
    if not ctx.quick:
        for _ in range(20000):
            chosen.append([ctx.rng.choice(v5) for _ in range(3)])
    # whole manager processes first: a request class the manager never finishes with shows there within the
    # client's time-out and costs only that process; in this process it would stall everything (the in-process
    # manager below is a thread), so such classes - none on the unchanged tree - are left out of the histories
    _t = {"start": __import__("time").time()}
    from .. import manager_phase
    manager_phase.run_phase(ctx, res, "C03")
    _t["process_phase"] = __import__("time").time()
    never = set(res.coverage.get("line_classes_never_answered", []))
    if never:
        chosen = [h for h in chosen if not (set(h) & never)]
    traces, info = [], {}
    m = LiveManager(2)
    try:
        for hi, h in enumerate(chosen):
            evs, sent = [], []
            for ci, c in enumerate(h):
                line = lines.CLASSES[c](random.Random("c03:%s:%d" % (c, ctx.seed)))
                # how the bytes reach the manager is the client's choice too (one write, small pieces, no
                # terminator before the end of the stream, write side left open, a second line behind)
                ev, data = m.request(line, delivery=LiveManager.DELIVERIES[(hi + ci) % 5] if hi % 2 else "whole",
                                     timeout=40)
                ev["cls"] = c
                evs.append(ev)
                sent.append(c)
            tid = len(traces) + 1
            traces.append({"id": tid, "ev": evs})
            info[tid] = {"classes": h, "version": 5}
            if not m.alive():
                m.stop()
                m = LiveManager(2)
    finally:
        m.stop()
    _t["v5_histories"] = __import__("time").time()
    # v1 mode: all pairs
    m = LiveManager(1)
    try:
        v1h = [[a] for a in v1] + [[a, b] for a in v1 for b in v1]
        for h in v1h:
            evs = []
            for c in h:
                ev, data = m.request(lines.V1_CLASSES[c](random.Random("c03:%s:%d" % (c, ctx.seed))), timeout=40)
                ev["cls"] = c
                evs.append(ev)
            tid = len(traces) + 1
            traces.append({"id": tid, "ev": evs})
            info[tid] = {"classes": h, "version": 1}
            if not m.alive():
                m.stop()
                m = LiveManager(1)
    finally:
        m.stop()
    res.coverage["histories_replayed_over_tcp"] = len(traces)
    _t["v1_histories"] = __import__("time").time()
    # 3. random lines, in-process handler (bulk) judged the same way
    n_rand = ctx.pick(1500, 60000)
    world, proto = mgr.serving_manager(version=2)
    rand_lines = {}
    for i in range(n_rand):
        install(world)
        line = random_line(ctx.rng, never)
        world.device.mode = MODE_SIGNER
        o = mgr.handle_line(proto, line)
        rep = o.reply()
        c = rep.get("errorcode") if rep else None
        nl = o.raw.count(b"\n")
        ev = {"connected": True, "nlines": nl, "isobj": rep is not None,
              "hascode": isinstance(c, int) and not isinstance(c, bool), "shutdown": bool(o.shutdown),
              "cls": "random"}
        tid = len(traces) + 1
        traces.append({"id": tid, "ev": [ev]})
        info[tid] = {"classes": ["random"], "version": 5, "line": line[:400]}
        if o.shutdown:
            world, proto = mgr.serving_manager(version=2)
    res.coverage["random_lines"] = n_rand
    _t["random_lines"] = __import__("time").time()
    payload = [{"id": t["id"], "ev": [{k: e[k] for k in ("connected", "nlines", "isobj", "hascode", "shutdown")}
                                      for e in t["ev"]]} for t in traces]
    verdicts, stats = tlc.validate("TraceServe", "Trace_Serve.cfg", payload, shards=12)
    res.checker_cmds.append("tlc -workers 1 -config Trace_Serve.cfg TraceServe (x%d shards)" % stats["jvms"])
    accepted = 0
    for t in traces:
        v = verdicts[t["id"]]
        if v["ok"]:
            accepted += 1
            continue
        inf = info[t["id"]]
        k = max(0, v["at"] - 1)
        culprit = t["ev"][k]["cls"] if k < len(t["ev"]) else "?"
        if v["clause"] == "ManagerNotAccepting" and k > 0:
            culprit = t["ev"][k - 1]["cls"] + " (previous request)"
        sig = "%s|v%d line=%s" % (v["clause"], inf["version"], culprit)
        res.violation(sig, "%s after request line class %s (history %s)" % (v["clause"], culprit, inf["classes"]),
                      {"classes": inf["classes"], "version": inf["version"], "events": t["ev"],
                       "line": inf.get("line", b"")})
    res.add_validation(stats, accepted)
    _t["validation"] = __import__("time").time()
    _k = list(_t)
    res.coverage["phase_wall_s"] = {_k[i]: round(_t[_k[i]] - _t[_k[i - 1]], 1) for i in range(1, len(_k))}
    res.coverage["line_classes"] = len(v5) + len(v1)
    for t in traces[:2]:
        res.sample({"classes": info[t["id"]]["classes"], "events": t["ev"]})
    return res


def replay(ctx, path):
    with open(path) as f:
        d = json.load(f)["replay"]
    m = LiveManager(2 if d["version"] == 5 else 1)
    table = lines.CLASSES if d["version"] == 5 else lines.V1_CLASSES
    evs = []
    try:
        for c in d["classes"]:
            if c == "random":
                line = bytes.fromhex(d["line"]) if isinstance(d["line"], str) else b""
            else:
                line = table[c](random.Random("c03:%s:%d" % (c, ctx.seed)))
            ev, data = m.request(line)
            print(c, ev, data[:120])
            evs.append(ev)
    finally:
        m.stop()
    verdicts, _ = tlc.validate("TraceServe", "Trace_Serve.cfg", [{"id": 1, "ev": evs}])
    print(verdicts[1])
    return 0 if verdicts[1]["ok"] else 1
