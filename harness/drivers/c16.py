"""C16 — loading an attestation file always terminates with a usable verdict; save ; load keeps verdicts.
TLC: CertLoad (exhaustive, lazy environment; termination under WF) ; GenCertLoad (all behaviours) ->
concrete version-1 and version-2 JSON documents with real payloads -> the real loaders in a watchdog-ed
worker (2 s budget) -> TraceCertLoad judges every observation (termination, acyclicity of what was
loaded, a verdict for every target, round trip)."""
import json
import os

from .. import certload, core, tlc, wdpool

ACTIONS = ("CheckVer", "CheckTgt", "CheckEls", "Item1", "Item2", "WEnter", "WStep", "VEnter", "VBuild",
           "VCheck", "Save")


def dclass(doc):
    """Abstract class of a document (coverage, signatures)."""
    flds = sorted({it["fld"] for it in doc["items"] if it["fld"] != "ok"})
    names = [it["name"] for it in doc["items"]]
    shape = []
    if len(set(names)) < len(names):
        shape.append("dup")
    if any(it["by"] == it["name"] for it in doc["items"]):
        shape.append("self")
    byname = {it["name"]: it["by"] for it in doc["items"]}
    if any(byname.get(it["by"]) == it["name"] and it["by"] != it["name"] for it in doc["items"]):
        shape.append("mutual")
    if any(it["by"] == "ghost" or (it["by"] not in byname and it["by"] != "root") for it in doc["items"]):
        shape.append("dangling-signer")
    if any(t not in byname for t in doc["targets"]):
        shape.append("dangling-target")
    if any(n in ("missing", "bad", "nondict") for n in names):
        shape.append("badname")
    if "root" in names:
        shape.append("rootname")
    return "%s|ver=%s tgt=%s els=%s|%s|%s" % (doc["flavour"], doc["ver"], doc["tgtc"], doc["elsc"],
                                              "+".join(flds) or "plain", "+".join(shape) or "tree")


def _exc(text):
    return text.split("raised ")[1].split(":")[0] if "raised " in text else ""


def signature(clause, doc, t):
    """Stable abstract signature of a rejected observation: the clause, the flavour and the *cause* (element
    type / payload class of the culprit), never the graph or the seed."""
    fl = doc["flavour"]
    subs = t.get("sub", [])
    o1, o2 = t["o1"], t["o2"]
    if clause == "VerdictForEveryTarget" and o1["val"] == "raise":
        m = o1["err"]
        cause = "validate_and_get_values raises %s" % _exc(m)
        if "can't provide a value" in m:
            cause += " for a target of class %s whose chain verifies" % m.split(": ")[1].split(" ")[0]
        return "C16|%s|%s|%s" % (clause, fl, cause)
    if clause == "SavedCertificateCanBeWritten":
        exc = _exc(o2["err"])
        cands = sorted({x.split(": ", 1)[1] for x in subs if x.startswith("sgx_attestation_key")
                        and ("shorter than" in x and exc == "ValueError")
                        or ("not a curve point" in x and exc == "MalformedPointError")})
        return "C16|%s|%s|save_to_jsonfile raises %s|%s" % (clause, fl, exc, ";".join(cands) or "cause not classified")
    if clause == "RoundTripSameVerdictsAndValues":
        before = {r["target"]: r for r in o1["res"]}
        culprits = set()
        for r in o2["res"]:
            b = before.get(r["target"])
            if b != r:
                nm = r["what"][4:] if r["what"].startswith("e:s:") else None
                idx = [i for i, n in enumerate(t.get("names", [])) if n == nm]
                if idx:
                    x = subs[idx[-1]]
                    culprits.add(x.split(": ", 1)[1] if ": " in x else x or "plain payload")
                else:
                    culprits.add("value or verdict of %s changed" % ("a valid target" if r["valid"] else "a target"))
        return "C16|%s|%s|%s" % (clause, fl, ";".join(sorted(culprits)) or "cause not classified")
    if doc.get("scale"):
        sc = doc["scale"]
        size = "<= 300" if sc["len"] <= 300 else "~1000" if sc["len"] <= 1001 else "> 1001"
        return "C16|%s|%s|target path of %s elements%s|%s" % (
            clause, fl, size, " (cycle)" if sc["cycle"] else " (one bad link)" if sc["bad"] else "",
            _exc(o1["err"]) or _exc(o2["err"]) or t.get("stage", "-"))
    flds = sorted({it["fld"] for it in doc["items"] if it["fld"] != "ok"})
    spelt = sorted({x.split("spelling ", 1)[1] for x in subs if "spelling " in x})
    if spelt:
        flds.append("[%s]" % "; ".join(spelt))
    rootnamed = any(it["name"] == "root" for it in doc["items"])
    if doc.get("rawnames"):
        flds.append("names that are not strings")
    return "C16|%s|%s|stage=%s|fields=%s%s" % (clause, fl, t.get("stage", "-"), "+".join(flds) or "plain",
                                              "|an element carries the reserved name of the root of trust"
                                              if rootnamed else "")


def run_docs(ctx, docs, nproc):
    jobs = [(d, ctx.scratch) for d in docs]
    # a document with thousands of elements gets proportionally more time (2 s per 300 elements)
    scale = [max(1, (d["scale"]["len"] + 299) // 300) if d.get("scale") else 1 for d in docs]
    results = wdpool.run_jobs(certload.execute, jobs, nproc=nproc, budget=2.0, retry_budget=6.0, max_hangs=6,
                              scale=scale)
    out = []
    for d, r in zip(docs, results):
        if r["status"] == "ok":
            t = r["value"]
        elif r["status"] == "skipped":
            t = None
        elif r["status"] == "hang":
            stage = ""
            try:
                with open(os.path.join(ctx.scratch, "stage_%d" % r.get("pid", 0))) as f:
                    stage = f.read().strip()
            except OSError:
                pass
            if stage == "render":
                raise core.MachineryError("C16: the harness's own renderer did not finish on %s" % json.dumps(d)[:300])
            t = certload.hang_observation(stage)
        else:
            raise core.MachineryError("C16 worker failed on %s: %s" % (json.dumps(d)[:300], r["detail"]))
        out.append(t)
    return out, results.stats


def payload_of(tid, t):
    def o(x):
        d = {k: x[k] for k in ("outcome", "root", "targets", "val", "res")}
        d["graph"] = {g["name"]: {"by": g["by"]} for g in x["graph"]}
        return d
    return {"id": tid, "o1": o(t["o1"]), "save": t["save"], "o2": o(t["o2"])}


def run(ctx):
    res = core.Result()
    res.assumptions = [
        "any exception raised by from_jsonfile counts as 'reports an error' (the property asks for termination "
        "and an error-or-usable outcome, not for a particular exception type)",
        "termination on the real code = an answer within 2 s per document in a worker process (retried once "
        "alone with 6 s before it is called a hang; after 6 hangs the remaining documents are skipped); documents are at most a few kB",
        "the loaded graph is read from the loaded object (_targets, _elements[*].signed_by, ROOT_ELEMENT); "
        "names are projected equality-preservingly (Python dict-key equality) to strings",
        "verdicts and values are compared as (valid, failing element | sha-256 of value and tweak)",
        "version-2 payloads are built by the harness's own encoders (X.509 via `cryptography`, report body / "
        "quote layouts from the OpenEnclave struct definitions); X.509 validity windows are >= 2 days away from "
        "now; P-256 signatures use random nonces (bytes differ between runs, abstract outcome does not)",
        "path length: one target path of 5 ... 3000 elements (version 2, x509_pem chain under a quote; version 1 has "
        "only four element names, so no long path exists there); such a document gets 2 s per 300 elements; the "
        "trace checker walks these paths recursively (JVM thread stack raised to 512 MB for the validation runs)",
        "element names are JSON values: version-2 documents also use int / float / bool / null names (as name, as "
        "signed_by, in targets; a string and a number that print the same side by side); names are compared by "
        "Python dict-key equality when the observed graph is projected",
        "field-content classes inside one abstract class (which bad hex string, which non-list value) are "
        "seeded samples",
    ]
    nproc = ctx.pick(4, 8)
    # 1. design checks -------------------------------------------------------------------------
    runs = ctx.pick([("MCL_CertLoad.cfg", "MCL_CertLoad: <=3 items, <=1 target; invariants + Terminates under WF "
                                          "(no state constraint)"),
                     ("MC_CertLoad2.cfg", "MC_CertLoad2: <=2 items, <=2 targets, 1 unusual payload")],
                    [("MCT_CertLoad.cfg", "MCT_CertLoad: <=4 items, <=1 target"),
                     ("MCT_CertLoad2.cfg", "MCT_CertLoad2: <=3 items, <=2 targets, 1 unusual payload")])
    counts = {}
    for cfg, label in runs:
        r = tlc.check("CertLoad", cfg, coverage=True, workers=ctx.pick(4, 8))
        if r.violated:
            raise core.MachineryError("CertLoad model violates %s under %s" % (r.violated, cfg))
        res.add_tlc(r, label)
        for a, c in r.action_counts().items():
            counts[a] = max(counts.get(a, 0), c)
    never = [a for a in ACTIONS if counts.get(a, 0) == 0]
    if never:
        raise core.MachineryError("vacuity: actions never taken: %s" % never)
    res.coverage["uncovered_actions"] = never
    if not ctx.quick:       # (quick: termination is part of the MCL run above)
        rl = tlc.check("CertLoad", "Live_CertLoad.cfg", workers=4)
        if rl.violated:
            raise core.MachineryError("CertLoad: termination / step bound violated: %s" % rl.violated)
        res.add_tlc(rl, "Live_CertLoad: Terminates under WF (no state constraint) + step-count invariants")
    negs = []
    for cfg, inv in (("Neg_CertLoad.cfg", "NeverDupWins"), ("Neg2_CertLoad.cfg", "NeverCycle"),
                     ("Neg3_CertLoad.cfg", "NeverRootNamed")):
        rn = tlc.run("CertLoad", cfg, workers=2)
        if inv not in rn.violated:
            raise core.MachineryError("vacuity guard: %s is not violated by the model" % inv)
        negs.append(inv)
    res.coverage["negative_configs_violated"] = negs
    # 2. all behaviours ------------------------------------------------------------------------
    behaviours = []
    for cfg, label in ctx.pick([("Gen_CertLoad.cfg", "Gen_CertLoad"), ("Gen_CertLoad2.cfg", "Gen_CertLoad2"),
                                ("GenS_CertLoad.cfg", "GenS_CertLoad (3 names, one edge stands for a long run)")],
                               [("GenT_CertLoad.cfg", "GenT_CertLoad (<=4 items, <=1 target)"),
                                ("Gen_CertLoad2.cfg", "Gen_CertLoad2"),
                                ("GenS_CertLoad.cfg", "GenS_CertLoad (3 names, one edge stands for a long run)")]):
        bs, rg = tlc.generate("GenCertLoad", cfg)
        res.add_tlc(rg, label)
        behaviours += bs
    res.coverage["behaviours_generated"] = len(behaviours)
    # 3. concretise (both flavours) --------------------------------------------------------------
    docs, origin = [], []
    order = list(range(len(behaviours)))
    ctx.rng.shuffle(order)
    budget = ctx.pick(2200, 100000)
    # every (outcome, defect / payload class) combination first
    firsts, seen = [], set()
    for i in order:
        b = behaviours[i]
        byname = {it["name"]: b["by"][j] for j, it in enumerate(b["items"])}
        rootshape = ("root" in byname, byname.get("root"), byname.get(byname.get("root")), "root" in b["targets"])
        key = (b["phase"], b["ver"], b["tgtc"], b["elsc"], tuple(sorted({it["fld"] for it in b["items"]})), rootshape,
               tuple(sorted({it["name"] for it in b["items"] if it["name"] in ("missing", "bad", "nondict")})),
               (b.get("stretch") or {}).get("cls"))
        if key not in seen:
            seen.add(key)
            firsts.append(i)
    fs = set(firsts)
    chosen = firsts + [i for i in order if i not in fs][:max(0, budget - len(firsts))]
    for i in chosen:
        for d in certload.docs_from_behaviour(behaviours[i], ctx.rng):
            docs.append(d)
            origin.append(i)
    n_model = len(docs)
    res.coverage["behaviours_replayed"] = len(chosen)
    res.coverage["documents_from_behaviours"] = n_model
    # 4. binding B: random documents up to 12 elements ---------------------------------------------
    n_rand = ctx.pick(1500, 40000)
    docs += [certload.random_doc(ctx.rng) for _ in range(n_rand)]
    res.coverage["random_documents"] = n_rand
    directed = certload.directed_docs(ctx.rng) + certload.rawname_docs(ctx.rng)
    docs += directed
    res.coverage["directed_documents"] = len(directed)
    # path length as such: one target path of 5 ... 3000 elements (well formed, one bad link near the top /
    # middle / bottom, a cycle of that length)
    if ctx.quick:
        scaled = certload.scale_docs(ctx.rng, (5, 50, 255, 256, 257, 300, 999, 1000, 1001)) + \
            certload.scale_docs(ctx.rng, (1500,), ("ok", "middle", "cycle")) + \
            certload.scale_docs(ctx.rng, (3000,), ("ok",))
    else:
        scaled = certload.scale_docs(ctx.rng)
    docs += scaled
    res.coverage["scale_documents"] = {"count": len(scaled),
                                       "path_lengths": sorted({d["scale"]["len"] for d in scaled})}
    # 5. the real loaders ------------------------------------------------------------------------
    obs, pstats = run_docs(ctx, docs, nproc)
    res.coverage["watchdog"] = pstats
    drift = 0
    for k in range(n_model):
        b, t = behaviours[origin[k]], obs[k]
        # a version-1 element cannot be named "root": that rendering must be refused where the model loads
        expect_error = b["phase"] == "error" or (docs[k]["flavour"] == "v1"
                                                  and any(it["name"] == "root" for it in b["items"]))
        if t is not None and expect_error != (t["o1"]["outcome"] == "error"):
            drift += 1
            res.coverage.setdefault("model_drift_examples", [])
            if len(res.coverage["model_drift_examples"]) < 3:
                res.coverage["model_drift_examples"].append(
                    {"doc": docs[k], "model": b["phase"], "real": t["o1"]["outcome"], "err": t["o1"]["err"],
                     "payload": t.get("sub")})
    kept = [k for k, t in enumerate(obs) if t is not None]
    docs, obs = [docs[k] for k in kept], [obs[k] for k in kept]
    n_model = sum(1 for k in kept if k < n_model)
    res.coverage["model_drift"] = drift
    # 6. TLC judges ----------------------------------------------------------------------------------
    payload = [payload_of(k + 1, t) for k, t in enumerate(obs)]
    # (TLC walks a 3000-element path recursively: give its threads the stack for it)
    os.environ["JAVA_TOOL_OPTIONS"] = "-Xss512m"
    try:
        verdicts, stats = tlc.validate("TraceCertLoad", "Trace_CertLoad.cfg", payload, shards=ctx.pick(4, 8))
    finally:
        os.environ.pop("JAVA_TOOL_OPTIONS", None)
    res.checker_cmds.append("tlc -workers 1 -config Trace_CertLoad.cfg TraceCertLoad (x%d shards)" % stats["jvms"])
    accepted = 0
    tally = {"error": 0, "loaded": 0, "loaded_with_valid_verdict": 0, "round_trips": 0, "max_elements": 0,
             "loaded_with_duplicates": 0}
    classes = set()
    rejected = []
    for k, (d, t) in enumerate(zip(docs, obs)):
        v = verdicts[k + 1]
        classes.add(dclass(d))
        o1 = t["o1"]
        if o1["outcome"] == "error":
            tally["error"] += 1
        elif o1["outcome"] == "loaded":
            tally["loaded"] += 1
            tally["max_elements"] = max(tally["max_elements"], len(d["items"]))
            if any(r["valid"] for r in o1["res"]):
                tally["loaded_with_valid_verdict"] += 1
            if len(o1["graph"]) < len(d["items"]):
                tally["loaded_with_duplicates"] += 1
            if t["o2"]["outcome"] == "loaded":
                tally["round_trips"] += 1
        if v["ok"]:
            accepted += 1
        else:
            rejected.append((len(d["items"]), k))
    # the smallest document of every signature becomes its replay file
    for _, k in sorted(rejected):
        d, t, v = docs[k], obs[k], verdicts[k + 1]
        o1 = t["o1"]
        res.violation(signature(v["clause"], d, t),
                      "%s document (%s): %s fails - first load: %s %s; save: %s; second load: %s %s %s; "
                      "verdicts before=%s after=%s" % (
                          d["flavour"], "; ".join(s for s in t.get("sub", []) if s) or "plain payloads",
                          v["clause"], o1["outcome"], o1["err"], t["save"], t["o2"]["outcome"],
                          t["o2"]["val"], t["o2"]["err"], json.dumps(o1["res"])[:300],
                          json.dumps(t["o2"]["res"])[:300]),
                      {"doc": d, "observed": {"o1": o1, "save": t["save"], "o2": t["o2"]}, "verdict": v})
    res.add_validation(stats, accepted)
    res.coverage["observed"] = tally
    # the trace specification must reject doctored observations (self-test of the judge)
    doctored = []
    for k, t in enumerate(obs):
        if len(doctored) >= 40:
            break
        if verdicts[k + 1]["ok"] and t["o1"]["outcome"] == "loaded" and t["o1"]["res"] and t["o1"]["graph"] \
                and len(t["o1"]["graph"]) < 40:
            p = json.loads(json.dumps(payload_of(len(doctored) + 1, t)))
            how = len(doctored) % 4
            if how == 0:
                p["o2"]["res"][0]["valid"] = not p["o2"]["res"][0]["valid"]         # round trip differs
            elif how == 1:
                p["o1"]["res"] = p["o1"]["res"][1:]                                    # a target without verdict
            elif how == 2:
                tgt = p["o1"]["targets"][0]                                            # a cycle through the target
                if tgt in p["o1"]["graph"]:
                    # (an element named like the root that signs itself DOES reach the root: dangle it)
                    p["o1"]["graph"][tgt]["by"] = tgt if tgt != p["o1"]["root"] else "s:__nowhere__"
            else:
                p["o1"]["val"] = "hang"
            doctored.append(p)
    dv, _ = tlc.validate("TraceCertLoad", "Trace_CertLoad.cfg", doctored, shards=1)
    slipped = [i for i, v in dv.items() if v["ok"]]
    if slipped or not doctored:
        raise core.MachineryError("TraceCertLoad accepted %d of %d doctored observations" % (len(slipped), len(doctored)))
    res.coverage["doctored_traces_rejected"] = len(doctored)
    res.coverage["distinct_abstract_classes_hit"] = len(classes)
    if tally["loaded_with_valid_verdict"] == 0 or tally["error"] == 0 or tally["loaded_with_duplicates"] == 0:
        raise core.MachineryError("vacuity: real loaders never showed one of error / valid verdict / duplicates: %s" % tally)
    for k in (0, 1, n_model, n_model + 1, len(docs) - 1):
        if 0 <= k < len(docs):
            t = obs[k]
            res.sample({"doc": docs[k], "first_load": t["o1"]["outcome"], "error": t["o1"]["err"],
                        "verdicts": t["o1"]["res"], "save": t["save"], "second_load": t["o2"]["outcome"]})
    return res


def replay(ctx, path):
    with open(path) as f:
        data = json.load(f)
    doc = data["replay"]["doc"]
    obs, _ = run_docs(ctx, [doc], 1)
    t = obs[0]
    os.environ["JAVA_TOOL_OPTIONS"] = "-Xss512m"
    verdicts, _ = tlc.validate("TraceCertLoad", "Trace_CertLoad.cfg", [payload_of(1, t)])
    r = certload.render(doc)
    print(json.dumps({"doc": doc, "file": r["text"], "root": r["root"], "payload": r["sub"],
                      "observed": {"o1": t["o1"], "save": t["save"], "o2": t["o2"]},
                      "verdict": verdicts[1]}, indent=1))
    return 0 if verdicts[1]["ok"] else 1
