"""C19 — app hashing and one-time signing bind to the application's actual code.
TLC: AppImage (exhaustive, + negative configurations) ; GenAppImage (every complete .hex file of the
model's images, every signing session) -> real .hex files -> compute_app_hash / `signapp hash` /
`signapp message` / signonetime -> TraceAppImage judges every recorded execution."""
import concurrent.futures as cf
import json
import os
import random
import shutil

from .. import appimage as ai
from .. import core, tlc

# short TLC runs (negative configurations, generation, trace validation): C1 only, two GC threads --
# a third of the CPU of the default JIT on runs of a few seconds
LIGHT_JVM = ("-XX:TieredStopAtLevel=1", "-XX:ParallelGCThreads=2")

NEGATIVE = [  # (cfg, invariant that must be violated, what it shows)
    ("Neg_AppImage_done.cfg", "NeverDone", "files get completed"),
    ("Neg_AppImage_second.cfg", "NeverSecondRun", "second runs happen"),
    ("Neg_AppImage_order.cfg", "OrderIrrelevant", "the model contains files out of address order"),
    ("Neg_AppImage_fileorder.cfg", "HashInputOk", "hashing in file order is caught"),
    ("Neg_AppImage_reuse.cfg", "KeyFreshPerRun", "a key surviving the run is caught"),
    ("Neg_AppImage_leak.cfg", "PrivNotWritten", "a written private key is caught"),
    ("Neg_AppImage_signpath.cfg", "SigVerifies", "signing something else is caught"),
    ("Neg_AppImage_twopubs.cfg", "SinglePub", "a second public key file is caught"),
    ("Neg_AppImage_tailtwice.cfg", "HashedLength",
     "hashing an area twice when it is a whole number of 4096-byte blocks is caught once sizes vary"),
    ("Neg_AppImage_readcap.cfg", "HashInputOk", "a reader that stops at a cap on the text is caught once "
                                                "files lie above the thresholds"),
    ("Neg_AppImage_verbose.cfg", "SigVerifies", "an optional flag that disturbs what is hashed is caught"),
    ("Neg_AppImage_normpath.cfg", "SigVerifies", "lexical tidying of `link/..` is caught"),
    ("Neg_AppImage_nameclash.cfg", "NeverNameClash", "runs name two different images by one file name"),
    ("Neg_AppImage_byname.cfg", "SigVerifies", "a hash table keyed by file name is caught"),
    ("Neg_AppImage_reusepath.cfg", "NeverReusesPath", "-o paths get reused for other images"),
    ("Neg_AppImage_stale.cfg", "AuthBinds", "keeping the authorization already at the -o path is caught"),
]
ACTIONS = ("Message", "SelectZone", "WriteData", "WriteEof", "StartRun", "GenKey", "WritePub", "HashI", "SignI",
           "WriteSigI", "Exit")


# ------------------------------------------------------------------------------------------------
LAYOUT_SHAPES = (
    ("name", {"addr": "rel", "cwd": "imgdir", "pub": "rel", "spell": "plain"}),
    ("absolute", {"addr": "abs", "cwd": "imgdir", "pub": "abs", "spell": "plain"}),
    ("dotslash", {"addr": "dotslash", "cwd": "imgdir", "pub": "rel", "spell": "plain"}),
    ("blanks-nonascii", {"addr": "rel", "cwd": "imgdir", "pub": "rel", "spell": "plain"}),
    ("cwd-elsewhere", {"addr": "rel", "cwd": "other", "pub": "rel", "spell": "plain"}),
    ("output-elsewhere", {"addr": "abs", "cwd": "imgdir", "pub": "otherdir", "spell": "plain"}),
    ("dotdot-link-decoy", {"addr": "rel", "cwd": "imgdir", "pub": "rel", "spell": "dotdot-link-decoy"}),
    ("dotdot-link-empty", {"addr": "abs", "cwd": "other", "pub": "abs", "spell": "dotdot-link-empty"}),
    ("dotdot-real", {"addr": "rel", "cwd": "other", "pub": "rel", "spell": "dotdot-real"}),
    ("via-link", {"addr": "dotslash", "cwd": "imgdir", "pub": "otherdir", "spell": "via-link"}),
    ("file-link", {"addr": "rel", "cwd": "imgdir", "pub": "abs", "spell": "file-link"}),
    ("slashes", {"addr": "abs", "cwd": "imgdir", "pub": "rel", "spell": "slashes"}),
    ("inner-dot", {"addr": "rel", "cwd": "other", "pub": "otherdir", "spell": "inner-dot"}),
)
_DECOY = ":020000040000FA\n:04004000DEC0DEC09E\n:00000001FF\n"


def exec_layout(ctx, lay, tag, k, shapes=None):
    """Write the layout as a real .hex and run the three tools that report its hash; the way the
    file (and the -o file) is named on the command line cycles through LAYOUT_SHAPES."""
    ai.check_writer(lay)
    d = os.path.realpath(os.path.join(ctx.scratch, "lay"))
    shape, form = LAYOUT_SHAPES[k % len(LAYOUT_SHAPES)]
    if shapes is not None:
        shapes[shape] = shapes.get(shape, 0) + 1
    name = "app_%s.hex" % tag
    if shape == "blanks-nonascii":
        name = os.path.join("my apps", "firmware %s \u00f1\u00e9 v2.hex" % tag)
    path = os.path.join(d, "img", name)
    os.makedirs(os.path.dirname(path), exist_ok=True)
    inv = ai.Invocation(d, form, _DECOY)
    ai.write_hex(lay, path)
    arg, _ = inv.img_arg(os.path.join("img", name), 0)
    reports, hins = [], []
    pareas = ai.observe_parser(path)
    r, h = ai.run_compute(path)
    reports.append(r)
    hins += h
    # optional flags: -v / --verbose, and (for `hash`) the -i / -o it accepts without using them
    opt = ("none", "-v", "--verbose", "none", "-v")[(k // len(LAYOUT_SHAPES)) % 5]
    extra = [] if opt == "none" else [opt]
    if shapes is not None:
        shapes["flag " + opt] = shapes.get("flag " + opt, 0) + 1
    r, h, _ = ai.run_signapp_hash(arg, cwd=inv.cwd, extra=extra + (["-i", "5"] if k % 4 == 1 else []))
    reports.append(r)
    hins += h
    it = (k * 7919) % 65536
    if k % 3 == 0 or shape == "output-elsewhere" or form["spell"] != "plain":
        out_abs, out_arg = inv.out_file("auth_%s.json" % tag)
        r, h, _ = ai.run_signapp_message(arg, it, out_arg, cwd=inv.cwd, out_read=out_abs, extra=extra)
    else:
        r, h, _ = ai.run_signapp_message(arg, it, None, cwd=inv.cwd, extra=extra)
    reports.append(r)
    hins += h
    shutil.rmtree(d, ignore_errors=True)
    return reports, hins, pareas


def layout_signature(clause, via, lay):
    return "%s|via=%s|%s" % (clause, via, lay.klass())


def session_signature(clause, at, run, dirs="flat"):
    return "%s|run=%s imgs=%s names=%s" % (clause, "first" if at <= 1 else "repeated",
                                           "one" if len(run["imgs"]) == 1 else "many", dirs)


def contents_of(layouts):
    """content classes by oracle digest, numbered by first appearance"""
    seen, out = {}, []
    for lay in layouts:
        d = ai.oracle_digest(lay)
        out.append(seen.setdefault(d, len(seen) + 1))
    return out


def exec_session(ctx, layouts, plan, tag, rng, dirs="flat"):
    """plan: [{"imgs", "pub", "relative", "spaces"}] -> session trace + info"""
    root = os.path.join(ctx.scratch, "ses_%s" % tag)
    os.makedirs(root)
    try:
        contents = contents_of(layouts)
        s = ai.Session(root, layouts, contents, rng, dirs)
        runs, infos = [], []
        for st in plan:
            run, info = s.run(st["imgs"], st["pub"], st.get("relative", True), st.get("spaces", False),
                              st.get("child", False), st.get("form"))
            runs.append(run)
            infos.append(info)
        return {"kind": "session", "contents": contents,
                "expected": [list(d) for d in s.expected], "runs": runs}, infos
    finally:
        shutil.rmtree(root, ignore_errors=True)


def exec_auth(ctx, layouts, pre, plan, tag, rng, dirs="flat", otherdir=False):
    """plan: [{"img", "iter", "out", "relative"}] -> auth trace + infos"""
    root = os.path.join(ctx.scratch, "auth_%s" % tag)
    os.makedirs(root)
    try:
        contents = contents_of(layouts)
        s = ai.AuthSession(root, layouts, contents, pre, rng, dirs, otherdir)
        steps, infos = [], []
        for st in plan:
            o, info = s.step(st["img"], st["iter"], st["out"], st.get("relative", True), st.get("form"))
            steps.append(o)
            infos.append(info)
        return {"kind": "auth", "contents": contents, "expected": [list(x) for x in s.expected],
                "steps": steps}, infos
    finally:
        shutil.rmtree(root, ignore_errors=True)


def auth_signature(clause, at, t, m):
    st = t["steps"][at - 1] if 1 <= at <= len(t["steps"]) else None
    if st is None:
        return "%s|auth" % clause
    if st["out"] == 0:
        where = "printed"
    else:
        earlier = [x for x in t["steps"][:at - 1] if x["out"] == st["out"]]
        if earlier:
            same = t["contents"][earlier[-1]["img"] - 1] == t["contents"][st["img"] - 1]
            where = "path-written-by-earlier-invocation-for-%s-image" % ("the-same" if same else "another")
        elif m["pre"][st["out"] - 1].get("found"):
            where = "path-holding-a-foreign-authorization"
        else:
            where = "fresh-path"
    return "%s|signapp message -o %s" % (clause, where)


# ------------------------------------------------------------------------------------------------
def run(ctx):
    res = core.Result()
    res.assumptions = [
        "SHA-256 and secp256k1 ECDSA are taken from hashlib / the ecdsa package (symbolic in the spec: "
        "a hash is the class of its input, a signature is [by, over]); no claim about collisions, forgery "
        "or the quality of the key's randomness: 'generated afresh' = SigningKey.generate was called in "
        "this run, the published key is that key, keys of different runs differ, the scalar is in "
        "nothing written or printed",
        "files are well-formed Intel-HEX: every byte written once, no data record over a 64 KiB boundary, "
        "a type-04 record before the first data record (files without one are only allowed to be refused)",
        "tools run in-process (argv, cwd, stdout patched from the harness); written files = the working "
        "directory after the run + every path opened for writing (audit hook) during it",
        "ledgerblue's IntelHexParser is a library, modelled in AppImageProps.PStep; its observed area "
        "list is compared with the model's as drift, not as a verdict",
        "size classes: the model's units get real lengths per class (small = 1 byte; page_multiple / "
        "zone_multiple / one_below / one_above put area lengths on, below and above 4096, 8192, 12288 and "
        "65536 bytes); every layout of class small is replayed, of the other classes a seeded sample; other "
        "block sizes a tool might treat specially are only met by the random tier's boundary lengths "
        "(255..65537 around every power of two)",
        "size of the file as text: for files written one abstract record per area, the model's Env picks "
        "thresholds 64 KiB / 1 / 2 / 4 MiB x below / above x record length 1, 3, 16, 32, 255 (LF and CRLF "
        "alternating); quick replays one file per threshold and side (+2 above 1 MiB), thorough one per "
        "combination; texts beyond 4 MiB + one record are not generated",
        "invocation shapes: image naming (flat / one name in several directories / mixed / blanks and "
        "non-ASCII), path form (relative, absolute, ./x, mixed), working directory (the images' or another), "
        "output path (relative, absolute, another directory) are Env choices of the model, enumerated as "
        "pairwise-covering setups, not as the full product; symlinks, hard links and case-insensitive file "
        "systems are not generated",
        "bitcoin.core stand-in is loaded (imports only; not exercised)",
    ]
    rng = ctx.rng
    ai.install_boundary()

    # 1. design check, exhaustive + negative configurations
    mc_cfg = ctx.pick("MC_AppImage.cfg", "MC_AppImage_full.cfg")
    r = tlc.check("MC_AppImage", mc_cfg, coverage=True, workers=4)
    if r.violated:
        raise core.MachineryError("AppImage model violates %s" % r.violated)
    res.add_tlc(r, "%s exhaustive" % mc_cfg)
    counts = r.action_counts()
    never = [a for a in ACTIONS if counts.get(a, 0) == 0]
    if never:
        raise core.MachineryError("vacuity: actions never taken: %s" % never)
    res.coverage["uncovered_actions"] = never
    # thorough also checks three runs in a row (design check only); that and the negative
    # configurations run in the background while the behaviours are replayed; collected before judging
    pool = cf.ThreadPoolExecutor(max_workers=3)
    extra_cfgs = ctx.pick([], ["MC_AppImage_runs3.cfg"])
    extra_jobs = [(cfg, pool.submit(tlc.check, "MC_AppImage", cfg, workers=3)) for cfg in extra_cfgs]
    blind_job = pool.submit(tlc.run, "MC_AppImage", "MC_AppImage_tailtwice_small.cfg", workers=1, heap="1g",
                            java_opts=LIGHT_JVM)
    blind3_job = pool.submit(tlc.run, "MC_AppImage", "MC_AppImage_readcap_below.cfg", workers=1, heap="1g",
                             java_opts=LIGHT_JVM)
    blind2_job = pool.submit(tlc.run, "MC_AppImage", "MC_AppImage_byname_flat.cfg", workers=1, heap="2g",
                             java_opts=LIGHT_JVM)
    neg_jobs = [(item, pool.submit(tlc.run, "MC_AppImage", item[0], workers=1, heap="1g", java_opts=LIGHT_JVM))
                for item in NEGATIVE]

    def collect_background():
        for cfg, fut in extra_jobs:
            rx = fut.result()
            if rx.violated:
                raise core.MachineryError("AppImage model (%s) violates %s" % (cfg, rx.violated))
            res.add_tlc(rx, "%s exhaustive" % cfg)
        negs = []
        for (cfg, inv, why), fut in neg_jobs:
            rn = fut.result()
            if inv not in rn.violated:
                raise core.MachineryError("negative configuration %s: %s not violated (%s)" % (cfg, inv, rn.error))
            negs.append("%s: %s violated (%s)" % (cfg, inv, why))
            res.checker_cmds.append(rn.cmd)
        rb = blind_job.result()
        if not rb.ok or rb.violated:
            raise core.MachineryError("MC_AppImage_tailtwice_small.cfg expected to hold: %s %s" % (rb.violated, rb.error))
        negs.append("MC_AppImage_tailtwice_small.cfg: the same defective variant satisfies HashInputOk and "
                    "HashedLength when SizeClasses = {small} (why the size classes are an Env choice)")
        res.checker_cmds.append(rb.cmd)
        rb2 = blind2_job.result()
        if not rb2.ok or rb2.violated:
            raise core.MachineryError("MC_AppImage_byname_flat.cfg expected to hold: %s %s" % (rb2.violated, rb2.error))
        negs.append("MC_AppImage_byname_flat.cfg: the by-file-name variant satisfies SigVerifies when every "
                    "image has a name of its own (why the naming of the images is an Env choice)")
        res.checker_cmds.append(rb2.cmd)
        rb3 = blind3_job.result()
        if not rb3.ok or rb3.violated:
            raise core.MachineryError("MC_AppImage_readcap_below.cfg expected to hold: %s %s" % (rb3.violated, rb3.error))
        negs.append("MC_AppImage_readcap_below.cfg: the capped reader satisfies HashInputOk while every file "
                    "stays below the thresholds (why the size of the text is an Env choice)")
        res.checker_cmds.append(rb3.cmd)
        res.coverage["negative_configurations"] = negs
        pool.shutdown()

    # 2. every complete file x size class, every signing session and message sequence of the model
    gen_cfg = ctx.pick("Gen_AppImage.cfg", "Gen_AppImage_full.cfg")
    behaviours, rg = tlc.generate("GenAppImage", gen_cfg, timeout=3000, java_opts=LIGHT_JVM)
    res.add_tlc(rg, "%s behaviours" % gen_cfg)
    forms = [json.loads(x) for x in rg.printed("F")]
    if len(forms) != 1 or not forms[0]:
        raise core.MachineryError("generation did not print the invocation forms")
    forms = forms[0]
    mlayouts = [b for b in behaviours if b["kind"] == "layout"]
    msessions = [b for b in behaviours if b["kind"] == "session"]
    mauths = [b for b in behaviours if b["kind"] == "auth"]
    res.coverage["behaviours_generated"] = len(behaviours)
    res.coverage["model_layouts"] = len(mlayouts)
    res.coverage["model_sessions"] = len(msessions)
    res.coverage["model_message_sequences"] = len(mauths)
    del behaviours
    if not mlayouts or not msessions or not mauths:
        raise core.MachineryError("generation produced no layouts or no sessions")
    sizes = sorted({b["size"] for b in mlayouts})
    if "small" not in sizes or len(sizes) < 4:
        raise core.MachineryError("size classes missing from the generated layouts: %s" % sizes)
    ulens = {b["size"]: b["ulen"] for b in mlayouts}
    cov_hash = {s: 0 for s in sizes}        # layouts through compute / signapp hash / signapp message
    cov_sign = {s: 0 for s in sizes}        # images signed by signonetime
    cov_auth = {s: 0 for s in sizes}        # message sequences
    cov_scale = []                          # [thr, side, rlen, eol, text length, image bytes, order]
    cov_shapes = {}                         # how single files were named for signapp hash / message
    cov_dirs = {"signonetime": {}, "message": {}}
    cov_forms = {"signonetime": {}, "message": {}}
    cov_opts = {"signonetime": {}, "message": {}}    # optional flag of the tool
    cov_clash = [0]                         # runs naming two images of different contents by one file name

    traces, meta = [], {}
    jstate = {"accepted": [], "classes": set(), "shown": {}, "held": 0}

    def flush():
        if traces:
            judge(ctx, res, traces, meta, jstate)
        traces.clear()
        meta.clear()
        jstate["held"] = 0

    def add(t, m):
        """record one execution; TLC judges them in batches so that the big images do not pile up"""
        t["id"] = len(traces) + 1
        traces.append(t)
        meta[t["id"]] = m
        lays = [m["lay"]] if m["kind"] == "layout" else m["lays"]
        for lay in lays:
            lay._text = None
            jstate["held"] += 4 * lay.total() + 120 * len(lay.records)
        if jstate["held"] > 3_000_000_000 or len(traces) >= 30000:
            flush()

    # 3a. as real .hex files through compute_app_hash / signapp hash / signapp message: every layout of
    # the class "small"; of every other class a seeded sample, half of it files in address order (whole
    # areas reach the hashing code in one piece), half anything
    def in_order(b):
        z, last = 0, -1
        for r in b["file"]:
            if r["t"] == "ela":
                z = r["z"]
            elif r["t"] == "data":
                if (z << 16) + r["a"] < last:
                    return False
                last = (z << 16) + r["a"]
        return True
    per_class = ctx.pick(24, 800)
    selected = []
    for s in sizes:
        idx = [i for i, b in enumerate(mlayouts) if b["size"] == s]
        if s == "scaled":
            # the size of the file as text: quick = every threshold x side once (record length drawn),
            # plus two more files above 1 MiB; thorough = every scale (threshold x side x record length) once
            rng.shuffle(idx)
            by_scale = {}
            for i in idx:
                sc = mlayouts[i]["scale"]
                by_scale.setdefault((sc["thr"], sc["side"]), {}).setdefault(sc["rlen"], []).append(i)
            idx = []
            for key in sorted(by_scale):
                rl = sorted(by_scale[key])
                if ctx.quick:
                    picks = [rng.choice(rl)]
                    if key == (1048576, "above"):
                        picks += rng.sample([r for r in rl if r != picks[0]], 2)
                    idx += [by_scale[key][r][0] for r in picks]
                else:
                    for r in rl:
                        idx += by_scale[key][r][:1]
        elif s != "small":
            rng.shuffle(idx)
            ordered = [i for i in idx if in_order(mlayouts[i])][:per_class // 2]
            idx = ordered + [i for i in idx if i not in set(ordered)][:per_class - len(ordered)]
        selected += idx
    by_image = {}
    for i in selected:
        b = mlayouts[i]
        by_image.setdefault((b["size"], ai.image_key(b)), []).append(i)
    for k, i in enumerate(selected):
        b = mlayouts[i]
        lay = ai.concretise(b, rng)
        reports, hins, pareas = exec_layout(ctx, lay, "m%d" % i, k, cov_shapes)
        cov_hash[b["size"]] += 1
        if lay.scale:
            cov_scale.append([lay.scale["thr"], lay.scale["side"], lay.scale["rlen"], lay.scale["eol"],
                              len(ai.hex_text(lay)), lay.total(), "address" if lay.in_address_order() else "shuffled"])
        add(ai.trace_of_layout(0, lay, reports, hins, b["size"] == "small", pareas),
            {"kind": "layout", "lay": lay, "reports": reports, "src": "model"})

    # images for a session / message sequence of the model: one model image (and one set of unit
    # blocks) per content class, another layout of it for every image of that class
    image_keys = {s: sorted(k for (sz, k) in by_image if sz == s) for s in sizes}
    cursor = {k: 0 for k in by_image}
    keyrot = [0]

    def next_layout(size, key):
        idxs = by_image[(size, key)]
        j = idxs[cursor[(size, key)] % len(idxs)]
        cursor[(size, key)] += 1
        return j

    def images_for(b):
        size, iks = b["size"], image_keys[b["size"]]
        classes = sorted(set(b["contents"]))
        keys = {c: iks[(keyrot[0] + n) % len(iks)] for n, c in enumerate(classes)}
        keyrot[0] += 1
        maps = {c: ai.bytemap(rng) for c in classes}
        blocks = {c: ai.unit_blocks(b["ulen"], rng) for c in classes}
        chosen, lays = [], []
        for c in b["contents"]:
            j = next_layout(size, keys[c])
            chosen.append(j)
            lays.append(ai.concretise(mlayouts[j], rng, blocks[c], maps[c]))
        if contents_of(lays) != list(b["contents"]):
            raise core.MachineryError("concretisation does not realise the content classes %s" % b["contents"])
        return chosen, lays

    # 3b. model sessions (all size classes); the selected layouts get signed (thorough: all of the
    # bigger classes, a 4 000 sample of the class small)
    signed = set()
    def name_of(dirs, i):
        return 1 if dirs == "samename" else (1 if (dirs == "mixed" and i <= 2) else i)

    def clashes(b):
        for st in b["plan"]:
            for x in st["imgs"]:
                for y in st["imgs"]:
                    if name_of(b["dirs"], x) == name_of(b["dirs"], y) and \
                            b["contents"][x - 1] != b["contents"][y - 1]:
                        return True
        return False

    def count(tab, key):
        tab[key] = tab.get(key, 0) + 1
    order = list(range(len(msessions)))
    rng.shuffle(order)
    n_sessions = ctx.pick(min(len(order), 180), min(len(order), 2000))
    n_child = ctx.pick(3, 40)
    # a third of the budget: sessions with a run that names two different images by one file name;
    # another third: sessions whose paths are not spelled in normal form, every spelling in turn
    first = [k for k in order if clashes(msessions[k])][:n_sessions // 3]
    taken = set(first)
    by_spell = {}
    for k in order:
        if k not in taken:
            for st in msessions[k]["plan"]:
                sp = forms[st["form"] - 1]["spell"]
                if sp != "plain":
                    by_spell.setdefault(sp, []).append(k)
    spelled = []
    while len(spelled) < n_sessions // 3 and any(by_spell.values()):
        for sp in sorted(by_spell):
            while by_spell[sp]:
                k = by_spell[sp].pop()
                if k not in taken:
                    taken.add(k)
                    spelled.append(k)
                    break
    rest = [k for k in order if k not in taken][:max(0, n_sessions - len(first) - len(spelled))]
    order = first[:n_child // 2] + spelled + rest + first[n_child // 2:]
    for pos, si in enumerate(order[:n_sessions]):
        b = msessions[si]
        chosen, lays = images_for(b)
        plan = [{"imgs": st["imgs"], "pub": st["pub"], "form": forms[st["form"] - 1],
                 "spaces": rng.random() < 0.3, "child": pos < n_child} for st in b["plan"]]
        t, infos = exec_session(ctx, lays, plan, "m%d" % si, rng, b["dirs"])
        count(cov_dirs["signonetime"], b["dirs"])
        cov_clash[0] += 1 if clashes(b) else 0
        for st in plan:
            count(cov_forms["signonetime"], "%(addr)s/cwd=%(cwd)s/pub=%(pub)s/%(spell)s" % st["form"])
            count(cov_opts["signonetime"], st["form"].get("opt", "none"))
        for st in plan:
            cov_sign[b["size"]] += len(st["imgs"])
            signed.update(chosen[i - 1] for i in st["imgs"])
        add(t, {"kind": "session", "lays": lays, "plan": plan, "infos": infos, "src": "model",
                "dirs": b["dirs"]})
    # the selected layouts no session signed yet: four per run, one run per session
    rest = [i for i in selected if i not in signed]
    big_rest = [i for i in rest if mlayouts[i]["size"] != "small"]
    small_rest = [i for i in rest if mlayouts[i]["size"] == "small"]
    rng.shuffle(small_rest)
    rest = big_rest + small_rest[:ctx.pick(len(small_rest), 4000)]   # thorough: a sample of the small ones
    for n in range(0, len(rest), 4):
        chunk = rest[n:n + 4]
        lays = [ai.concretise(mlayouts[j], rng) for j in chunk]
        bdirs = ("flat", "samename", "mixed", "blanks")[(n // 4) % 4]
        plan = [{"imgs": list(range(1, len(chunk) + 1)), "pub": 1 + (n // 4) % 2,
                 "form": forms[(n // 4) % len(forms)], "spaces": False}]
        t, infos = exec_session(ctx, lays, plan, "bulk%d" % n, rng, bdirs)
        count(cov_dirs["signonetime"], bdirs)
        cov_clash[0] += 1 if (bdirs in ("samename", "mixed") and len(chunk) > 1) else 0
        signed.update(chunk)
        for j in chunk:
            cov_sign[mlayouts[j]["size"]] += 1
        add(t, {"kind": "session", "lays": lays, "plan": plan, "infos": infos, "src": "model-bulk",
                "dirs": bdirs})
    res.coverage["model_layouts_replayed"] = len(selected)
    res.coverage["behaviours_replayed"] = len(selected) + n_sessions
    res.coverage["model_sessions_replayed"] = n_sessions
    res.coverage["sessions_run_in_a_child_interpreter_via___main__"] = min(n_child, n_sessions)
    res.coverage["model_layouts_signed_by_signonetime"] = len(signed)

    # 3c. model sequences of `signapp message` invocations sharing -o paths
    order = list(range(len(mauths)))
    rng.shuffle(order)
    # those that aim twice at one path with different images first; then the rest up to the budget
    def reuses(b):
        seen = {}
        for st in b["plan"]:
            if st["out"] and st["out"] in seen and seen[st["out"]] != b["contents"][st["img"] - 1]:
                return True
            if st["out"]:
                seen[st["out"]] = b["contents"][st["img"] - 1]
        return False
    n_auth = min(len(order), ctx.pick(400, 6000))
    first = [k for k in order if reuses(mauths[k])][:(3 * n_auth) // 4]
    order = first + [k for k in order if k not in set(first)]
    n_reuse = 0
    for ai_ in order[:n_auth]:
        b = mauths[ai_]
        n_reuse += 1 if reuses(b) else 0
        _chosen, lays = images_for(b)
        plan = [{"img": st["img"], "iter": st["iter"], "out": st["out"], "form": forms[st["form"] - 1]}
                for st in b["plan"]]
        pre = [{"found": bool(x["found"]), "gotiter": 7} for x in b["pre"]]
        otherdir = plan[0]["form"]["pub"] == "otherdir"
        t, infos = exec_auth(ctx, lays, pre, plan, "m%d" % ai_, rng, b["dirs"], otherdir)
        cov_auth[b["size"]] += 1
        count(cov_dirs["message"], b["dirs"])
        for st in plan:
            count(cov_forms["message"], "%(addr)s/cwd=%(cwd)s/pub=%(pub)s/%(spell)s" % st["form"])
            count(cov_opts["message"], st["form"].get("opt", "none"))
        add(t, {"kind": "auth", "lays": lays, "pre": pre, "plan": plan, "infos": infos, "src": "model",
                "dirs": b["dirs"], "otherdir": otherdir})
    res.coverage["model_message_sequences_replayed"] = n_auth
    res.coverage["of_which_reuse_a_path_for_another_image"] = n_reuse
    res.coverage["behaviours_replayed"] += n_auth
    res.coverage["text_sizes"] = {
        "files": len(cov_scale),
        "thresholds_x_sides": sorted({"%d %s" % (x[0], x[1]) for x in cov_scale}),
        "record_lengths": sorted({x[2] for x in cov_scale}),
        "line_ends": sorted({x[3] for x in cov_scale}), "orders": sorted({x[6] for x in cov_scale}),
        "largest_text": max([x[4] for x in cov_scale] or [0]),
        "examples": cov_scale[:12]}
    if len(res.coverage["text_sizes"]["thresholds_x_sides"]) < 8 or len(res.coverage["text_sizes"]["line_ends"]) < 2:
        raise core.MachineryError("text-size classes not all exercised: %s" % res.coverage["text_sizes"])
    res.coverage["size_classes"] = {s: {"unit_lengths": ulens[s], "layouts_hashed": cov_hash[s],
                                        "images_signed_by_signonetime": cov_sign[s],
                                        "message_sequences": cov_auth[s]} for s in sizes}
    res.coverage["invocation_shapes"] = {
        "single_file_tools": cov_shapes, "image_naming": cov_dirs, "forms": cov_forms,
        "optional_flags": cov_opts,
        "signonetime_runs_with_two_different_images_under_one_file_name": cov_clash[0]}
    want_dirs = {"flat", "samename", "mixed", "blanks"}
    if set(cov_dirs["signonetime"]) != want_dirs or set(cov_dirs["message"]) != want_dirs or \
            len(cov_forms["signonetime"]) < len(forms) or len(cov_opts["signonetime"]) < 3 or \
            len(cov_opts["message"]) < 3 or \
            {k.split("/")[-1] for k in cov_forms["message"]} != {f["spell"] for f in forms} or \
            not cov_clash[0] or len(cov_shapes) < len(LAYOUT_SHAPES) + 3:
        raise core.MachineryError("invocation shapes not all exercised: %s" % res.coverage["invocation_shapes"])
    for s in sizes:
        if not (cov_hash[s] and cov_sign[s] and (cov_auth[s] or s == "scaled")):
            raise core.MachineryError("size class %s not exercised on every path: %s" % (
                s, res.coverage["size_classes"][s]))

    # 4. random tier: 1..8 areas, record lengths 1..255, several zones; one in eight with area lengths
    # on / next to the powers of two from 256 to 64 KiB
    n_rand = ctx.pick(300, 3000)
    n_boundary = 0

    def rand_image(p_small=0.3, p_boundary=0.12):
        x = rng.random()
        if x < p_boundary:
            return ai.random_layout(rng, boundary=True)
        return ai.random_layout(rng, small=x < p_boundary + p_small)
    for i in range(n_rand):
        small = i % 3 == 0
        boundary = i % 8 == 1
        lay = ai.random_layout(rng, small=small, boundary=boundary)
        n_boundary += 1 if boundary else 0
        reports, hins, pareas = exec_layout(ctx, lay, "r%d" % i, i, cov_shapes)
        add(ai.trace_of_layout(0, lay, reports, hins, small and lay.total() <= 40, pareas),
            {"kind": "layout", "lay": lay, "reports": reports, "src": lay.src})
    def rand_form():
        return {"addr": rng.choice(("rel", "abs", "dotslash", "mixed")), "cwd": rng.choice(("imgdir", "other")),
                "pub": rng.choice(("rel", "abs", "otherdir")),
                "opt": rng.choice(("none", "-v", "--verbose")),
                "spell": rng.choice(("plain", "plain", "dotdot-link-decoy", "dotdot-link-empty", "dotdot-real",
                                     "via-link", "file-link", "slashes", "inner-dot"))}
    n_rs = ctx.pick(48, 1000)
    for i in range(n_rs):
        nimg = rng.randrange(1, 5)
        lays = []
        while len(lays) < nimg:
            if lays and rng.random() < 0.15:
                base = rng.choice(lays)             # another file with the same bytes
                lay = relayout(base, rng)
            else:
                lay = rand_image()
            if not lay.mayrefuse:
                lays.append(lay)
        plan = []
        rdirs = rng.choice(("flat", "samename", "samename", "mixed", "blanks"))
        for _ in range(rng.choice((1, 2, 2, 3))):
            plan.append({"imgs": [rng.randrange(1, nimg + 1) for _ in range(rng.randrange(1, 5))],
                         "pub": rng.choice((1, 2)), "form": rand_form(),
                         "spaces": rng.random() < 0.3})
        t, infos = exec_session(ctx, lays, plan, "r%d" % i, rng, rdirs)
        add(t, {"kind": "session", "lays": lays, "plan": plan, "infos": infos, "src": "random",
                "dirs": rdirs})
    n_ra = ctx.pick(80, 1500)
    fake_sig = "3006020101020101"
    for i in range(n_ra):
        lays = []
        while len(lays) < rng.randrange(1, 4):
            lay = rand_image()
            if not lay.mayrefuse:
                lays.append(lay)
        pre = [{"found": rng.random() < 0.4, "gotiter": rng.randrange(65536),
                "signatures": [fake_sig] if rng.random() < 0.5 else []} for _ in range(2)]
        plan = [{"img": rng.randrange(1, len(lays) + 1),
                 "iter": rng.choice((0, 1, 2, 65535, rng.randrange(65536))),
                 "out": rng.choice((0, 1, 1, 2)), "form": rand_form()}
                for _ in range(rng.randrange(2, 6))]
        rdirs = rng.choice(("flat", "samename", "mixed", "blanks"))
        otherdir = rng.random() < 0.3
        t, infos = exec_auth(ctx, lays, pre, plan, "r%d" % i, rng, rdirs, otherdir)
        add(t, {"kind": "auth", "lays": lays, "pre": pre, "plan": plan, "infos": infos, "src": "random",
                "dirs": rdirs, "otherdir": otherdir})
    res.coverage["random_message_sequences"] = n_ra
    res.coverage["random_layouts"] = n_rand
    res.coverage["random_layouts_with_power_of_two_boundary_lengths"] = n_boundary
    res.coverage["random_sessions"] = n_rs

    # 5. TLC judges every recorded execution (and must reject corrupted copies of accepted ones)
    collect_background()
    flush()
    res.coverage["selftest_corrupted_traces_rejected"] = selftest(jstate["accepted"])
    return res


def selftest(accepted):
    """DESIGN 3.7(a): copies of accepted traces with one observed field corrupted; the trace spec must
    reject each with the named clause (a miss is a machinery failure)."""
    import copy
    lay = next((t for t in accepted if t["kind"] == "layout" and t["small"] and len(t["hins"]) >= 1
                and len(set(t["hins"][0])) >= 2 and all(r["ok"] for r in t["reports"])), None)
    ses = next((t for t in accepted if t["kind"] == "session" and len(t["runs"]) >= 2
                and len(set(t["contents"])) >= 2 and all(r["hashes"] for r in t["runs"])), None)
    aut = next((t for t in accepted if t["kind"] == "auth" and len(t["steps"]) >= 2
                and len(t["expected"]) >= 2), None)
    cases = []

    def corrupt(base, fn, clause, at):
        if base is None:
            return
        t = copy.deepcopy(base)
        fn(t)
        t["id"] = len(cases) + 1
        cases.append((t, (clause, at)))

    def flip(t):
        t["reports"][0]["digest"][5] ^= 1
    corrupt(lay, flip, "DigestOk", 1)

    def swap(t):
        h = t["hins"][0]
        i = next(k for k in range(1, len(h)) if h[k] != h[0])
        h[0], h[i] = h[i], h[0]
    corrupt(lay, swap, "HashInputOk", 0)

    def silent(t):
        t["reports"][1].update(ok=False, digest=[])
    corrupt(lay, silent, "HashReported", 2)

    def sigs(run):
        return [f for f in run["files"] if f["kind"] == "sig" and f["w"]]

    def other_hash(t):
        f = sigs(t["runs"][0])[0]
        f["over"] = 1 + f["over"] % len(t["expected"])
    corrupt(ses, other_hash, "SigVerifies", 1)

    def other_key(t):
        sigs(t["runs"][1])[0]["by"] = t["runs"][0]["gens"][0]
    corrupt(ses, other_key, "SigVerifies", 2)

    def leak(t):
        t["runs"][1]["files"][0]["leak"] = True
    corrupt(ses, leak, "PrivNotWritten", 2)

    def outleak(t):
        t["runs"][0]["outleak"] = True
    corrupt(ses, outleak, "PrivNotWritten", 1)

    def nogen(t):
        t["runs"][1]["gens"] = []
    corrupt(ses, nogen, "KeyFreshPerRun", 2)

    def samekey(t):
        k = t["runs"][0]["gens"][0]
        r = t["runs"][1]
        old = r["gens"][0]
        r["gens"] = [k]
        for f in r["files"]:
            if f["w"] and f["kind"] == "pub":
                f["key"] = k
            if f["w"] and f["kind"] == "sig" and f["by"] == old:
                f["by"] = k
    corrupt(ses, samekey, "KeyFreshPerRun", 2)

    def failed(t):
        t["runs"][0]["exit"] = 1
    corrupt(ses, failed, "Completed", 1)

    def twopubs(t):
        r = t["runs"][0]
        p = next(f for f in r["files"] if f["w"] and f["kind"] == "pub")
        r["files"].append(dict(p, path={"k": "other", "n": 99}))
    corrupt(ses, twopubs, "SinglePub", 1)

    def wronghash(t):
        t["runs"][0]["hashes"][0]["digest"][0] ^= 0x80
    corrupt(ses, wronghash, "DigestOk", 1)
    def stale_hash(t):
        s = t["steps"][1]
        s["hash"] = list(t["expected"][t["contents"][s["img"] - 1] % len(t["expected"])])
    corrupt(aut, stale_hash, "AuthBinds", 2)

    def stale_iter(t):
        t["steps"][1]["gotiter"] = (t["steps"][1]["iter"] + 1) % 65536
    corrupt(aut, stale_iter, "AuthBinds", 2)

    def nothing(t):
        t["steps"][0].update(found=False, hash=[], gotiter=-1)
    corrupt(aut, nothing, "AuthBinds", 1)

    def afail(t):
        t["steps"][0]["exit"] = 1
    corrupt(aut, afail, "AuthCompleted", 1)
    if not cases:
        return 0
    verdicts, _ = tlc.validate("TraceAppImage", "Trace_AppImage.cfg", [t for t, _ in cases], shards=1)
    for t, expect in cases:
        v = verdicts[t["id"]]
        if v["ok"] or (v["clause"], v.get("at")) != expect:
            raise core.MachineryError("trace spec does not reject a corrupted trace as %s: %s" % (expect, v))
    return len(cases)


def relayout(base, rng):
    """Another file for the same image: every area cut again, records in another order."""
    recs = []
    for (z, o, d) in base.areas:
        lin, i = (z << 16) + o, 0
        while i < len(d):
            room = ai.ZONE - ((lin + i) & 0xFFFF)
            n = min(rng.randrange(1, 256), len(d) - i, room)
            recs.append(((lin + i) >> 16, (lin + i) & 0xFFFF, d[i:i + n]))
            i += n
    rng.shuffle(recs)
    records, wz = [], None
    for (z, a, d) in recs:
        if z != wz:
            records.append(("ela", z))
            wz = z
        records.append(("data", a, d))
    records.append(("eof",))
    return ai.Layout(base.areas, records, eol="\n", upper=False, src="random-relayout")


def judge(ctx, res, traces, meta, jstate):
    payload = [{k: v for k, v in t.items()} for t in traces]
    saved = os.environ.get("JAVA_TOOL_OPTIONS")
    os.environ["JAVA_TOOL_OPTIONS"] = " ".join(LIGHT_JVM)
    try:
        verdicts, stats = tlc.validate("TraceAppImage", "Trace_AppImage.cfg", payload,
                                       shards=ctx.pick(6, 10))
    finally:
        if saved is None:
            del os.environ["JAVA_TOOL_OPTIONS"]
        else:
            os.environ["JAVA_TOOL_OPTIONS"] = saved
    res.checker_cmds.append("tlc -workers 1 -config Trace_AppImage.cfg TraceAppImage (x%d shards)" % stats["jvms"])
    accepted, drift = 0, 0
    accepted_traces = jstate["accepted"]
    classes = jstate["classes"]
    for t in traces:
        v = verdicts[t["id"]]
        m = meta[t["id"]]
        if m["kind"] == "layout":
            classes.add("layout " + m["lay"].klass() + " " + m["src"])
        elif m["kind"] == "auth":
            classes.add("auth steps=%d %s" % (len(m["plan"]), m["src"]))
        else:
            classes.add("session runs=%d %s%s" % (len(m["plan"]), m["src"],
                                                  " child" if m["plan"][0].get("child") else ""))
        if v["ok"]:
            accepted += 1
            if (t["kind"] != "layout" or t["small"]) and \
                    sum(1 for x in accepted_traces if x["kind"] == t["kind"]) < 200:
                accepted_traces.append(t)
            if v.get("clause"):
                drift += 1
            continue
        clause, at = v["clause"], v.get("at", -1)
        if clause.startswith("Machinery:") or clause == "Stuck":
            raise core.MachineryError("trace %d (%s): %s at %s -- harness and specification disagree: %s" % (
                t["id"], m["src"], clause, at, json.dumps(replay_data(m))[:600]))
        if m["kind"] == "auth":
            st = t["steps"][at - 1] if 1 <= at <= len(t["steps"]) else {}
            info = m["infos"][at - 1] if 1 <= at <= len(m["infos"]) else {}
            want = t["expected"][t["contents"][st["img"] - 1] - 1] if st else []
            res.violation(auth_signature(clause, at, t, m),
                          "%s at invocation %d of %d (argv %s): exit %s; the authorization %s embeds hash %s "
                          "iteration %s, the image given hashes to %s and iteration %s was asked for; earlier "
                          "invocations: %s" % (
                              clause, at, len(t["steps"]), info.get("argv"), st.get("exit"),
                              "printed" if st.get("out") == 0 else "at the -o path",
                              bytes(st.get("hash", [])).hex() or "<none>", st.get("gotiter"),
                              bytes(want).hex(), st.get("iter"),
                              [[x["img"], x["iter"], x["out"]] for x in t["steps"][:max(at - 1, 0)]]),
                          {"verdict": v, **replay_data(m)})
        elif m["kind"] == "layout":
            via = t["reports"][at - 1]["via"] if 1 <= at <= len(t["reports"]) else "sha256-input"
            rep = m["reports"][at - 1] if 1 <= at <= len(m["reports"]) else {}
            res.violation(layout_signature(clause, via, m["lay"]),
                          "%s: %s for a .hex with %d area(s), %d record(s), %s: expected %s, tool said %s%s" % (
                              clause, via, len(m["lay"].areas), len(m["lay"].records), m["lay"].klass(),
                              bytes(t["expected"]).hex(),
                              bytes(rep.get("digest", [])).hex() or "<nothing>",
                              (" (%s, exit %s)" % (rep.get("exc"), rep.get("exit")) if not rep.get("ok", True) else "")
                              + "; area lengths %s, bytes fed to SHA-256 per call %s" % (
                                  [len(a[2]) for a in m["lay"].areas], t.get("hinlens"))),
                          {"verdict": v, **replay_data(m)})
        else:
            run = t["runs"][at - 1] if 1 <= at <= len(t["runs"]) else {"imgs": []}
            info = m["infos"][at - 1] if 1 <= at <= len(m["infos"]) else {}
            res.violation(session_signature(clause, at, run, m.get("dirs", "flat")),
                          "%s in signonetime run %d of %d (argv %s): exit %s, keys generated %s, files %s%s" % (
                              clause, at, len(t["runs"]), info.get("argv"), run.get("exit"), run.get("gens"),
                              json.dumps([[f["path"]["k"], f["path"]["n"], f["kind"], f["key"], f["by"],
                                           f["over"], f["leak"], f["w"]] for f in run.get("files", [])
                                          if f["path"]["k"] != "img"]),
                              ("; " + "; ".join(info.get("notes", []))) if info.get("notes") else ""),
                          {"verdict": v, **replay_data(m)})
    res.add_validation(stats, accepted)
    res.coverage["model_drift"] = res.coverage.get("model_drift", 0) + drift
    res.coverage["distinct_abstract_classes_hit"] = len(classes)
    res.coverage["traces_total"] = res.coverage.get("traces_total", 0) + len(traces)
    res.coverage["validation_batches"] = res.coverage.get("validation_batches", 0) + 1
    shown = jstate["shown"]
    for t in traces:
        m = meta[t["id"]]
        key = (m["kind"], m["src"])
        if key in shown:
            continue
        shown[key] = 1
        if m["kind"] == "auth":
            res.sample({"source": m["src"], "pre": m["pre"], "plan": m["plan"], "contents": t["contents"],
                        "steps": [[s["img"], s["iter"], s["out"], s["exit"], s["found"],
                                   bytes(s["hash"]).hex(), s["gotiter"]] for s in t["steps"]]}, cap=8)
        elif m["kind"] == "layout":
            res.sample({"source": m["src"], "hex": ai.hex_text(m["lay"])[:400], "class": m["lay"].klass(),
                        "expected": bytes(t["expected"]).hex(),
                        "reports": [[r["via"], r["ok"], bytes(r["digest"]).hex()] for r in t["reports"]]}, cap=8)
        else:
            res.sample({"source": m["src"], "plan": m["plan"], "contents": t["contents"],
                        "runs": [{"gens": r["gens"], "exit": r["exit"],
                                  "files": [[f["path"], f["kind"], f["key"], f["by"], f["over"], f["w"]]
                                            for f in r["files"] if f["path"]["k"] != "img"]}
                                 for r in t["runs"]]}, cap=8)


def replay_data(m):
    if m["kind"] == "layout":
        return {"kind": "layout", "layout": m["lay"].to_json()}
    if m["kind"] == "auth":
        return {"kind": "auth", "layouts": [x.to_json() for x in m["lays"]], "pre": m["pre"], "plan": m["plan"],
                "dirs": m.get("dirs", "flat"), "otherdir": m.get("otherdir", False)}
    return {"kind": "session", "layouts": [x.to_json() for x in m["lays"]], "plan": m["plan"],
            "dirs": m.get("dirs", "flat")}


def replay(ctx, path):
    with open(path) as f:
        data = json.load(f)["replay"]
    ai.install_boundary()
    if data["kind"] == "layout":
        lay = ai.Layout.from_json(data["layout"])
        reports, hins, pareas = exec_layout(ctx, lay, "replay", 0)
        t = ai.trace_of_layout(1, lay, reports, hins, lay.total() <= 40, pareas)
        shown = {"hex": ai.hex_text(lay)[:2000], "expected": bytes(t["expected"]).hex(),
                 "reports": [[r["via"], r["ok"], bytes(r["digest"]).hex()] for r in reports]}
    elif data["kind"] == "auth":
        lays = [ai.Layout.from_json(x) for x in data["layouts"]]
        t, infos = exec_auth(ctx, lays, data["pre"], data["plan"], "replay", ctx.rng,
                             data.get("dirs", "flat"), data.get("otherdir", False))
        t["id"] = 1
        shown = {"pre": data["pre"], "plan": data["plan"], "expected": [bytes(x).hex() for x in t["expected"]],
                 "steps": [dict(s, hash=bytes(s["hash"]).hex()) for s in t["steps"]],
                 "stdout": [i["stdout"] for i in infos]}
    else:
        lays = [ai.Layout.from_json(x) for x in data["layouts"]]
        t, infos = exec_session(ctx, lays, data["plan"], "replay", ctx.rng, data.get("dirs", "flat"))
        t["id"] = 1
        shown = {"plan": data["plan"], "runs": [{k: v for k, v in r.items() if k != "hashes"} for r in t["runs"]],
                 "stdout": [i["stdout"] for i in infos]}
    verdicts, _ = tlc.validate("TraceAppImage", "Trace_AppImage.cfg", [t])
    shown["verdict"] = verdicts[1]
    print(json.dumps(shown, indent=1))
    return 0 if verdicts[1]["ok"] else 1
