"""C09 — bring-up never endangers the device and never serves from an unsafe state.
TLC: Bringup (exhaustive) ; GenBringup (all behaviours) -> replay on the real code -> TraceBringup."""
import json

from .. import bringup, core, tlc

SPEC_NOTE = "spec/BringupProps.tla (observables + properties), spec/Bringup.tla (model), " \
            "spec/TraceBringup.tla (trace validation)"


def signature(clause, d):
    def vclass(v):
        v = tuple(v)
        if v[0] != 5:
            return "othermajor"
        if (v[1], v[2]) == (4, 1):
            return "equal"
        return "older" if (v[1] < 4 or (v[1] == 4 and v[2] < 1)) else "newer"
    r = d["retries"]
    rc = r if r == "err" else ("<2" if r < 2 else ">=2")
    return "%s|plat=%s needchg=%s onb=%s mode1=%s ui=%s echo=%s retries=%s unlock=%s newpin=%s mode2=%s app=%s" % (
        clause, d["plat"], d["needchg"], d["onb"], d["mode1"], vclass(d["uiver"]), d["echo"], rc,
        d["unlock"], d["newpin"], d["mode2"], vclass(d["appver"]))


def execute(ctx, sc, tag, via_server=False):
    world, proto = bringup.build(sc, ctx.scratch, tag)
    if via_server:
        outcome, exc = bringup.run_via_server(proto)
    else:
        outcome, exc = bringup.run_direct(proto)
    log = world.log
    if via_server and outcome == "serve":
        # the probe request (`version`) causes no device exchange; nothing to strip
        pass
    evs = bringup.project(world, sc, log)
    return {"ev": evs, "fin": bringup.final_truth(world, sc), "outcome": outcome,
            "needchg": sc.needchg, "exc": exc, "desc": sc.desc,
            "classes": [e["cls"] for e in evs]}


def optimized_replay(ctx, behaviours):
    """Replays behaviours in a child interpreter started with -O; returns the recorded executions."""
    import os
    import subprocess
    import sys
    src = os.path.join(ctx.scratch, "opt_in.json")
    dst = os.path.join(ctx.scratch, "opt_out.json")
    with open(src, "w") as f:
        json.dump({"seed": ctx.seed, "behaviours": behaviours}, f)
    root = os.path.dirname(os.path.dirname(os.path.dirname(os.path.abspath(__file__))))
    p = subprocess.run([sys.executable, "-O", "-c",
                        "from harness.drivers import c09; c09.opt_worker(%r, %r)" % (src, dst)],
                       cwd=root, env=dict(os.environ, PYTHONDONTWRITEBYTECODE="1"),
                       stdout=subprocess.PIPE, stderr=subprocess.STDOUT, text=True, timeout=1800)
    if p.returncode != 0 or not os.path.exists(dst):
        raise core.MachineryError("replay under python -O failed: %s" % p.stdout[-800:])
    with open(dst) as f:
        return json.load(f)


def opt_worker(src, dst):
    import random
    import sys
    if sys.flags.optimize < 1:
        raise SystemExit("not an optimized interpreter")
    with open(src) as f:
        job = json.load(f)
    from .. import env
    env.setup()
    ctx = core.Ctx("C09", "quick", job["seed"])
    ctx.rng = random.Random("C09:opt:%d" % job["seed"])
    out = []
    try:
        for k, b in enumerate(job["behaviours"]):
            sc = bringup.scenario_from_env(b["plat"], b["needchg"], b["env"], ctx.rng)
            out.append(execute(ctx, sc, "o%d" % k))
    finally:
        ctx.cleanup()
    with open(dst, "w") as f:
        json.dump(out, f)


def random_env(rng):
    """Binding B: device configurations drawn from the concrete domains (version bytes 0..255,
    retries 0..255), biased towards the neighbourhood of 5.4.1."""
    def ver():
        if rng.random() < 0.6:
            return [rng.choice((4, 5, 5, 5, 6)), rng.choice((0, 3, 4, 4, 5, 255)), rng.choice((0, 1, 1, 2, 255))]
        return [rng.randrange(256), rng.randrange(256), rng.randrange(256)]
    return {
        "onb": rng.choice(["yes", "yes", "yes", "no", "err"]),
        "mode1": rng.choice(["boot", "boot", "signer", "signer", "uihb", "unknown", "other"]),
        "uiver": ver(), "appver": ver(),
        "echo": rng.choice(["t", "t", "t", "f"]),
        "retries": rng.choice([0, 1, 2, 3, 255, 999, rng.randrange(256)]),
        "unlock": rng.choice(["t", "t", "f"]),
        "newpin": rng.choice(["ack", "refuse", "err"]),
        "mode2": rng.choice(["signer", "signer", "boot", "uihb", "unknown", "other"]),
    }


def run(ctx):
    res = core.Result()
    res.assumptions = [
        "device simulator follows the firmware's host-visible protocol as read (DESIGN.md App. E)",
        "bitcoin.core stand-in is loaded (imports only; not exercised by bring-up)",
        "'serving' = initialize_device() returned, and for a sampled subset an actual answer over a "
        "real loopback socket through TCPServer.run",
        "device answers GET_PARAMETERS correctly (the property's premise: a well-behaved device)",
    ]
    # 1. design check, exhaustive
    r = tlc.check("Bringup", "MC_Bringup.cfg", coverage=True, workers=4)
    if r.violated:
        raise core.MachineryError("Bringup model violates %s — model and property disagree; "
                                  "replay against the code before reporting" % r.violated)
    res.add_tlc(r, "MC_Bringup exhaustive")
    counts = r.action_counts()
    never = [a for a in ("Connect", "AskOnb", "AskMode", "AskUiVer", "Echo", "AskRetries", "Unlock",
                         "NewPin", "ExitMenu", "AskMode2", "AskAppVer", "Params")
             if counts.get(a, 0) == 0]
    if never:
        raise core.MachineryError("vacuity: actions never taken: %s" % never)
    rn = tlc.run("Bringup", "Neg_Bringup.cfg", workers=2)
    if "NeverServes" not in rn.violated:
        raise core.MachineryError("vacuity guard: the model never serves")
    res.coverage["uncovered_actions"] = never
    # 2. all behaviours of the model
    behaviours, rg = tlc.generate("GenBringup", "Gen_Bringup.cfg")
    res.add_tlc(rg, "Gen_Bringup behaviours")
    res.coverage["behaviours_generated"] = len(behaviours)
    # 3. replay on the real code
    traces, meta = [], {}
    order = list(range(len(behaviours)))
    ctx.rng.shuffle(order)
    n_server = ctx.pick(40, 400)
    drift = 0
    for k, bi in enumerate(order):
        b = behaviours[bi]
        sc = bringup.scenario_from_env(b["plat"], b["needchg"], b["env"], ctx.rng)
        t = execute(ctx, sc, "b%d" % bi, via_server=(k < n_server))
        t["id"] = len(traces) + 1
        t["src"] = "model-behaviour"
        if t["outcome"] != b["outcome"] or [c for c in t["classes"]] != [h for h in b["hist"] if h not in ("open", "close")]:
            drift += 1
            t["drift"] = {"model_outcome": b["outcome"], "model_hist": b["hist"]}
        traces.append(t)
    res.coverage["behaviours_replayed"] = len(order)
    # 3b. the same behaviours once more in an interpreter started with -O (assert statements compiled away, as
    # PYTHONOPTIMIZE=1 in the manager's environment does)
    opt = optimized_replay(ctx, [behaviours[bi] for bi in order])
    for t in opt:
        t["id"] = len(traces) + 1
        t["src"] = "model-behaviour, python -O"
        t["desc"] = dict(t["desc"], interpreter="-O")
        traces.append(t)
    res.coverage["behaviours_replayed_under_python_O"] = len(opt)
    res.coverage["replayed_through_TCPServer_run"] = min(n_server, len(order))
    res.coverage["model_drift"] = drift
    # 4. random configurations (binding B)
    n_rand = ctx.pick(600, 20000)
    for i in range(n_rand):
        e = random_env(ctx.rng)
        plat = ctx.rng.choice(["ledger", "ledger", "sgx", "tcp"])
        needchg = ctx.rng.choice(["t", "f"])
        sc = bringup.scenario_from_env(plat, needchg, e, ctx.rng)
        t = execute(ctx, sc, "r%d" % i)
        t["id"] = len(traces) + 1
        t["src"] = "random"
        traces.append(t)
    res.coverage["random_configurations"] = n_rand
    # 5. TLC judges every recorded execution
    payload = [{"id": t["id"], "ev": t["ev"], "fin": t["fin"], "outcome": t["outcome"],
                "needchg": t["needchg"]} for t in traces]
    verdicts, stats = tlc.validate("TraceBringup", "Trace_Bringup.cfg", payload)
    res.checker_cmds.append("tlc -workers 1 -config Trace_Bringup.cfg TraceBringup (x%d shards)" % stats["jvms"])
    accepted = 0
    classes = set()
    for t in traces:
        v = verdicts[t["id"]]
        classes.add(signature("", t["desc"]))
        if v["ok"]:
            accepted += 1
        else:
            res.violation(signature(v["clause"], t["desc"]),
                          "bring-up violates %s at event %s: device %s, outcome %s" % (
                              v["clause"], v.get("at"), json.dumps(t["desc"], sort_keys=True), t["outcome"]),
                          {"scenario": t["desc"], "events": t["ev"], "outcome": t["outcome"],
                           "verdict": v})
    res.add_validation(stats, accepted)
    from .. import manager_phase
    manager_phase.run_phase(ctx, res, "C09")
    res.coverage["distinct_abstract_classes_hit"] = len(classes)
    for t in traces[:2] + traces[-2:]:
        res.sample({"scenario": t["desc"], "apdu_classes": t["classes"], "outcome": t["outcome"],
                    "exception": t["exc"], "source": t["src"]})
    return res


def replay(ctx, path):
    with open(path) as f:
        data = json.load(f)
    d = data["replay"]["scenario"]
    e = {k: d[k] for k in ("onb", "mode1", "uiver", "appver", "echo", "unlock", "newpin", "mode2")}
    e["retries"] = 999 if d["retries"] == "err" else d["retries"]
    sc = bringup.scenario_from_env(d["plat"], d["needchg"], e, ctx.rng)
    t = execute(ctx, sc, "replay")
    t["id"] = 1
    verdicts, _ = tlc.validate("TraceBringup", "Trace_Bringup.cfg",
                               [{"id": 1, "ev": t["ev"], "fin": t["fin"], "outcome": t["outcome"],
                                 "needchg": t["needchg"]}])
    print(json.dumps({"scenario": t["desc"], "classes": t["classes"], "outcome": t["outcome"],
                      "exception": t["exc"], "verdict": verdicts[1]}, indent=1))
    return 0 if verdicts[1]["ok"] else 1
