"""C13 — query replies report the device's data verbatim.
TLC: Queries (wiring of middleware tables against the firmware's identifiers; uiHeartbeat mode machine) ;
all mode-transition behaviours replayed ; random device states through the real stack ; TraceQueries judges
every reply field against the device's ground truth."""
import json
import random

from .. import core, mgr, reqs, signx, tlc
from ..simdev import SimDevice, MODE_SIGNER, MODE_UIHB, MODE_BOOT, PATHS, PATH_BYTES, der_sig
from ..transport import install

HASH_NAMES = {1: "best_block", 2: "newest_valid_block", 3: "ancestor_block", 5: "ancestor_receipts_root",
              129: "updating.best_block", 130: "updating.newest_valid_block", 132: "updating.next_expected_block"}
FLAG_NAMES = ["updating.in_progress", "updating.already_validated", "updating.found_best_block"]
MODEB = {"signer": MODE_SIGNER, "uihb": MODE_UIHB, "boot": MODE_BOOT, "unknown": 0xFF}


def rb(rng, n):
    return bytes(rng.getrandbits(8) for _ in range(n))


def random_sig(rng):
    rl = rng.choice([1, 8, 20, 31, 32, 33])
    sl = rng.choice([1, 8, 31, 32, 33])
    r, s = rb(rng, rl), rb(rng, sl)
    if sl > 2 and rng.random() < 0.15:
        s = s[:-2] + b"\x90\x00"
    first = rng.choice([0x30, 0x30, 0x31])
    trailing = rb(rng, rng.choice([0, 0, 0, 2]))
    return der_sig(r, s, first=first, trailing=trailing)


def bval(rng, n):
    """n bytes, boundary shapes first: a value that is re-derived (through an integer, a C string, text) instead
    of passed through loses leading / trailing zeros, stops at a NUL, or changes case or sign."""
    k = rng.random()
    if k < 0.55 or n < 2:
        return rb(rng, n)
    return rng.choice([bytes(n), b"\xff" * n, b"\x00" + rb(rng, n - 1), b"\x00\x00" + rb(rng, n - 2),
                       rb(rng, n - 1) + b"\x00", b"\x80" + rb(rng, n - 1), rb(rng, n // 2) + b"\x00" + rb(rng, n - n // 2 - 1),
                       bytes(rng.choice(b"0123456789abcdefABCDEF") for _ in range(n)), b"\x0a" + rb(rng, n - 1),
                       rb(rng, n - 1) + b"\x0a", b"\x20" + rb(rng, n - 2) + b"\x20",
                       # values ending like a status word (a transport layer that trims "its" trailer)
                       rb(rng, n - 2) + b"\x90\x00", rb(rng, n - 2) + b"\x90\x00", rb(rng, n - 2) + b"\x6a\x87",
                       rb(rng, n - 2) + b"\x61\x00"])


def random_device(rng):
    d = SimDevice(mode=MODE_SIGNER, seed=rng.random())
    for i in HASH_NAMES:
        d.state_hashes[i] = bval(rng, 32)
    d.state_diff = rng.choice([b"", b"\x01", b"\xff" * 36, rb(rng, rng.randint(1, 36)), b"\x00\x00" + rb(rng, 5),
                               bytes(36)])
    d.state_flags = bytes(rng.choice([0, 1]) for _ in range(3))
    mind = rng.choice([bytes(36), b"\xff" * 36, bytes(30) + rb(rng, 6), rb(rng, 36)])
    d.params = bval(rng, 32) + mind + bytes([rng.choice([1, 2, 3])])
    for pb in PATH_BYTES.values():
        d.keys[pb] = b"\x04" + bval(rng, 64)
    for hb in (d.hb, d.uihb):
        hb["sig"] = random_sig(rng)
        hb["msg"] = bval(rng, rng.choice([1, 2, 31, 32, 33, 64, 80, 81, 120, rng.randint(1, 120)]))
        hb["hash"] = bval(rng, 32)
        hb["pub"] = b"\x04" + bval(rng, 64)
    return d


def to36(v):
    if isinstance(v, bool):
        return False, []
    if isinstance(v, str):
        try:
            v = int(v, 16) if v else 0
        except ValueError:
            return False, []
    if not isinstance(v, int) or v < 0 or v >= 2 ** 288:
        return False, []
    return True, list(v.to_bytes(36, "big"))


def hexb(v):
    try:
        return list(bytes.fromhex(v))
    except Exception:
        return [256]      # not a byte string: equal to nothing


def flag(v):
    return [1] if v is True else [0] if v is False else [2]


def empty_reply():
    return {"hashes": {n: [] for n in HASH_NAMES.values()}, "total_difficulty": [], "numok": True,
            "flags": {n: [] for n in FLAG_NAMES}, "checkpoint": [], "minimum_difficulty": [], "network": "",
            "pubKey": [], "message": [], "tweak": [], "r": [], "s": []}


def empty_dev():
    return {"hashes": {n: [] for n in HASH_NAMES.values()}, "difficulty36": [], "flags": [[], [], []],
            "checkpoint": [], "mindiff36": [], "network": 0, "pub": [], "msg": [], "hash": [], "r": [], "s": []}


def project(cmd, req, rep, d, path_key=None):
    code = rep.get("errorcode") if isinstance(rep, dict) else None
    t = {"cmd": cmd, "code": code if isinstance(code, int) else 99, "healthy": True, "finalmode": "",
         "reply": empty_reply(), "dev": empty_dev()}
    r, dv = t["reply"], t["dev"]
    if cmd == "getPubKey":
        dv["pub"] = list(d.keys[PATH_BYTES[path_key]])
        r["pubKey"] = hexb(rep.get("pubKey", "zz"))
    elif cmd == "blockchainState":
        st = rep.get("state", {}) if isinstance(rep.get("state"), dict) else {}
        up = st.get("updating", {}) if isinstance(st.get("updating"), dict) else {}
        for i, n in HASH_NAMES.items():
            dv["hashes"][n] = list(d.state_hashes[i])
            src = up if n.startswith("updating.") else st
            r["hashes"][n] = hexb(src.get(n.split(".")[-1], "zz"))
        dv["difficulty36"] = list(int.from_bytes(d.state_diff, "big").to_bytes(36, "big"))
        ok, v = to36(up.get("total_difficulty"))
        r["numok"], r["total_difficulty"] = ok, v
        for k, n in enumerate(FLAG_NAMES):
            dv["flags"][k] = [1] if d.state_flags[k] else [0]
            r["flags"][n] = flag(up.get(n.split(".")[-1]))
    elif cmd == "blockchainParameters":
        p = rep.get("parameters", {}) if isinstance(rep.get("parameters"), dict) else {}
        dv["checkpoint"] = list(d.params[:32])
        dv["mindiff36"] = list(d.params[32:68])
        dv["network"] = d.params[68]
        r["checkpoint"] = hexb(p.get("checkpoint", "zz"))
        ok, v = to36(p.get("minimum_difficulty"))
        r["numok"], r["minimum_difficulty"] = ok, v
        r["network"] = p.get("network") if isinstance(p.get("network"), str) else "?"
    elif cmd in ("signerHeartbeat", "uiHeartbeat"):
        hb = d.hb if cmd == "signerHeartbeat" else d.uihb
        ok, rr, ss = signx.split_der(hb["sig"])
        dv.update(pub=list(hb["pub"]), msg=list(hb["msg"]), hash=list(hb["hash"]), r=list(rr), s=list(ss))
        sg = rep.get("signature", {}) if isinstance(rep.get("signature"), dict) else {}
        r.update(pubKey=hexb(rep.get("pubKey", "zz")), message=hexb(rep.get("message", "zz")),
                 tweak=hexb(rep.get("tweak", "zz")), r=hexb(sg.get("r", "zz")), s=hexb(sg.get("s", "zz")))
    return t


def run(ctx):
    res = core.Result()
    res.assumptions = [
        "device data are identified by the firmware's own selectors (bc_state.h hash ids, dump_flags order, "
        "bc_nu.h network ids, heartbeat ops); reply field names are those of docs/protocol.md",
        "numbers are compared as 36-byte big-endian values (an integer or a hex string are both accepted as "
        "representation of the same unsigned number)",
        "uiHeartbeat: the device is in signer mode when the request arrives (the manager only serves then)",
    ]
    r = tlc.check("Queries", "MC_Queries.cfg", workers=2, coverage=True)
    if r.violated:
        raise core.MachineryError("Queries model violates %s" % r.violated)
    res.add_tlc(r, "MC_Queries wiring + uiHeartbeat mode machine")
    rn = tlc.run("Queries", "Neg_Queries.cfg", workers=2)
    if "NeverOk" not in rn.violated:
        raise core.MachineryError("vacuity guard: uiHeartbeat never succeeds in the model")
    beh, rg = tlc.generate("GenQueries", "Gen_Queries.cfg")
    res.add_tlc(rg, "Gen_Queries mode-transition behaviours")
    res.coverage["behaviours_generated"] = len(beh)
    traces, info = [], {}
    drift = 0

    def add(t, desc):
        t["id"] = len(traces) + 1
        traces.append(t)
        info[t["id"]] = desc

    # uiHeartbeat mode transitions
    for b in beh:
        for rep_i in range(ctx.pick(6, 40)):
            d = random_device(ctx.rng)
            trail = list(b["trail"])
            hbend = next((x for x in trail if x in ("ok", "errorresult", "dongleerror", "timeout")), None)
            exits = [x for x in trail if x.split("+")[0] in MODEB]
            d.exit_modes = [MODEB[m.split("+")[0]] for m in exits]
            d.exit_drops = [None if m.endswith("+kept") else ctx.rng.choice(["read", "write"]) for m in exits]
            world, proto = mgr.serving_manager(device=d)
            req, st = reqs.make("uiHeartbeat", ctx.rng)
            if hbend in ("errorresult", "dongleerror", "timeout"):
                # the heartbeat exchanges are indices 3..7 of the command (mode, exit, mode, 5 x hbt)
                idx = 3 + ctx.rng.randrange(5)
                fault = {"errorresult": ("sw", ctx.rng.choice([0x6B10, 0x6B11, 0x6A99, 0x69A0, 0x6D00])),
                         "dongleerror": ("sw", ctx.rng.choice([0x6E00, 0x6F01, 0x6200])),
                         "timeout": ("timeout",)}[hbend]
                world.reset_counters()
                world.faults = {idx: fault}
            o = mgr.handle_line(proto, json.dumps(req).encode())
            rp = o.reply() or {}
            t = project("uiHeartbeat", req, rp, d)
            t["finalmode"] = {MODE_SIGNER: "signer", MODE_UIHB: "uihb", MODE_BOOT: "boot"}.get(d.mode, "unknown")
            if t["code"] != b["code"] or t["finalmode"] != b["final"]:
                drift += 1
            add(t, {"src": "model", "trail": trail, "code": t["code"], "final": t["finalmode"]})
    res.coverage["behaviours_replayed"] = len(traces)
    # random device states through every query
    n_rand = ctx.pick(150, 6000)
    for i in range(n_rand):
        d = random_device(ctx.rng)
        version = 1 if ctx.rng.random() < 0.1 else 2
        world, proto = mgr.serving_manager(device=d, version=version)
        cmds = ["getPubKey"] * 2 + (["blockchainState", "blockchainParameters", "signerHeartbeat", "uiHeartbeat"]
                                     if version == 2 else [])
        for cmd in cmds:
            install(world)
            req, st = reqs.make(cmd, ctx.rng, 5 if version == 2 else 1)
            o = mgr.handle_line(proto, json.dumps(req).encode())
            rp = o.reply() or {}
            t = project(cmd, req, rp, d, st.get("key"))
            if cmd == "uiHeartbeat" and False:
                pass
            if cmd == "uiHeartbeat":
                t["finalmode"] = {MODE_SIGNER: "signer", MODE_UIHB: "uihb", MODE_BOOT: "boot"}.get(d.mode, "unknown")
            add(t, {"src": "random", "cmd": cmd, "version": version, "code": t["code"]})
    # one long-lived manager, the device's data changing under it between queries (Ledger and SGX/TCP
    # transports): every reply must report what the device holds NOW
    n_seq = ctx.pick(40, 1500)
    for i in range(n_seq):
        platform = "ledger" if i % 2 == 0 else "sgx"
        d = random_device(ctx.rng)
        d.platform = platform
        world, proto = mgr.serving_manager(device=d, platform=platform)
        for step in range(3):
            cmds = ["getPubKey", "blockchainState", "blockchainParameters"] + \
                   (["signerHeartbeat"] if platform == "ledger" else [])
            ctx.rng.shuffle(cmds)
            for cmd in cmds:
                install(world)
                req, st = reqs.make(cmd, ctx.rng)
                o = mgr.handle_line(proto, json.dumps(req).encode())
                rp = o.reply() or {}
                t = project(cmd, req, rp, d, st.get("key"))
                add(t, {"src": "sequence", "cmd": cmd, "platform": platform, "step": step, "code": t["code"]})
            # the device moves on: new blockchain state, another firmware's parameters, other keys ...
            fresh = random_device(ctx.rng)
            d.state_hashes, d.state_diff, d.state_flags = fresh.state_hashes, fresh.state_diff, fresh.state_flags
            d.params, d.keys, d.hb = fresh.params, fresh.keys, fresh.hb
            if step == 1 and ctx.rng.random() < 0.5:
                # ... possibly across a link failure and the repair that follows it
                world.reset_counters()
                world.faults = {0: (ctx.rng.choice(["write", "read"]),)}
                mgr.handle_line(proto, json.dumps(reqs.make("getPubKey", ctx.rng)[0]).encode())
                world.reset_counters()
                if ctx.rng.random() < 0.5:
                    # ... and a second failure while the first is being repaired: the repair cut short by a time-out at
                    # its mode / version / parameters exchange (the queries that follow must be served after a full repair)
                    world.faults = {ctx.rng.choice([1, 2, 3]): ("timeout",)}
                    mgr.handle_line(proto, json.dumps(reqs.make("getPubKey", ctx.rng)[0]).encode())
                    world.reset_counters()
                    world.faults = {}
    # uiHeartbeat histories on one long-lived manager: heartbeats cut short, retried while the device still sits in the
    # heartbeat app, power cycles and repairs in between - every heartbeat that *starts in the signer on a healthy
    # device* is judged like a first one (back in the signer with the device's data, or a device error)
    n_hist = ctx.pick(30, 800)
    n_judged = 0
    for i in range(n_hist):
        d = random_device(ctx.rng)
        world, proto = mgr.serving_manager(device=d)
        for step in range(ctx.rng.randint(5, 9)):
            install(world)
            act = ctx.rng.choice(["uihb", "uihb", "uihb_cut", "power_cycle", "query", "uihb_as_is"])
            world.reset_counters()
            if act == "power_cycle":
                # the device restarts into the signer; the manager learns of it through a dead link
                d.mode = MODE_SIGNER
                d.exit_modes, d.exit_drops = [], []
                world.faults = {0: (ctx.rng.choice(["write", "read"]),)}
                mgr.handle_line(proto, json.dumps(reqs.make("getPubKey", ctx.rng)[0]).encode())
                world.reset_counters()
                mgr.handle_line(proto, json.dumps(reqs.make("getPubKey", ctx.rng)[0]).encode())
                continue
            if act == "query":
                req, st = reqs.make("getPubKey", ctx.rng)
                o = mgr.handle_line(proto, json.dumps(req).encode())
                if d.mode == MODE_SIGNER and not proto._comm_issue:
                    add(project("getPubKey", req, o.reply() or {}, d, st.get("key")),
                        {"src": "uihb-history", "cmd": "getPubKey", "step": step})
                continue
            start = d.mode
            pending = proto._comm_issue
            if act == "uihb_cut":
                world.faults = {ctx.rng.randrange(2, 9): ("timeout",)}
            d.exit_modes, d.exit_drops = [], []
            req, st = reqs.make("uiHeartbeat", ctx.rng)
            o = mgr.handle_line(proto, json.dumps(req).encode())
            if act == "uihb" and start == MODE_SIGNER and not pending:
                t = project("uiHeartbeat", req, o.reply() or {}, d)
                t["finalmode"] = {MODE_SIGNER: "signer", MODE_UIHB: "uihb", MODE_BOOT: "boot"}.get(d.mode, "unknown")
                add(t, {"src": "uihb-history", "cmd": "uiHeartbeat", "step": step, "code": t["code"]})
                n_judged += 1
    # a long run on one manager: over a thousand connections (every uiHeartbeat re-opens the link twice), the
    # device's data moving on all the time - every heartbeat and every query judged like a first one
    d = random_device(ctx.rng)
    world, proto = mgr.serving_manager(device=d)
    n_long = ctx.pick(560, 2500)
    for k in range(n_long):
        install(world)
        world.reset_counters()
        d.exit_modes, d.exit_drops = [], []
        req, st = reqs.make("uiHeartbeat", ctx.rng)
        o = mgr.handle_line(proto, json.dumps(req).encode())
        t = project("uiHeartbeat", req, o.reply() or {}, d)
        t["finalmode"] = {MODE_SIGNER: "signer", MODE_UIHB: "uihb", MODE_BOOT: "boot"}.get(d.mode, "unknown")
        add(t, {"src": "long-run", "cmd": "uiHeartbeat", "n": k + 1, "code": t["code"]})
        if d.mode != MODE_SIGNER or o.shutdown:
            # (the property was broken just now and has been recorded; go on with a fresh manager)
            d = random_device(ctx.rng)
            world, proto = mgr.serving_manager(device=d)
            continue
        if k % 5 == 0:
            cmd = ctx.rng.choice(["getPubKey", "blockchainState", "blockchainParameters", "signerHeartbeat"])
            req, st = reqs.make(cmd, ctx.rng)
            o = mgr.handle_line(proto, json.dumps(req).encode())
            add(project(cmd, req, o.reply() or {}, d, st.get("key")), {"src": "long-run", "cmd": cmd, "n": k + 1})
            fresh = random_device(ctx.rng)
            d.state_hashes, d.state_diff, d.state_flags = fresh.state_hashes, fresh.state_diff, fresh.state_flags
            d.params, d.keys, d.hb = fresh.params, fresh.keys, fresh.hb
    res.coverage["long_run_ui_heartbeats"] = n_long
    res.coverage["ui_heartbeat_histories"] = n_hist
    res.coverage["ui_heartbeats_judged_in_histories"] = n_judged
    res.coverage["device_change_sequences"] = n_seq
    res.coverage["random_device_states"] = n_rand
    res.coverage["model_drift"] = drift
    verdicts, stats = tlc.validate("TraceQueries", "Trace_Queries.cfg", traces, shards=12)
    res.checker_cmds.append("tlc -workers 1 -config Trace_Queries.cfg TraceQueries (x%d shards)" % stats["jvms"])
    accepted = 0
    for t in traces:
        v = verdicts[t["id"]]
        if v["ok"]:
            accepted += 1
            continue
        inf = info[t["id"]]
        res.violation("%s|%s" % (v["clause"], t["cmd"]), "%s in %s: %s" % (v["clause"], t["cmd"], json.dumps(inf)),
                      {"info": inf, "code": t["code"], "finalmode": t["finalmode"]})
    res.add_validation(stats, accepted)
    res.sample({"info": info[1]})
    res.sample({"info": info[len(traces)], "reply_fields": {k: (len(v) if isinstance(v, list) else v)
                                                              for k, v in traces[-1]["reply"].items() if not isinstance(v, dict)}})
    return res


def replay(ctx, path):
    with open(path) as f:
        print(json.dumps(json.load(f)["replay"], indent=1)[:2000])
    print("re-run ./check C13 with the same VERIF_SEED to reproduce")
    return 1
