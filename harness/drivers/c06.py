"""C06 — a Ledger (version-1) attestation certificate is accepted only if every link up to the root key
verifies.  TLC: CertChain (exhaustive, lazy environment) ; GenCertChain (all behaviours) -> REAL
certificates (harness/certv1.py) -> real HSMCertificate...validate_and_get_values -> TraceCertChain
judges every result map against the reference semantics `SpecVerdict`."""
import json

from .. import certchain, core, tlc, wdpool

ACTIONS = ("DecideBy", "DecideLink", "DecideRoot", "PEnter", "PStep", "VEnter", "VBuild", "VCheck", "NextOp")
KINDS = ("sigOtherKey", "sigFlip", "sigSwap", "msgFlipKey", "msgFlipOther", "keySubst", "tweakFlip",
         "tweakRemove", "tweakAdd", "reparent", "wrongRoot")


def _dict(x):
    return x if isinstance(x, dict) else {}


def bclass(b):
    """Abstract class of a model behaviour (selection of the quick subset, coverage, signatures)."""
    link = _dict(b["link"])
    corr = sorted(l["corr"] for l in link.values() if l["corr"] not in ("ok", "swapped"))
    if b["rootkey"] == "k_x":
        corr.append("wrongRoot")
    res = _dict(b["result"])
    verdicts = []
    by = _dict(b["by"])
    for t in b["targets"]:
        if t in res:
            depth, n = 1, t
            while by.get(n) not in ("root", None) and depth < 6:
                n = by[n]
                depth += 1
            r = res[t]
            fail = "valid"
            if not r["valid"]:
                d, n = 1, t
                while n != r["name"] and d < 6:
                    n = by[n]
                    d += 1
                fail = "fail@%d" % (depth - d + 1)      # 1 = topmost element
            verdicts.append("d%d:%s" % (depth, fail))
    tw = sorted({("tw" if l["tw"] != "none" else "plain") for l in link.values()})
    shapes = sorted("%s:%s" % (sh, n if n == "device" else "other")
                    for n, sh in _dict(b.get("shape")).items() if sh != "canon")
    return "%s|%s|%s|%s|%s|%s" % (b["phase"], "+".join(corr) or "none", ",".join(verdicts) or "-",
                                  "/".join(tw) or "-", "+".join(shapes) or "canon", b.get("spell", "ok"))


def tsig(clause, t):
    """Stable abstract signature of a rejected trace."""
    els = sorted("%s<-%s" % (e["name"], e["by"] if e["by"] in certchain.NAMES + ("root",) else "ghost")
                 for e in t["els"])
    kinds = sorted({c[0] for c in t["plan"]["corrs"]})
    return "C06|%s|%s|graph=%s|corr=%s" % (clause, t["plan"]["src"], ",".join(els), "+".join(kinds) or "none")


def run_plans(ctx, plans, nproc):
    jobs = [(p, ctx.scratch) for p in plans]
    # (a long run is hundreds of certificates in one process: it gets the time of that many)
    scale = [max(1, p["longrun"]["n"] // 4) if "longrun" in p else 1 for p in plans]
    results = wdpool.run_jobs(certchain.execute_any, jobs, nproc=nproc, budget=2.0, retry_budget=10.0, max_hangs=6,
                              scale=scale)
    traces, extras = [], []
    for p, r in zip(plans, results):
        if r["status"] == "skipped":
            traces.append(None)
            continue
        if r["status"] == "ok":
            t = r["value"]
        elif r["status"] == "hang":
            ch = certchain.build_plan(p)
            t = certchain.trace_of(ch, {"outcome": "hang", "err": "no answer within %ss" % r["budget"], "res": []})
        else:
            raise core.MachineryError("C06 worker failed on plan %s: %s" % (json.dumps(p)[:300], r["detail"]))
        t["plan"] = p
        also = t.pop("also", None)
        traces.append(t)
        if also is not None:        # the answer changed after the object had been asked about another root
            also["plan"] = dict(p, requery=True)
            extras.append(also)
        if "longrun_counts" in t:
            results.stats["longrun"] = t.pop("longrun_counts")
        for k, m in enumerate(t.pop("more", None) or []):
            # further observations of the same plan: later validations of a history, or an answer that
            # changed when the same question was asked again
            m["plan"] = dict(p, observation=k + 2, step=m.get("step", "asked again"))
            extras.append(m)
    # appended after the plan-aligned traces so that positions keep matching the plans
    return traces + extras, results.stats


def run(ctx):
    res = core.Result()
    res.assumptions = [
        "perfect cryptography (DESIGN 3.3): keys / messages / tweaks are ids, equal iff the bytes are equal; "
        "nothing is claimed about forgery, malleability (high-S signatures are not generated) or collisions",
        "value of a valid target = the part of its signed message that the format defines as its value "
        "(device: last 65 bytes, attestation: all but the first byte, ui / signer: the whole message); the "
        "expected bytes come from the builder's structured input, not from repository code",
        "an element certifies with the key that its WHOLE value is (33-byte compressed or 65-byte point); a "
        "value that merely contains a key (over-long with the key at the tail or head, truncated, padded) is "
        "not a key: whatever such an element 'certifies' is refused, although it is itself valid and reports "
        "its whole value; message shapes longHead / short / sliced are one abstract class and are all run",
        "the root key is the key, however it is encoded: 40 % of the ordinary certificates are validated with the "
        "root (right or wrong) handed to HSMCertificateRoot in compressed form; the reference verdict is that of "
        "the key (CertChainProps: RootEncodings)",
        "the reported tweak (3rd component) is not part of the property text: a mismatch is counted as "
        "tweak_report_drift, not as a violation",
        "elements and links that the model's program never reads are filled with seeded random content "
        "(exhaustive over what is read, sampled over what is not)",
        "spelling of hex fields: the file's spelling is an environment choice; every accepted member (upper / "
        "mixed case, blanks before, after and between byte pairs, tabs, trailing newline) must give the verdicts "
        "and values of the canonical spelling, and a well-formed certificate so written must load; every member of "
        "both classes is run on every hex field of every element of one chain, and 30 % of all other certificates "
        "carry one seeded accepted re-spelling; files with a refused spelling are only required not to hang",
        "keys and signatures are made with textbook ECDSA (RFC 6979, low-S DER) over python-ecdsa's curve "
        "arithmetic, tweaks with hmac/hashlib; the code under test verifies with libsecp256k1; the thorough "
        "tier draws keys from a per-run population of 64 fresh keys",
    ]
    nproc = ctx.pick(4, 8)
    # 1. design checks -----------------------------------------------------------------------
    # quick: the 1-target configuration is checked (same constants, all invariants) by the generation run
    # (quick: the history configuration is checked, with all invariants and Terminates, by its generation run)
    hist = ctx.pick([],
                    [("MCH_CertChain.cfg", "MCH_CertChain: histories - a loaded object, then <=3 further operations"),
                     ("MCHB_CertChain.cfg", "MCHB_CertChain: histories - object built step by step, <=4 operations")])
    runs = hist + ctx.pick([("MCL_CertChain2.cfg", "MCL_CertChain2: <=2 targets, <=1 corruption (reduced kinds), <=1 over-long message; "
                                            "invariants + Terminates under WF (no state constraint)")],
                    [("MC_CertChain.cfg", "MC_CertChain: 1 target, <=1 corruption (all kinds), <=1 certifier with a shaped message"),
                     ("MC_CertChain2.cfg", "MC_CertChain2: <=2 targets, <=1 corruption (reduced kinds), <=1 over-long message"),
                     ("MCS_CertChain.cfg", "MCS_CertChain: 1 target, <=1 corruption, <=2 shaped messages (5 shapes), also on the "
                                           "corrupted element"),
                     ("MCT_CertChain.cfg", "MCT_CertChain: <=2 targets, <=2 corruptions, all kinds, canonical messages")])
    counts = {}
    for cfg, label in runs:
        r = tlc.check("CertChain", cfg, coverage=True, workers=ctx.pick(4, 8))
        if r.violated:
            raise core.MachineryError("CertChain model violates %s under %s - model and reference semantics "
                                      "disagree; replay against the code before reporting" % (r.violated, cfg))
        res.add_tlc(r, label)
        for a, c in r.action_counts().items():
            counts[a] = max(counts.get(a, 0), c)
    never = [a for a in ACTIONS if counts.get(a, 0) == 0 and not (ctx.quick and a == "NextOp")]
    if never:
        raise core.MachineryError("vacuity: actions never taken: %s" % never)
    res.coverage["uncovered_actions"] = never
    if not ctx.quick:       # (quick: termination is part of the MCL run above)
        rl = tlc.check("CertChain", "Live_CertChain.cfg", workers=4)
        if rl.violated:
            raise core.MachineryError("CertChain: termination / step bound violated: %s" % rl.violated)
        res.add_tlc(rl, "Live_CertChain: Terminates under WF, no state constraint")
    negs = []
    for cfg, inv in (("Neg_CertChain.cfg", "NeverValid"), ("Neg2_CertChain.cfg", "NeverInvalidBelowTop"),
                     ("Neg3_CertChain.cfg", "NeverRefusedForShape"), ("Neg4_CertChain.cfg", "NeverValidTwice")):
        rn = tlc.run("CertChain", cfg, workers=2)
        if inv not in rn.violated:
            raise core.MachineryError("vacuity guard: %s is not violated by the model" % inv)
        negs.append(inv)
    res.coverage["negative_configs_violated"] = negs
    # 2. all behaviours of the model ---------------------------------------------------------
    gens = ctx.pick([("Gen_CertChain.cfg", "Gen_CertChain = MC_CertChain (1 target, <=1 corruption of all kinds, <=1 shaped "
                                           "message; all invariants + Stable)")],
                    [("Gen_CertChain.cfg", "Gen_CertChain (1 target, <=1 corruption, <=1 shaped message)"),
                     ("GenS_CertChain.cfg", "GenS_CertChain (1 target, <=1 corruption, 5 shapes, also on the corrupted element)"),
                     ("GenT_CertChain.cfg", "GenT_CertChain (<=2 targets, <=2 corruptions, reduced kinds, canonical)")])
    behaviours = []
    for cfg, label in gens:
        bs, rg = tlc.generate("GenCertChain", cfg)
        res.add_tlc(rg, label)
        behaviours += bs
    res.coverage["behaviours_generated"] = len(behaviours)
    classes = {}
    for i, b in enumerate(behaviours):
        classes.setdefault(bclass(b), []).append(i)
    res.coverage["abstract_classes_generated"] = len(classes)
    kinds_seen = set()
    for c in classes:
        kinds_seen.update(k for k in c.split("|")[1].split("+") if k != "none")
    missing_kinds = [k for k in KINDS if k not in kinds_seen]
    if missing_kinds:
        raise core.MachineryError("vacuity: corruption kinds never generated: %s" % missing_kinds)
    shapes_seen = set()
    for c in classes:
        shapes_seen.update(x for x in c.split("|")[4].split("+") if x != "canon")
    need = ["%s:%s" % (sh, who) for sh in ("longTail", "longHead") for who in ("device", "other")]
    missing_shapes = [x for x in need if x not in shapes_seen]
    if missing_shapes:
        raise core.MachineryError("vacuity: message shapes never generated on a certifier: %s" % missing_shapes)
    res.coverage["message_shape_classes_generated"] = sorted(shapes_seen)
    # quick: every class at least once + a seeded sample; thorough: everything
    budget = ctx.pick(800, 60000)
    chosen = []
    for c in sorted(classes):
        chosen.append(ctx.rng.choice(classes[c]))
    cs = set(chosen)
    rest = [i for i in range(len(behaviours)) if i not in cs]
    ctx.rng.shuffle(rest)
    chosen += rest[:max(0, budget - len(chosen))]
    plans, origin = [], []
    for i in chosen:
        ps = certchain.plans_from_behaviour(behaviours[i], ctx.rng,
                                            positions=("first", "last", "rand"))
        for p in ps:
            plans.append(p)
            origin.append(i)
    n_model = len(plans)
    res.coverage["behaviours_replayed"] = len(chosen)
    res.coverage["certificates_from_behaviours"] = n_model
    # 3. binding B: random certificates, byte sweep ----------------------------------------------
    n_rand = ctx.pick(300, 15000)
    plans += [certchain.random_plan(ctx.rng) for _ in range(n_rand)]
    sweep = certchain.sweep_plans(ctx.rng, ctx.pick(1, 8))
    if ctx.quick:
        sweep = sweep[::2] if len(sweep) > 500 else sweep
    plans += sweep
    spelt = certchain.spelling_plans(ctx.rng)
    plans += spelt
    # histories: several operations on one object (model behaviours, random, built step by step), and two
    # objects validated alternately
    hb = []
    for cfg, label in ctx.pick([("GenH_CertChain.cfg", "GenH_CertChain (histories: a loaded object, then <=2 further "
                                                        "operations, 3 names; all invariants + Terminates)")],
                               [("GenH_CertChain.cfg", "GenH_CertChain (histories: loaded, <=2 operations, 3 names)"),
                                ("GenHB_CertChain.cfg", "GenHB_CertChain (histories: built, <=4 operations, 3 names)")]):
        bs, rg = tlc.generate("GenCertChain", cfg)
        res.add_tlc(rg, label)
        hb += bs
    ctx.rng.shuffle(hb)
    hplans = [certchain.history_plan_from_behaviour(b, ctx.rng) for b in hb[:ctx.pick(450, 10000)]]
    hplans += [certchain.random_history_plan(ctx.rng) for _ in range(ctx.pick(150, 3000))]
    hplans += [certchain.built_history_plan(ctx.rng) for _ in range(ctx.pick(80, 1500))]
    hplans += [certchain.pair_plan(ctx.rng) for _ in range(ctx.pick(50, 800))]
    plans += hplans
    # one long-lived process: >= 300 distinct devices (600 certifier keys), early certificates and forgeries
    # of them (re-signed with a later device's key) validated again at the distances of harness/longrun.py.
    # (placed first so that it runs alongside everything else; it is not a model behaviour)
    lr = certchain.longrun_plan(ctx.rng, ctx.pick(300, 600), ctx.pick(6, 4),
                                ctx.pick(["latest"], ["latest", "previous"]))
    plans.insert(0, lr)
    origin.insert(0, None)
    n_model += 1
    if not any(e["k"] == "op:validate" for b in hb for e in (b["log"] or [])) or \
            not any(e["k"] == "op:addel" for b in hb for e in (b["log"] or [])):
        raise core.MachineryError("vacuity: the history configuration generated no re-validation / no add_element")
    res.coverage["history_behaviours_generated"] = len(hb)
    res.coverage["history_plans"] = len(hplans)
    res.coverage["random_certificates"] = n_rand
    res.coverage["byte_sweep_certificates"] = len(sweep)
    res.coverage["spelling_certificates"] = len(spelt)
    # the root key is handed over compressed for a seeded 40 % of the ordinary certificates (right and wrong
    # roots alike) and for every second spelling certificate
    for p in plans:
        if "ops" not in p and "pair" not in p and ctx.rng.random() < 0.4:
            p["rootenc"] = "compressed"
    if not ctx.quick:
        # thorough: keys are drawn from a per-run population instead of being generated per certificate
        for p in plans[:n_model + n_rand]:
            p["keyseed"] = ctx.seed
    # 4. the real code -------------------------------------------------------------------------
    traces, pstats = run_plans(ctx, plans, nproc)
    res.coverage["watchdog"] = pstats
    kept = [k for k, t in enumerate(traces) if t is not None]
    origin = [origin[k] for k in kept if k < n_model]
    traces = [traces[k] for k in kept]
    n_model = len(origin)
    for k, t in enumerate(traces):
        t["id"] = k + 1
    bad_skips = [t for t in traces[:n_model] if any(s[3] == "decided" for s in t["skipped"])]
    if bad_skips:
        raise core.MachineryError("a corruption decided by the model could not be applied: %s" % bad_skips[0]["skipped"])
    # model drift: the model's own verdicts vs. the code's
    drift = 0
    for k in range(n_model):
        if origin[k] is None:
            continue
        b, t = behaviours[origin[k]], traces[k]
        mres = _dict(b["result"])
        if (b["phase"] == "error") != (t["outcome"] == "error"):
            drift += 1
            continue
        for r in t["res"]:
            m = mres.get(r["target"])
            if m is None or m["valid"] != r["valid"] or (not r["valid"] and m["name"] != r["name"]):
                drift += 1
                break
    res.coverage["model_drift"] = drift
    res.coverage["root_key_encodings"] = {e: sum(1 for t in traces if t.get("rootenc", "uncompressed") == e)
                                          for e in ("uncompressed", "compressed")}
    if not res.coverage["root_key_encodings"]["compressed"]:
        raise core.MachineryError("vacuity: no certificate was validated against a compressed root key")
    from ..certv1 import SPELL_REFUSED, SPELL_ACCEPTED
    res.coverage["spellings_run"] = {m: sum(1 for t in traces if t["spell"] == m)
                                     for m in SPELL_ACCEPTED[1:] + SPELL_REFUSED}
    res.coverage["refused_spelling_but_loaded"] = sum(1 for t in traces if t["spell"] in SPELL_REFUSED
                                                      and t["outcome"] == "loaded")
    res.coverage["tweak_report_drift"] = sum(t["tweak_drift"] for t in traces)
    res.coverage["corruptions_not_applicable_skipped"] = sum(len(t["skipped"]) for t in traces)
    # 5. TLC judges every result map ---------------------------------------------------------------
    payload = [{"id": t["id"], "rootkey": t["rootkey"], "targets": t["targets"], "els": t["els"],
                "spell": t["spell"], "outcome": t["outcome"], "res": t["res"]} for t in traces]
    verdicts, stats = tlc.validate("TraceCertChain", "Trace_CertChain.cfg", payload,
                                   shards=ctx.pick(4, 8))
    res.checker_cmds.append("tlc -workers 1 -config Trace_CertChain.cfg TraceCertChain (x%d shards)" % stats["jvms"])
    accepted = 0
    seen = {"valid": 0, "invalid": 0, "error": 0}
    for t in traces:
        v = verdicts[t["id"]]
        if t["outcome"] == "error":
            seen["error"] += 1
        for r in t["res"]:
            seen["valid" if r["valid"] else "invalid"] += 1
        if v["ok"]:
            accepted += 1
        else:
            res.violation(tsig(v["clause"], t),
                          "version-1 certificate: %s fails for target #%s: targets=%s observed=%s (%s); "
                          "symbolic certificate=%s" % (v["clause"], v.get("at"), t["targets"],
                                                       json.dumps(t["res"])[:400], t["err"],
                                                       json.dumps([{k: e[k] for k in e if k != "val"}
                                                                   for e in t["els"]])[:900]),
                          {"plan": t["plan"], "observed": {"outcome": t["outcome"], "res": t["res"],
                                                           "err": t["err"]}, "verdict": v})
    res.add_validation(stats, accepted)
    res.coverage["observed_verdicts"] = seen
    # the trace specification must reject doctored observations (self-test of the judge)
    doctored = []
    for t in traces:
        if len(doctored) >= 30:
            break
        if verdicts[t["id"]]["ok"] and t["res"]:
            p = {"id": len(doctored) + 1, "rootkey": t["rootkey"], "targets": t["targets"], "els": t["els"],
                 "spell": "", "outcome": t["outcome"], "res": [dict(r) for r in t["res"]]}
            r = p["res"][0]
            how = len(doctored) % 3
            if how == 0:
                r["valid"] = not r["valid"]
            elif r["valid"]:
                r["value"] = r["value"][:-2] + ("00" if r["value"][-2:] != "00" else "01")
            else:
                others = [e["name"] for e in t["els"] if e["name"] != r["name"]]
                r["name"] = others[0] if others else "nobody"
            doctored.append(p)
    dv, _ = tlc.validate("TraceCertChain", "Trace_CertChain.cfg", doctored, shards=1)
    slipped = [k for k, v in dv.items() if v["ok"]]
    if slipped or not doctored:
        raise core.MachineryError("TraceCertChain accepted %d of %d doctored observations" % (len(slipped), len(doctored)))
    res.coverage["doctored_traces_rejected"] = len(doctored)
    res.coverage["distinct_abstract_classes_hit"] = len({bclass(behaviours[i]) for i in chosen})
    if seen["valid"] == 0 or seen["invalid"] == 0 or seen["error"] == 0:
        raise core.MachineryError("vacuity: real code never produced one of valid/invalid/error: %s" % seen)
    for t in traces[:2] + traces[n_model:n_model + 2] + traces[-1:]:
        res.sample({"plan": t["plan"], "outcome": t["outcome"],
                    "result": [{k: (r[k][:24] if k == "value" else r[k]) for k in r} for r in t["res"]]})
    return res


def replay(ctx, path):
    with open(path) as f:
        data = json.load(f)
    plan = data["replay"]["plan"]
    traces, _ = run_plans(ctx, [plan], 1)
    t = traces[0]
    t["id"] = 1
    verdicts, _ = tlc.validate("TraceCertChain", "Trace_CertChain.cfg",
                               [{"id": 1, "rootkey": t["rootkey"], "targets": t["targets"], "els": t["els"],
                                 "spell": t["spell"], "outcome": t["outcome"], "res": t["res"]}])
    ch = certchain.build_plan(plan)
    print(json.dumps({"plan": plan, "certificate": ch.cert, "root": ch.root_hex, "outcome": t["outcome"],
                      "result": t["res"], "err": t["err"], "verdict": verdicts[1]}, indent=1))
    return 0 if verdicts[1]["ok"] else 1
