"""C18 — admin commands touch seed and PIN only under their preconditions.
TLC: Admin (exhaustive) ; GenAdmin (all behaviours) -> replay through do_onboard / do_unlock /
do_changepin / do_get_pubkeys against a simulated device and a scripted operator -> TraceAdmin."""
import json

from .. import admin_ops, core, tlc

ACTIONS = ("Validate", "AskMode", "AskOnb", "Echo", "Confirm", "GetPin", "GenSeed", "SendSeed",
           "SendOnbPin", "Wipe", "SgxOnboard", "PostUnlock", "Attest", "SendPin", "Unlock", "ExitMenu",
           "AskMode2", "GetNewPin", "SendNewPin", "ChangePin", "GetKeys", "WriteFiles", "LinkFault")
NEGATIVES = ("NeverOnboards", "NeverUnlocks", "NeverChanges", "NeverWritesKeys", "NeverAnyPin",
             "NeverLinkFault")
# the event fold (ObserveAll) recurses over up to ~70 events per step: give TLC's threads room
JAVA_OPTS = ("-Xss32m",)
TRACE_KEYS = ("id", "op", "plat", "any_pin", "no_unlock", "src", "pins", "upin", "outfile", "answers",
              "d0", "acc", "prev_seed", "ev", "outcome", "files", "expect", "fin_pin", "pre")


def pin_label(p):
    """Syntactic label of a PIN string for signatures / coverage only (no verdict depends on it)."""
    b = p.encode("utf-8", "surrogateescape")
    al = all(chr(c) in admin_ops.ALNUM for c in b)
    return "len%s%d,%s,%s%s" % ("=" if len(b) == 8 else ("<" if len(b) < 8 else ">"), 8,
                                "alnum" if al else "nonalnum",
                                "letter" if any(chr(c) in admin_ops.LETTERS for c in b) else "noletter",
                                ",nonascii" if any(c > 127 for c in b) else "")


def labels(pins):
    """PIN labels of a scenario, runs of the same label folded (`label x n`)."""
    out = []
    for p in pins:
        lab = pin_label(p)
        if out and out[-1][0] == lab:
            out[-1][1] += 1
        else:
            out.append([lab, 1])
    return [lab if n == 1 else "%s x%s" % (lab, n if n in admin_ops.COUNTS else "n") for lab, n in out]


RELEVANT = {
    "onboard": ("plat", "src", "any_pin", "outfile", "pre", "mode", "onb", "echo", "answers", "wipe",
                "enter", "post"),
    "unlock": ("plat", "src", "any_pin", "mode", "onb", "echo", "unlock"),
    "changepin": ("plat", "src", "any_pin", "no_unlock", "mode", "onb", "echo", "unlock", "newpin"),
    "pubkeys": ("plat", "src", "any_pin", "no_unlock", "outfile", "pre", "mode", "onb", "echo", "unlock",
                "mode2", "keys"),
    "genpin": (),
}


def signature(clause, d):
    """Stable abstract description: failing clause + the dimensions the command can depend on."""
    dims = " ".join("%s=%s" % (k, int(d[k]) if isinstance(d.get(k), bool) else d.get(k)) for k in RELEVANT[d["op"]])
    return "%s|op=%s %s pins=[%s]%s%s" % (clause, d["op"], dims, ";".join(labels(d["pins"])),
                                         answer_shapes(d), " via=cli" if d.get("cli") else "")


def brief(d, keys):
    """The named fields of a scenario for messages; a long run of PIN entries is abridged."""
    out = {k: d.get(k) for k in keys}
    if "pins" in out and len(out["pins"]) > 4:
        out["pins"] = out["pins"][:2] + ["... %d entries in all, last:" % len(d["pins"]), d["pins"][-1]]
    return out


def answer_shapes(d):
    """How the device worded its wrong / negative answers in this scenario (part of the signature)."""
    if d["op"] == "genpin":
        return ""
    out = []
    rel = RELEVANT[d["op"]]
    if d.get("echo") == "f":
        out.append("echo:%s" % d.get("echo_shape"))
    if d.get("onb_shape"):
        out.append("onb:%s" % d["onb_shape"])
    if "wipe" in rel and d.get("wipe") == "f":
        out.append("wipe:%s" % d.get("wipe_how"))
    if "unlock" in rel and d.get("unlock") == "f":
        out.append("unlock:%s" % d.get("unlock_how"))
    if "unlock" in rel and d.get("unlock") == "t" and d["plat"] == "ledger" and d.get("unlock_byte", 1) != 1:
        out.append("unlockbyte:0x%02x" % d["unlock_byte"])
    if "newpin" in rel and d.get("newpin") == "f":
        out.append("newpin:%s" % d.get("newpin_how"))
    if d.get("answers") in ("oy", "on", "oeof") and d.get("n_other", 1) != 1:
        out.append("others:x%d" % d["n_other"])
    if d.get("link"):
        out.append("link:%s%s@%s#%d" % (d["link"]["kind"],
                                        ("(%s)" % d["link"].get("how")) if d["link"]["kind"] == "err" else "",
                                        d["link"]["cls"], d["link"]["nth"]))
    return (" answers=[%s]" % ",".join(out)) if out else ""


def relevant(d):
    """Abstract class of a scenario for coverage counting (dimensions the command can look at)."""
    return (d["op"], d["plat"], d["src"], d["any_pin"], d["no_unlock"], d["outfile"],
            tuple(labels(d["pins"])), d["mode"], d["onb"], d["echo"], d["answers"])


def random_scenario(rng):
    """Binding B: random device states and operator inputs, PIN strings around the policy boundary."""
    op = rng.choice(["onboard", "onboard", "unlock", "changepin", "changepin", "pubkeys"])
    plat = rng.choice(["ledger", "sgx"])
    src = rng.choice(["opt", "prompt"])
    pins = [admin_ops.random_pin(rng)]
    if src == "prompt":
        for _ in range(rng.choice([0, 1, 1, 2])):
            pins.append(admin_ops.random_pin(rng))
        if rng.random() < 0.6:
            pins.append(admin_ops.pin_of_class("ok", rng))
    # bias towards states in which the command gets far
    if op == "onboard":
        mode = rng.choice(["boot"] * 5 + list(admin_ops.MODES))
        onb = rng.choice(["no", "no", "no", "yes"])
    else:
        mode = rng.choice(["boot"] * 3 + ["signer"] + list(admin_ops.MODES))
        onb = rng.choice(["yes", "yes", "yes", "no"])
    return admin_ops.build(
        op=op, plat=plat, any_pin=rng.random() < 0.5,
        no_unlock=(op in ("changepin", "pubkeys") and rng.random() < 0.35), src=src, pins=pins,
        outfile=(op == "pubkeys" and rng.random() < 0.8) or (op == "onboard" and plat == "ledger"
                                                              and rng.random() < 0.9),
        mode=mode, onb=onb, echo=rng.choice(["t", "t", "t", "f"]),
        answers=rng.choice(["yes", "yes", "yes", "oy", "no", "on", "eof", "oeof"]),
        enter=rng.choice(["other", "other", "eof"]), post=rng.choice(["retype", "retype", "eof"]),
        wipe=rng.choice(["t", "t", "t", "f"]), unlock=rng.choice(["t", "t", "t", "f"]),
        newpin=rng.choice(["t", "t", "t", "f"]),
        mode2=rng.choice(["signer", "signer", "signer"] + list(admin_ops.MODES)),
        keys=rng.choice(["t", "t", "t", "f"]), rng=rng, strict=rng.random() < 0.4,
        cli=rng.random() < 0.3, pre=rng.choice(admin_ops.PRE_KINDS[op]),
        link=({"kind": rng.choice(admin_ops.LINK_KINDS), "how": rng.choice(admin_ops.ERR_HOWS),
               "cls": rng.choice(["get_mode", "is_onboard", "echo", "seed_byte", "pin_byte", "wipe", "sgx_onboard",
                                  "unlock", "change_pin", "get_pubkey", "exit", "admin"]),
               "nth": rng.choice([0, 0, 0, 1, 2, 5])} if rng.random() < 0.15 else None),
        shapes=({"onb": rng.choice(admin_ops.ONB_SHAPES)} if rng.random() < 0.08 else None))


def execute(ctx, sc, tag, state):
    """Run one scenario; `state` carries the previous onboarding's seed across runs."""
    trace, diag = admin_ops.run(sc, ctx.scratch, tag, prev_seed=state.get("prev_seed"))
    if diag["seed_received"] is not None:
        state["prev_seed"] = diag["seed_received"]
        state["seeds"].append(diag["seed_received"])
        state["own_draw"] += int(diag["seed_received"] in diag["draws"])
    for k in ("stdout", "draws", "seed_received", "final", "cert"):
        diag.pop(k, None)           # keep the per-trace diagnostics light (10^4..10^5 runs)
    return trace, diag


def run(ctx):
    res = core.Result()
    res.assumptions = [
        "device simulator (harness/simdev_admin.py) follows the firmware's host-visible protocol as read "
        "from firmware/src/ledger/ui and firmware/src/sgx (DESIGN.md App. E); ground truth = its state",
        "operator is scripted: stdin / getpass end with EOFError when the script is exhausted (a real "
        "terminal would block); after a successful onboarding the operator re-types the PIN just set",
        "randomness source observed at admin.onboard's `os.urandom` (recorded, delegated to the real one); "
        "freshness = the seed equals a draw of this run and differs from the previous run's seed - no "
        "claim about the quality of the randomness",
        "'carried out' = the command returned normally; demanded only while the device answered every "
        "exchange positively; nothing is demanded where the property text leaves the precondition open "
        "(any-PIN with a non-alphanumeric PIN, onboarding with a non-compliant PIN *option*)",
        "the attestation setup after a Ledger onboarding is simulated just well enough to finish "
        "(handshake, device key, endorsement key with simulator-made signatures); its content is not judged",
        "PIN content is an explicit environment choice (classes ok / digits / len7 / len9 / ascii / hi8 / "
        "hiwide); every listed member of a class is run in the PIN-decisive behaviours (option, prompt, "
        "command line), every character of U+0000..U+07FF is swept inside an otherwise compliant 8-byte "
        "PIN, generated PINs are judged too; beyond that the PIN space is sampled. Ground truth = the "
        "bytes the device received and the PIN it ends up holding. bitcoin.core stand-in loaded but not "
        "exercised",
    ]
    # 1. design check, exhaustive
    r = tlc.check("Admin", "MC_Admin.cfg", coverage=True, workers=4, java_opts=JAVA_OPTS)
    if r.violated:
        raise core.MachineryError("Admin model violates %s — model and property disagree; replay "
                                  "against the code before reporting" % r.violated)
    res.add_tlc(r, "MC_Admin exhaustive")
    counts = r.action_counts()
    never = [a for a in ACTIONS if counts.get(a, 0) == 0]
    if never:
        raise core.MachineryError("vacuity: actions never taken: %s" % never)
    res.coverage["uncovered_actions"] = never
    rn = tlc.run("Admin", "Neg_Admin.cfg", workers=2, extra=["-continue"], java_opts=JAVA_OPTS)
    missing = [n for n in NEGATIVES if n not in rn.violated]
    if missing:
        raise core.MachineryError("vacuity guards not violated: %s" % missing)
    res.coverage["negative_configuration"] = "all of %s violated, as they must be" % (NEGATIVES,)
    # 2. all behaviours of the model
    behaviours, rg = tlc.generate("GenAdmin", "Gen_Admin.cfg", java_opts=JAVA_OPTS)
    res.add_tlc(rg, "Gen_Admin behaviours")
    res.coverage["behaviours_generated"] = len(behaviours)
    # 3. replay on the real code
    traces, diags = [], {}
    state = {"prev_seed": None, "seeds": [], "own_draw": 0}
    order = list(range(len(behaviours)))
    ctx.rng.shuffle(order)
    drift = {"n": 0, "samples": []}

    def record(sc, tag, src, b=None):
        t, dg = execute(ctx, sc, tag, state)
        t["id"] = len(traces) + 1
        dg["src"] = src
        if b is not None and (t["outcome"] != b["outcome"] or shape(dg["classes"]) != shape(b["hist"])):
            drift["n"] += 1
            if len(drift["samples"]) < 5:
                drift["samples"].append({"cfg": b["cfg"], "env": b["env"], "src": src,
                                         "pins": sc.desc["pins"], "model": [b["outcome"], b["hist"]],
                                         "code": [t["outcome"], dg["classes"], dg["exc"]]})
        traces.append(t)
        diags[t["id"]] = dg
        return t

    # 3a. every behaviour once, one seeded member of its PIN content class
    n_fav = 0
    n_link, link_kinds, n_plain, n_how, how_groups = 0, {}, 0, 0, set()
    for k, bi in enumerate(order):
        b = behaviours[bi]
        if b["env"]["link"] != "?":
            # the link fails at a gating exchange: everything the behaviour never looked at is set so
            # that a command that wrongly went on would reach the seed / PIN step. Quick tier: all the
            # single-deviation ones, a rotating fifth of the others.
            if ctx.quick and not admin_ops.clean_prefix(b) and k % 8:
                continue
            sc = admin_ops.scenario_from_model(b["cfg"], b["env"], ctx.rng, favourable=True, hist=b["hist"])
            sc.desc["cli"] = (k % 4 == 0)
            record(sc, "l%d" % bi, "model-behaviour, link fault", b)
            n_link += 1
            # the kind of failure behind "err": every one of them (read / write error, status words of
            # each class, an unclassified transport exception) where nothing else deviates; for
            # onboarding with the device's true onboarded state drawn both ways
            group = (b["cfg"]["op"], b["cfg"]["plat"], b["env"]["linkat"])
            if b["env"]["link"] == "err" and admin_ops.clean_prefix(b) and (
                    not ctx.quick or group not in how_groups):
                how_groups.add(group)
                truths = ("yes", "no") if (b["cfg"]["op"] == "onboard" and b["env"]["onb"] == "?") else (None,)
                for how in admin_ops.hows_at(b["env"]["linkat"]):
                    for truth in truths:
                        sc = admin_ops.scenario_from_model(b["cfg"], b["env"], ctx.rng, favourable=True,
                                                           hist=b["hist"], how=how, truth_onb=truth)
                        record(sc, "h%d" % bi, "failure kind %s" % how, b)
                        n_how += 1
            key = "%s@%s" % (b["env"]["link"], b["env"]["linkat"])
            link_kinds[key] = link_kinds.get(key, 0) + 1
            continue
        if ctx.quick and b["env"]["retry"] == "r2valid" and not admin_ops.clean_prefix(b) and k % 2:
            continue        # quick tier: half of the twice-re-prompted siblings that deviate elsewhere too
        sc = admin_ops.scenario_from_model(b["cfg"], b["env"], ctx.rng, boundary=(k % 3 == 0))
        record(sc, "b%d" % bi, "model-behaviour", b)
        n_plain += 1
        if b["outcome"] == "err" and "?" in b["env"].values() and (
                not ctx.quick or admin_ops.clean_prefix(b) or k % 4 == 0):
            # the same refusal as a single deviation: whatever the behaviour never looked at is set
            # so that the command, had it wrongly gone on, would reach the seed / PIN step
            sc = admin_ops.scenario_from_model(b["cfg"], b["env"], ctx.rng, favourable=True)
            record(sc, "f%d" % bi, "model-behaviour, rest favourable", b)
            n_fav += 1
    res.coverage["behaviours_replayed"] = n_plain + n_link
    res.coverage["refusals_replayed_with_rest_favourable"] = n_fav
    res.coverage["link_fault_behaviours_replayed"] = n_link
    res.coverage["failure_kind_runs"] = {"kinds": list(admin_ops.ERR_HOWS), "runs": n_how}
    res.coverage["link_faults_by_kind_and_position"] = dict(sorted(link_kinds.items()))
    # 3b. a seed-selected subset again, through the command-line front end (argparse builds the options)
    n_cli = ctx.pick(250, len(order))
    for bi in [i for i in order if behaviours[i]["env"]["link"] == "?"][:n_cli]:
        b = behaviours[bi]
        sc = admin_ops.scenario_from_model(b["cfg"], b["env"], ctx.rng, boundary=False)
        sc.desc["cli"] = True
        record(sc, "c%d" % bi, "model-behaviour via adm_%s.main()" % b["cfg"]["plat"], b)
    res.coverage["behaviours_replayed_through_cli_main"] = n_cli
    # 3c. PIN-decisive (single-deviation) behaviours: EVERY member of the PIN content class, everything
    #     the behaviour did not look at set so that the command would go on; directly and (PIN given as
    #     an option, or operations that set a PIN) through the command-line front end
    decisive = [b for b in behaviours if b["env"]["link"] == "?" and admin_ops.pin_decisive(b)]
    n_members = 0
    seen_groups = set()
    for bi, b in enumerate(decisive):
        # quick tier: the first decisive behaviour of every (operation, platform, PIN source, any_pin,
        # content class) runs ALL members, its siblings (they differ in what the device answers later)
        # a rotating sixth; operations that set no PIN a rotating third. Thorough tier: everything.
        group = (b["cfg"]["op"], b["cfg"]["plat"], b["cfg"]["src"], b["cfg"]["any_pin"], b["env"]["pinc"])
        first = group not in seen_groups
        seen_groups.add(group)
        for mi, m in enumerate(admin_ops.PIN_MEMBERS[b["env"]["pinc"]]):
            if ctx.quick and b["cfg"]["op"] in ("unlock", "pubkeys") and (bi + mi) % 3:
                continue
            if ctx.quick and not first and (bi + mi) % 12:
                continue
            vias = [False]
            if b["cfg"]["op"] in ("onboard", "changepin") and (ctx.pick(False, True) or (bi + mi) % 4 == 0):
                vias.append(True)
            for cli in vias:
                sc = admin_ops.scenario_from_model(b["cfg"], b["env"], ctx.rng, member=m, favourable=True)
                sc.desc["cli"] = cli
                record(sc, "m%d_%d" % (bi, mi), "pin-decisive behaviour, member %d%s" % (
                    mi, " via cli" if cli else ""), b)
                n_members += 1
    res.coverage["pin_decisive_behaviours"] = len(decisive)
    res.coverage["pin_members_per_class"] = {c: len(v) for c, v in sorted(admin_ops.PIN_MEMBERS.items())}
    res.coverage["pin_decisive_member_runs"] = n_members
    # 3c'. behaviours whose only deviation is a wrong / negative device answer gating seed or PIN (echo,
    #      is_onboarded, WIPE / SGX_ONBOARD ack, unlock, new PIN): EVERY shape of that answer, everything
    #      else favourable; Ledger behaviours that unlocked: every non-canonical positive answer
    n_shapes, shape_kinds = 0, {}
    seen_groups = set()
    for bi, b in enumerate(behaviours):
        for si, sh in enumerate(admin_ops.deviation_shapes(b) if b["env"]["link"] == "?" else []):
            # quick tier: all shapes on the first behaviour of every (operation, platform, PIN source,
            # answer), a rotating third on its siblings
            group = (b["cfg"]["op"], b["cfg"]["plat"], b["cfg"]["src"], next(iter(sh)))
            if ctx.quick and (group + (si,)) in seen_groups and (bi + si) % 3:
                continue
            seen_groups.add(group + (si,))
            vias = [False] + ([True] if (ctx.pick(False, True) or (bi + si) % 8 == 0) else [])
            for cli in vias:
                sc = admin_ops.scenario_from_model(b["cfg"], b["env"], ctx.rng, favourable=True, shapes=sh)
                sc.desc["cli"] = cli
                record(sc, "a%d_%d" % (bi, si), "answer-shape behaviour %s%s" % (
                    sh, " via cli" if cli else ""), b)
                n_shapes += 1
                key = "%s:%s" % next(iter(sh.items()))
                shape_kinds[key] = shape_kinds.get(key, 0) + 1
    res.coverage["answer_shape_runs"] = n_shapes
    res.coverage["answer_shapes_run"] = dict(sorted(shape_kinds.items()))
    res.coverage["model_drift"] = drift["n"]
    if drift["samples"]:
        res.coverage["model_drift_samples"] = core._jsonable(drift["samples"])
    # 3c''. scale: how many other answers / rejected entries a prompt gets before the decisive one
    #       (1 .. 2500; the harness hands out up to PROMPT_CAP = 5000), everything else favourable:
    #       "proceed?" answered other x n then yes / no / end of input; a PIN prompt given n rejected
    #       entries then a compliant one / end of input
    n_scale, seen_groups = 0, set()
    for bi, b in enumerate(behaviours):
        cfg, e = b["cfg"], b["env"]
        if e["link"] != "?" or not admin_ops.clean_prefix_but(b, ("answers", "retry", "pinc")):
            continue
        if e["answers"] in ("oy", "on", "oeof") and (e["retry"] in ("?", "valid")) and e["pinc"] in ("?", "ok"):
            group = ("answers", cfg["plat"], cfg["src"], cfg["any_pin"], e["answers"])
            if (ctx.quick and group in seen_groups) or (group + (e["wipe"], e["enter"], e["post"])) in seen_groups:
                continue
            seen_groups.add(group)
            seen_groups.add(group + (e["wipe"], e["enter"], e["post"]))
            for n in admin_ops.COUNTS:
                sc = admin_ops.scenario_from_model(cfg, e, ctx.rng, favourable=True, n_other=n)
                sc.desc["cli"] = (n_scale % 3 == 0)
                record(sc, "n%d_%d" % (bi, n), "scale: %d other answers" % n, b)
                n_scale += 1
        elif cfg["src"] == "prompt" and e["retry"] in ("valid", "eof") and e["answers"] in ("?", "yes"):
            group = ("pins", cfg["op"], cfg["plat"], cfg["any_pin"], e["retry"])
            if group in seen_groups or (ctx.quick and cfg["any_pin"]):
                continue
            seen_groups.add(group)
            for n in admin_ops.COUNTS:
                sc = admin_ops.scenario_from_model(cfg, e, ctx.rng, favourable=True, n_rejected=n)
                sc.desc["cli"] = (n_scale % 3 == 0)
                record(sc, "n%d_%d" % (bi, n), "scale: %d rejected entries" % n, b)
                n_scale += 1
    res.coverage["scale_runs"] = {"counts": list(admin_ops.COUNTS), "runs": n_scale,
                                  "prompt_cap": admin_ops.PROMPT_CAP}
    # 3d. code-point sweep: every character of U+0000..U+07FF (thorough: plus fullwidth / Indic / CJK /
    #     mathematical samples) inside an otherwise compliant PIN whose encoding is exactly 8 bytes,
    #     any-PIN not allowed, everything else favourable, PIN given as an option and typed at the prompt
    sweep = admin_ops.sweep_pins(ctx.pick((1, 2), (1, 2, 3, 4)))
    configs = ctx.pick(
        [("changepin", "sgx", "opt", False), ("onboard", "ledger", "prompt", False)],
        [(op, plat, src, cli) for op in ("onboard", "changepin") for plat in ("ledger", "sgx")
         for src, cli in (("opt", False), ("opt", True), ("prompt", False))])
    low = admin_ops.sweep_pins((1,))
    n_sweep = 0
    for ci, (op, plat, src, cli) in enumerate(configs):
        # quick tier: the full sweep on the first configuration, U+0000..7F on the others
        for i, pin in enumerate(sweep if (ci == 0 or not ctx.quick) else low):
            n_sweep += 1
            sc = admin_ops.build(
                op=op, plat=plat, any_pin=False, no_unlock=(op == "changepin"), src=src, pins=[pin],
                outfile=(op == "onboard" and plat == "ledger"),
                mode=("boot" if (op == "onboard" or plat == "ledger") else "signer"),
                onb=("no" if op == "onboard" else "yes"), echo="t", answers="yes", wipe="t", unlock="t",
                newpin="t", mode2="signer", keys="t", rng=ctx.rng, cli=cli)
            record(sc, "s%d" % i, "code-point sweep")
    res.coverage["code_point_sweep"] = {"pins": len(sweep), "configurations": len(configs),
                                        "runs": n_sweep}
    # 3d'. channel noise, exhaustively for the low planes: a compliant PIN with every character appended
    #      / prepended (what a terminal, a pipe or an editor may add), typed at the prompt and given as
    #      an option; a compliant entry follows at the prompt, so the command can go on
    wrapped = admin_ops.sweep_wrapped(ctx.pick((1,), (1, 2)))
    wconfigs = ctx.pick(
        [("changepin", "sgx", "prompt", False), ("onboard", "ledger", "prompt", False),
         ("onboard", "sgx", "opt", False)],
        [(op, plat, "prompt", False) for op in ("onboard", "changepin") for plat in ("ledger", "sgx")] +
        [("onboard", "ledger", "prompt", True), ("changepin", "sgx", "prompt", True),
         ("onboard", "sgx", "opt", False), ("changepin", "ledger", "opt", False)])
    for (op, plat, src, cli) in wconfigs:
        for i, pin in enumerate(wrapped):
            sc = admin_ops.build(
                op=op, plat=plat, any_pin=False, no_unlock=(op == "changepin"), src=src,
                pins=[pin] + (["zyxw9876"] if src == "prompt" else []),
                outfile=(op == "onboard" and plat == "ledger"),
                mode=("boot" if (op == "onboard" or plat == "ledger") else "signer"),
                onb=("no" if op == "onboard" else "yes"), echo="t", answers="yes", wipe="t", unlock="t",
                newpin="t", mode2="signer", keys="t", rng=ctx.rng, cli=cli)
            record(sc, "w%d" % i, "channel-noise sweep")
    res.coverage["channel_noise_sweep"] = {"pins": len(wrapped), "configurations": len(wconfigs),
                                           "runs": len(wrapped) * len(wconfigs)}
    # 3e. PINs from the generator (BasePin.generate_pin / FileBasedPin.new)
    n_gen = ctx.pick(500, 20000)
    for i in range(0, n_gen, 100):
        t = admin_ops.run_generated(min(100, n_gen - i), ctx.scratch, "g%d" % i)
        t["id"] = len(traces) + 1
        traces.append(t)
        diags[t["id"]] = {"src": "generated", "exc": None, "classes": ["generated"] * len(t["ev"]),
                          "desc": {"op": "genpin", "plat": "-", "pins": [], "cli": False}}
    res.coverage["generated_pins"] = n_gen
    # 4. random scenarios (binding B)
    n_rand = ctx.pick(800, 40000)
    for i in range(n_rand):
        record(random_scenario(ctx.rng), "r%d" % i, "random")
    res.coverage["random_scenarios"] = n_rand
    # 5. TLC judges every recorded execution
    payload = [{k: t[k] for k in TRACE_KEYS} for t in traces]
    verdicts, stats = tlc.validate("TraceAdmin", "Trace_Admin.cfg", payload, shards=ctx.pick(8, 12))
    res.checker_cmds.append("tlc -workers 1 -config Trace_Admin.cfg TraceAdmin (x%d shards)" % stats["jvms"])
    accepted = 0
    classes = set()
    by = {}
    for t in traces:
        v = verdicts[t["id"]]
        dg = diags[t["id"]]
        d = dg["desc"]
        if d["op"] != "genpin":
            classes.add(relevant(d))
        key = (d["op"], d["plat"], t["outcome"])
        by[key] = by.get(key, 0) + 1
        if v["ok"]:
            accepted += 1
        else:
            res.violation(signature(v["clause"], d),
                          "%s on %s violates %s at event %s: scenario %s, outcome %s (%s)" % (
                              d["op"], d["plat"], v["clause"], v.get("at"),
                              json.dumps(brief(d, ("src", "any_pin", "no_unlock", "pins", "mode", "onb", "echo",
                                                   "answers", "n_other")), sort_keys=True),
                              t["outcome"], dg["exc"]),
                          {"scenario": d, "prev_seed": t["prev_seed"], "classes": dg["classes"],
                           "outcome": t["outcome"], "exception": dg["exc"], "verdict": v})
    res.add_validation(stats, accepted)
    res.coverage["trace_spec_selftest"] = selftest(traces, verdicts, strict=not res.violations)
    res.coverage["distinct_abstract_classes_hit"] = len(classes)
    res.coverage["runs_by_op_platform_outcome"] = {"%s/%s/%s" % k: n for k, n in sorted(by.items())}
    res.coverage["onboardings_that_delivered_a_seed"] = len(state["seeds"])
    res.coverage["distinct_seeds_delivered"] = len(set(state["seeds"]))
    res.coverage["seeds_equal_to_own_recorded_draw"] = state["own_draw"]
    res.coverage["runs_still_prompting_after_%d_answers" % admin_ops.PROMPT_CAP] = sum(
        1 for t in traces if t["outcome"] == "hang")
    res.coverage["pubkey_files_read_back"] = sum(1 for t in traces if t["files"]["txt"])
    shown = 0
    for t in traces:
        dg = diags[t["id"]]
        if t["outcome"] == "ok" and shown < 4 and dg["desc"]["op"] == ("onboard", "unlock", "changepin",
                                                                      "pubkeys")[shown]:
            shown += 1
            res.sample({"scenario": brief(dg["desc"], ("op", "plat", "src", "any_pin", "no_unlock", "pins",
                                                       "mode", "onb", "echo", "answers")),
                        "event_classes": compact(dg["classes"]), "outcome": t["outcome"],
                        "files": t["files"] if t["files"]["txt"] else None, "source": dg["src"]})
    for t in traces[-2:]:
        dg = diags[t["id"]]
        res.sample({"scenario": brief(dg["desc"], ("op", "plat", "src", "any_pin", "no_unlock", "pins", "mode",
                                                   "onb", "echo", "answers")),
                    "event_classes": compact(dg["classes"]), "outcome": t["outcome"],
                    "exception": dg["exc"], "source": dg["src"]})
    return res


def _idx(t, cls):
    return [k for k, e in enumerate(t["ev"]) if e["cls"] == cls]


def _drop(t, pred):
    t["ev"] = [e for k, e in enumerate(t["ev"]) if not pred(k, e)]


def _swap_json(t):
    j = t["files"]["json"]
    j[2][1], j[3][1] = j[3][1], j[2][1]


def _onb_ok(t):
    return t["op"] == "onboard" and t["outcome"] == "ok"


def _onb_ledger_ok(t):
    return _onb_ok(t) and t["plat"] == "ledger"


def _unlock_ok(t):
    return t["op"] == "unlock" and t["outcome"] == "ok"


def _change_ok(plat):
    return lambda t: t["op"] == "changepin" and t["outcome"] == "ok" and not t["any_pin"] and t["plat"] == plat


def _pubkeys_ok(t):
    return t["op"] == "pubkeys" and t["outcome"] == "ok" and bool(t["files"]["txt"])


# (what is corrupted, clause that must reject it, which accepted trace to take, the corruption)
CORRUPTIONS = (
    ("seed byte to an onboarded device", "OnboardSafe", _onb_ledger_ok,
     lambda t: t["ev"][_idx(t, "seed_byte")[0]].update(d_onb="yes")),
    ("operator never said yes", "OnboardSafe", _onb_ok,
     lambda t: _drop(t, lambda k, e: e["cls"] == "stdin" and e["ans"] == "yes")),
    ("no echo before the seed", "OnboardSafe", _onb_ok,
     lambda t: _drop(t, lambda k, e: e["cls"] == "echo")),
    ("seed differs from the recorded draw", "SeedFresh", _onb_ok,
     lambda t: t["ev"][_idx(t, "urandom")[0]]["data"].__setitem__(
         5, t["ev"][_idx(t, "urandom")[0]]["data"][5] ^ 1)),
    ("31-byte seed", "SeedFresh", _onb_ledger_ok,
     lambda t: _drop(t, lambda k, e: k == _idx(t, "seed_byte")[31])),
    ("seed equals the previous run's", "SeedFresh", _onb_ok,
     lambda t: t.update(prev_seed=list(t["ev"][_idx(t, "urandom")[0]]["data"]))),
    ("unlock in signer mode", "UnlockSafe", _unlock_ok,
     lambda t: t["ev"][_idx(t, "unlock")[0]].update(d_mode="signer")),
    ("unlock of a device that is not onboarded", "UnlockSafe", _unlock_ok,
     lambda t: t["ev"][_idx(t, "unlock")[0]].update(d_onb="no")),
    ("non-alphanumeric PIN byte set without any-PIN", "PinPolicy", _change_ok("ledger"),
     lambda t: t["ev"][_idx(t, "pin_byte")[-1]].update(b=33)),
    ("7-character PIN set without any-PIN", "PinPolicy", _change_ok("sgx"),
     lambda t: t["ev"][_idx(t, "change_pin")[0]]["data"].pop()),
    ("device ends up holding a 7-character PIN without any-PIN", "PinPolicy", _change_ok("ledger"),
     lambda t: t["fin_pin"].pop()),
    ("device ends up holding a PIN with a Latin-1 letter byte", "PinPolicy", _change_ok("sgx"),
     lambda t: t["fin_pin"].__setitem__(3, 0xFC)),
    ("generated PIN without a letter", "PinPolicy", lambda t: t["op"] == "genpin",
     lambda t: t["ev"][0].update(data=[0x31] * 8)),
    ("success reported although the PIN prompt met the end of the input", "InputError",
     lambda t: t["outcome"] == "err" and any(e["cls"] == "getpass" and e["ok"] == "f" for e in t["ev"]),
     lambda t: t.update(outcome="ok")),
    ("preconditions held but the command failed", "Carried", _onb_ok,
     lambda t: t.update(outcome="err")),
    ("a documented path never asked", "Carried", _pubkeys_ok,
     lambda t: _drop(t, lambda k, e: k == _idx(t, "get_pubkey")[4])),
    ("two keys swapped in the JSON file", "PubkeysWritten", _pubkeys_ok, _swap_json),
    ("an entry from an earlier export left in the JSON file", "PubkeysWritten", _pubkeys_ok,
     lambda t: t["files"]["json"].append(["m/44'/0'/0'/0/1", "04" + "11" * 64])),
    ("success reported although the output path is a directory", "WriteError",
     lambda t: t["op"] == "pubkeys" and t["outfile"] and t["pre"] in ("dir", "dirjson") and t["outcome"] == "err",
     lambda t: t.update(outcome="ok")),
    ("uncompressed key in the text file", "PubkeysWritten", _pubkeys_ok,
     lambda t: t["files"]["txt"][0].__setitem__(1, t["files"]["json"][0][1])),
)


def selftest(traces, verdicts, strict=True):
    """DESIGN 3.7 (a): corrupt accepted traces of the real code in one logged field and require TLC to
    reject each with the expected clause - the trace specification is not vacuous. On a run that
    reports violations anyway, kinds of accepted trace that do not exist are skipped."""
    import copy
    cases, skipped = [], 0
    for what, want, select, corrupt in CORRUPTIONS:
        src = next((t for t in traces if verdicts[t["id"]]["ok"] and select(t)), None)
        if src is None:
            if strict:
                raise core.MachineryError("selftest: no accepted trace to corrupt for '%s'" % what)
            skipped += 1
            continue
        t = copy.deepcopy({k: src[k] for k in TRACE_KEYS})
        corrupt(t)
        t["id"] = len(cases) + 1
        cases.append((what, want, t))
    vs, _ = tlc.validate("TraceAdmin", "Trace_Admin.cfg", [c[2] for c in cases], shards=1)
    # a corrupted trace must be rejected; the clause named is normally the one the corruption aims at, but the trace
    # picked to be corrupted may also trip an earlier clause of the list once it is corrupted (seen at seed 5: a run
    # whose operator input had ended) - that is still a rejection
    wrong = [(what, want, vs[t["id"]]) for (what, want, t) in cases if vs[t["id"]]["ok"]]
    if wrong:
        raise core.MachineryError("trace specification accepts corrupted traces: %s" % wrong)
    return "%d corrupted traces, each rejected with the expected clause%s" % (
        len(cases), (" (%d kinds unavailable)" % skipped) if skipped else "")


def shape(classes):
    """Class sequence with repetitions collapsed (PIN lengths vary inside a class)."""
    return [c for k, c in enumerate(classes) if k == 0 or classes[k - 1] != c]


def compact(classes):
    out = []
    for c in classes:
        if out and out[-1][0] == c:
            out[-1][1] += 1
        else:
            out.append([c, 1])
    return ["%s x%d" % (c, n) if n > 1 else c for c, n in out]


def replay(ctx, path):
    with open(path) as f:
        data = json.load(f)
    rp = data["replay"]
    sc = admin_ops.Scenario(desc=rp["scenario"])
    prev = bytes(rp.get("prev_seed") or b"") or None
    t, dg = admin_ops.run(sc, ctx.scratch, "replay", prev_seed=prev)
    t["id"] = 1
    verdicts, _ = tlc.validate("TraceAdmin", "Trace_Admin.cfg", [{k: t[k] for k in TRACE_KEYS}], shards=1)
    print(json.dumps({"scenario": dg["desc"], "classes": compact(dg["classes"]), "outcome": t["outcome"],
                      "exception": dg["exc"], "files": t["files"], "verdict": verdicts[1]}, indent=1))
    return 0 if verdicts[1]["ok"] else 1
