"""C14 — clearing of signature placeholders is canonical and loses nothing else.
TLC: Unsign (idempotence, signature-independence, preservation over every small transaction) ; every model
transaction and random transactions through the real comm.bitcoin.get_unsigned_tx ; TraceUnsign compares
the relayed form (parsed by the harness's own parser) with Unsign(tx) computed by TLC; undecodable /
empty-script transactions go through the full sign path."""
import json
import random

from .. import core, enc, env, longrun, mgr, reqs, tlc, unsignx
from ..simdev import MODE_SIGNER
from ..transport import install


def real_unsign(txhex):
    env.setup()
    from comm.bitcoin import get_unsigned_tx
    return bytes.fromhex(get_unsigned_tx(txhex))


def tx_trace(tx, rng):
    st, keep, raw = unsignx.from_enc_tx(tx)
    t = {"kind": "tx", "tx": unsignx.tx_rec(st), "keep": list(keep), "parsed": False, "out": unsignx.tx_rec(st),
         "keepout": [], "raw": [], "raw2": [], "rawv": [], "code": 0, "contacted": False}
    try:
        out = real_unsign(raw.hex() if rng.random() < 0.75 else enc.respell(raw.hex(), rng))
    except Exception:
        # a decodable transaction the code refuses: an observation (nothing was relayed), judged by TLC
        t["raw"], t["raw2"], t["rawv"] = [256], [256], [256]
        return t, False
    t["raw"] = list(out)
    try:
        ost, okeep = unsignx.parse_tx(out)
        t["parsed"] = True
        t["out"] = unsignx.tx_rec(ost)
        t["keepout"] = list(okeep)
    except Exception:
        pass
    try:
        t["raw2"] = list(real_unsign(out.hex()))
    except Exception:
        t["raw2"] = [256]
    v, changed = unsignx.variant_non_final(tx, rng)
    try:
        t["rawv"] = list(real_unsign(enc.tx_bytes(v).hex()))
    except Exception:
        t["rawv"] = [256]
    return t, changed


BAD_TX = {
    "truncated": lambda raw, rng: raw[:rng.randint(1, len(raw) - 1)],
    "trailing": lambda raw, rng: raw + bytes(rng.getrandbits(8) for _ in range(rng.randint(1, 5))),
    "garbage": lambda raw, rng: bytes(rng.getrandbits(8) for _ in range(rng.randint(1, 60))),
    "huge_input_count": lambda raw, rng: raw[:4] + b"\xfe\xff\xff\xff\x7f" + raw[5:],
    "empty_script": None,
}


def run(ctx):
    res = core.Result()
    res.assumptions = [
        "comm/bitcoin.py is exercised on top of the bitcoin.core stand-in (python-bitcoinlib is not installed): "
        "the check decides comm/bitcoin.py + stand-in (DESIGN.md section 7)",
        "transactions are generated as structures; the relayed form is decoded by the harness's own parser",
        "'canonical' = every non-final operation is OP_0, the final push keeps its data and is encoded "
        "minimally for its length",
    ]
    r = tlc.check("Unsign", "MC_Unsign.cfg", workers=16)
    if r.violated:
        raise core.MachineryError("Unsign model violates %s" % r.violated)
    res.add_tlc(r, "MC_Unsign: 1 input, <= 3 operations over 13 kinds, variants by non-final mutation")
    if not ctx.quick:
        r2 = tlc.check("Unsign", "MC2_Unsign.cfg", workers=16, timeout=3000)
        if r2.violated:
            raise core.MachineryError("Unsign model (2 inputs) violates %s" % r2.violated)
        res.add_tlc(r2, "MC2_Unsign: 2 inputs, <= 2 operations")
    rn = tlc.run("Unsign", "Neg_Unsign.cfg", workers=2)
    if "NeverDiffers" not in rn.violated:
        raise core.MachineryError("vacuity guard: variants never differ")
    atxs, rg = tlc.generate("GenUnsign", "Gen_Unsign.cfg")
    res.add_tlc(rg, "Gen_Unsign abstract transactions")
    res.coverage["behaviours_generated"] = len(atxs)
    traces, info = [], {}
    variants = 0
    for ai, a in enumerate(atxs):
        for rep in range(ctx.pick(1, 4)):
            tx = unsignx.concretise(a, ctx.rng)
            t, ch = tx_trace(tx, ctx.rng)
            variants += 1 if ch else 0
            t["id"] = len(traces) + 1
            traces.append(t)
            info[t["id"]] = {"src": "model", "ops": [[o["k"] + ":" + o["e"] for o in i["ops"]] for i in a["ins"]]}
    res.coverage["behaviours_replayed"] = len(traces)
    n_rand = ctx.pick(600, 20000)
    history, n_again = [], 0
    for i in range(n_rand):
        tx = enc.random_tx(ctx.rng, n_in=ctx.rng.randint(1, 20 if ctx.rng.random() < 0.1 else 4),
                           n_out=ctx.rng.randint(0, 20 if ctx.rng.random() < 0.1 else 3), big=True)
        if i % 100 == 7:
            # scale: counts that need a three-byte varint, scripts beyond 64 KiB in total
            tx = enc.random_tx(ctx.rng, n_in=ctx.rng.choice([252, 253, 300, 700]), n_out=ctx.rng.choice([0, 1, 252, 253, 300]))
        for inp in tx["ins"]:
            if ctx.rng.random() < 0.3:
                inp["ops"] = enc.random_ops(ctx.rng, ctx.rng.randint(1, 8), big=True)
        t, ch = tx_trace(tx, ctx.rng)
        variants += 1 if ch else 0
        t["id"] = len(traces) + 1
        traces.append(t)
        info[t["id"]] = {"src": "random", "n_in": len(tx["ins"]), "n_out": len(tx["outs"]),
                         "ops": [[o[0] for o in i["ops"]] for i in tx["ins"]][:4]}
        # this process has cleared many transactions by now: earlier ones again, at the distances bounded tables have
        history.append(tx)
        if i < ctx.pick(300, 1200):
            for j, d in enumerate(longrun.DISTANCES):
                if i >= d and (i + j) % 6 == 0:
                    t2, _ = tx_trace(history[i - d], random.Random("again:%d:%d" % (i, d)))
                    t2["id"] = len(traces) + 1
                    traces.append(t2)
                    info[t2["id"]] = {"src": "again@%d" % d, "n_in": len(history[i - d]["ins"])}
                    n_again += 1
    res.coverage["random_transactions"] = n_rand
    res.coverage["transactions_cleared_again_later_in_the_run"] = n_again
    res.coverage["pairs_differing_in_non_final_operations"] = variants
    # undecodable / empty-script transactions through the full sign path
    world, proto = mgr.serving_manager()
    n_bad = ctx.pick(150, 3000)
    for i in range(n_bad):
        install(world)
        kind = ctx.rng.choice(sorted(BAD_TX))
        req, st = reqs.make(ctx.rng.choice(["sign_legacy", "sign_segwit"]), ctx.rng)
        raw = enc.tx_bytes(st["tx"])
        if kind == "empty_script":
            tx = dict(st["tx"])
            tx["ins"] = [dict(x) for x in tx["ins"]]
            tx["ins"][ctx.rng.randrange(len(tx["ins"]))]["ops"] = []
            bad = enc.tx_bytes(tx)
        else:
            bad = BAD_TX[kind](raw, ctx.rng)
            try:
                unsignx.parse_tx(bad)
                continue      # happened to stay decodable: not a member of the class
            except Exception:
                pass
        if not bad:
            continue
        req["message"]["tx"] = bad.hex()
        world.device.mode = MODE_SIGNER
        pending = (i % 3 == 2)
        proto._comm_issue = False
        if pending:
            # the request arrives while a link failure of an earlier request is still to be repaired
            world.reset_counters()
            world.faults = {0: ("read",)}
            mgr.handle_line(proto, json.dumps(reqs.make("getPubKey", ctx.rng)[0]).encode())
            world.reset_counters()
            if not proto._comm_issue:
                raise core.MachineryError("could not put the manager into the repair-pending state")
        if not pending and i % 2 == 0:
            # a decodable transaction is signed first (whatever the code remembers from it must not leak
            # into the answer to the undecodable one, however often that one is sent)
            good = reqs.make(ctx.rng.choice(["sign_legacy", "sign_segwit"]), ctx.rng)[0]
            mgr.handle_line(proto, json.dumps(good).encode())
        retries = [] if pending else list(range(ctx.rng.choice([0, 1, 2])))
        for _ in retries:
            n1 = len(world.log)
            o1 = mgr.handle_line(proto, json.dumps(req).encode())
            c1 = (o1.reply() or {}).get("errorcode")
            t1 = {"kind": "reject", "code": c1 if isinstance(c1, int) else 99,
                  "contacted": any(e["ev"] in ("apdu", "open", "close") for e in world.log[n1:]),
                  "tx": unsignx.tx_rec({"ver": 1, "ins": [], "outs": b"", "lock": b""}),
                  "out": unsignx.tx_rec({"ver": 1, "ins": [], "outs": b"", "lock": b""}),
                  "keep": [], "keepout": [], "parsed": False, "raw": [], "raw2": [], "rawv": []}
            t1["id"] = len(traces) + 1
            traces.append(t1)
            info[t1["id"]] = {"src": "reject", "class": kind + "@sent-again", "tx": bad.hex()[:200]}
        n0 = len(world.log)
        o = mgr.handle_line(proto, json.dumps(req).encode())
        rep = o.reply() or {}
        c = rep.get("errorcode")
        touched = any(e["ev"] in ("apdu", "open", "close") for e in world.log[n0:])
        if pending:
            proto._comm_issue = False
            try:
                if not proto.hsm2dongle.dongle.opened:
                    proto.hsm2dongle.connect()
            except Exception:
                proto.hsm2dongle.connect()
        t = {"kind": "reject", "code": c if isinstance(c, int) else 99,
             "contacted": touched,
             "tx": unsignx.tx_rec({"ver": 1, "ins": [], "outs": b"", "lock": b""}), "out": unsignx.tx_rec({"ver": 1, "ins": [], "outs": b"", "lock": b""}),
             "keep": [], "keepout": [], "parsed": False, "raw": [], "raw2": [], "rawv": []}
        t["id"] = len(traces) + 1
        traces.append(t)
        info[t["id"]] = {"src": "reject", "class": kind + ("@repair-pending" if pending else ""), "tx": bad.hex()[:200]}
    res.coverage["undecodable_or_empty_script"] = n_bad
    # what the device is handed for a transaction signed right after a transfer the device cut short (status word,
    # time-out) on the same manager: still the canonical form of *that* transaction
    import struct
    n_after = ctx.pick(40, 600)
    for i in range(n_after):
        install(world)
        world.device.mode = MODE_SIGNER
        proto._comm_issue = False
        reqA = reqs.make(ctx.rng.choice(["sign_legacy", "sign_segwit"]), ctx.rng)[0]
        world.reset_counters()
        world.faults = {ctx.rng.choice([1, 2, 3]): ctx.rng.choice([("sw", 0x6A88), ("sw", 0x6A8A), ("timeout",), ("sw", 0x6B00)])}
        mgr.handle_line(proto, json.dumps(reqA).encode())
        world.reset_counters()
        reqB, stB = reqs.make(ctx.rng.choice(["sign_legacy", "sign_segwit"]), ctx.rng)
        del world.device.sign_log[:]
        world.device.sign = None
        o = mgr.handle_line(proto, json.dumps(reqB).encode())
        sess = world.device.sign_log[-1] if world.device.sign_log else world.device.sign
        st, keep, raw = unsignx.from_enc_tx(stB["tx"])
        t = {"kind": "tx", "tx": unsignx.tx_rec(st), "keep": list(keep), "parsed": False, "out": unsignx.tx_rec(st),
             "keepout": [], "raw": [256], "raw2": [256], "rawv": [256], "code": 0, "contacted": True}
        try:
            btc = bytes(sess["got"]["btc"])
            extralen = struct.unpack("<H", btc[5:7])[0]
            relayed = btc[7:len(btc) - extralen]
            t["raw"] = list(relayed)
            t["rawv"] = list(relayed)
            ost, okeep = unsignx.parse_tx(relayed)
            t["parsed"], t["out"], t["keepout"] = True, unsignx.tx_rec(ost), list(okeep)
            t["raw2"] = list(real_unsign(relayed.hex()))
        except Exception:
            pass
        t["id"] = len(traces) + 1
        traces.append(t)
        info[t["id"]] = {"src": "after-cut-transfer", "reply": (o.reply() or {}).get("errorcode")}
    res.coverage["signed_after_a_cut_transfer"] = n_after
    # transactions whose serialisation as received is beyond 64 KiB, through the whole sign path (validation
    # included): what reaches the device is still the canonical form
    n_big = 0
    for n_in in ((450, 700) if ctx.quick else (450, 500, 700, 1200)):
        install(world)
        world.device.mode = MODE_SIGNER
        proto._comm_issue = False
        world.reset_counters()
        world.faults = {}
        reqB, stB = reqs.make(ctx.rng.choice(["sign_legacy", "sign_segwit"]), ctx.rng)
        stB["tx"] = enc.random_tx(ctx.rng, n_in=n_in, n_out=2, big=True)
        stB["input"] = ctx.rng.randrange(n_in)
        reqB["message"]["tx"] = enc.tx_bytes(stB["tx"]).hex()
        reqB["message"]["input"] = stB["input"]
        del world.device.sign_log[:]
        world.device.sign = None
        o = mgr.handle_line(proto, json.dumps(reqB).encode())
        sess = world.device.sign_log[-1] if world.device.sign_log else world.device.sign
        st, keep, raw = unsignx.from_enc_tx(stB["tx"])
        t = {"kind": "tx", "tx": unsignx.tx_rec(st), "keep": list(keep), "parsed": False, "out": unsignx.tx_rec(st),
             "keepout": [], "raw": [256], "raw2": [256], "rawv": [256], "code": 0, "contacted": True}
        try:
            btc = bytes(sess["got"]["btc"])
            extralen = struct.unpack("<H", btc[5:7])[0]
            relayed = btc[7:len(btc) - extralen]
            t["raw"] = list(relayed)
            t["rawv"] = list(relayed)
            ost, okeep = unsignx.parse_tx(relayed)
            t["parsed"], t["out"], t["keepout"] = True, unsignx.tx_rec(ost), list(okeep)
            t["raw2"] = list(real_unsign(relayed.hex()))
        except Exception:
            pass
        t["id"] = len(traces) + 1
        traces.append(t)
        info[t["id"]] = {"src": "beyond-64KiB-through-sign-path", "inputs": n_in, "bytes": len(raw),
                         "reply": (o.reply() or {}).get("errorcode")}
        n_big += 1
    res.coverage["transactions_beyond_64KiB_through_the_sign_path"] = n_big
    verdicts, stats = tlc.validate("TraceUnsign", "Trace_Unsign.cfg", traces, shards=14)
    res.checker_cmds.append("tlc -workers 1 -config Trace_Unsign.cfg TraceUnsign (x%d shards)" % stats["jvms"])
    accepted = 0
    for t in traces:
        v = verdicts[t["id"]]
        if v["ok"]:
            accepted += 1
            continue
        inf = info[t["id"]]
        sig = "%s|%s" % (v["clause"], inf.get("class", inf["src"]))
        res.violation(sig, "%s: %s" % (v["clause"], json.dumps(inf)[:600]), {"info": inf, "code": t["code"]})
    res.add_validation(stats, accepted)
    res.sample({"info": info[1]})
    res.sample({"info": info[len(traces)]})
    return res


def replay(ctx, path):
    with open(path) as f:
        print(json.dumps(json.load(f)["replay"], indent=1)[:2000])
    print("re-run ./check C14 with the same VERIF_SEED to reproduce")
    return 1
