"""C05 — advance / ancestor update hand the device the client's blocks intact.
TLC: BlockExchange (exhaustive) ; device scripts replayed with exact-length headers ; random real-shaped
headers x random firmware-like policies ; TraceBlockExchange judges what the device received."""
import json
import random

from .. import blockx, core, enc, mgr, reqs, tlc

BL = [3, 2]
BR = [[2], []]
UNITS = [40, 64, 100, 127]

from ..simdev import FaithfulBlockPolicy


def run(ctx):
    res = core.Result()
    res.assumptions = [
        "expected metadata / hashes / brother order from the harness's own RLP encoder, Keccak-256 and "
        "SHA-256 mid-state (enc.py), applied to the field lists the headers were generated from",
        "device simulator records what it receives and asks according to a scripted or random firmware-like "
        "policy (may stop asking for a header before its end; consumes announced brothers entirely)",
        "headers are syntactically valid RLP lists of 17..20 fields; chain validity is the device's business",
    ]
    for cfg in ("MC_BlockAdv.cfg", "MC_BlockAnc.cfg"):
        r = tlc.check("MC_BlockExchange", cfg, workers=8, coverage=True)
        if r.violated:
            raise core.MachineryError("BlockExchange model violates %s" % r.violated)
        res.add_tlc(r, cfg)
    for cfg, inv in (("NegT_BlockAdv.cfg", "NeverTotal"), ("NegP_BlockAdv.cfg", "NeverPartial")):
        rn = tlc.run("MC_BlockExchange", cfg, workers=2)
        if inv not in rn.violated:
            raise core.MachineryError("vacuity guard %s did not fire" % inv)
    bench = blockx.Bench()
    traces, info = [], {}
    drift = 0
    gen_total = 0
    for advance, cfg in ((True, "Gen_BlockAdv.cfg"), (False, "Gen_BlockAnc.cfg")):
        scripts, rg = tlc.generate("MC_BlockExchange", cfg)
        res.add_tlc(rg, cfg)
        gen_total += len(scripts)
        order = list(range(len(scripts)))
        ctx.rng.shuffle(order)
        if advance:
            order = order[:ctx.pick(700, len(order))]
        for si in order:
            sc = scripts[si]
            for rep in range(ctx.pick(1, 2)):
                unit = ctx.rng.choice(UNITS)
                blocks = blockx.tiny_blocks(ctx.rng, BL, BR, unit, advance)
                if blocks is None:
                    continue
                # the model's brothers are in ascending hash order already: sort them so that script
                # position k talks about the k-th brother the device will see
                pol = blockx.ScriptedBlockPolicy(sc["script"], unit, ctx.rng)
                t, meta = bench.run(blocks, advance, pol, ctx.rng, coop=sc["res"] in ("total", "partial"))
                exp_code = {"total": 0, "partial": 1}.get(sc["res"])
                if (exp_code is not None) != (t["code"] in (0, 1)) or (exp_code is not None and exp_code != t["code"]):
                    drift += 1
                t["id"] = len(traces) + 1
                traces.append(t)
                info[t["id"]] = dict(meta, src="model", advance=advance, script=sc["script"], unit=unit)
    res.coverage["behaviours_generated"] = gen_total
    res.coverage["behaviours_replayed"] = len(traces)
    n_rand = ctx.pick(250, 6000)
    # a second manager whose first block command is an ancestor update (the model scripts above began with
    # advances): whatever a manager sets up on first use of one command must not leak into the other
    bench = blockx.Bench()
    for i in range(n_rand):
        advance = ctx.rng.random() < 0.65 and i > 0
        n = ctx.rng.randint(1, 4)
        bro = [ctx.rng.choice([0, 0, 1, 2, 3, 10 if ctx.rng.random() < 0.1 else 1]) for _ in range(n)] if advance else None
        blocks = reqs.blocks(ctx.rng, n, advance, bro_counts=bro)
        faulty = ctx.rng.random() < 0.2
        pol = blockx.RandomBlockPolicy(random.Random(ctx.rng.random()), n, advance, p_fault=0.05 if faulty else 0.0)
        t, meta = bench.run(blocks, advance, pol, ctx.rng, coop=not faulty)
        t["id"] = len(traces) + 1
        traces.append(t)
        info[t["id"]] = dict(meta, src="random", advance=advance, brothers=bro, faulty=faulty)
    res.coverage["random_requests"] = n_rand
    # chains: the next request repeats a block of the previous one with *other* brothers (or none), or the same
    # brothers for another block - what the host remembers about a block is not what the device must be handed
    n_chain = ctx.pick(40, 1200)
    for i in range(n_chain):
        bl = reqs.blocks(ctx.rng, 2, True, bro_counts=[ctx.rng.choice([1, 2, 3]), ctx.rng.choice([0, 1, 2])])
        for link in range(3):
            if link > 0:
                other = reqs.blocks(ctx.rng, 2, True, bro_counts=[ctx.rng.choice([0, 1, 2, 3]), ctx.rng.choice([0, 2])])
                how = ctx.rng.choice(["swap_brothers", "other_brothers", "shift"])
                if how == "swap_brothers":
                    bl = [dict(bl[0], brothers=bl[1]["brothers"]), dict(bl[1], brothers=bl[0]["brothers"])]
                elif how == "other_brothers":
                    bl = [dict(bl[0], brothers=other[0]["brothers"]), dict(bl[1], brothers=other[1]["brothers"])]
                else:
                    bl = [dict(bl[1], brothers=other[0]["brothers"]), other[1]]
            stop = ctx.rng.choice([None, (1, "partial"), (1, "success")])
            pol = FaithfulBlockPolicy(stop_after=stop)
            t, meta = bench.run(bl, True, pol, ctx.rng, coop=True)
            t["id"] = len(traces) + 1
            traces.append(t)
            info[t["id"]] = dict(meta, src="chain", advance=True, link=link)
    res.coverage["chained_requests"] = n_chain * 3
    # a long run on one fresh manager: hundreds of distinct headers, earlier requests sent again at the distances
    # bounded tables have (in requests of five headers each: 256 headers lie 52 requests back)
    from .. import longrun
    lbench = blockx.Bench()
    seen, n_long = {}, 0
    for step in longrun.revisit_schedule(ctx.pick(90, 300), distances=(1, 2, 7, 12, 13, 25, 26, 51, 52, 53, 64, 65),
                                         every=ctx.pick(5, 3)):
        if step[0] == "new":
            seen[step[1]] = reqs.blocks(ctx.rng, 3, True, bro_counts=[1, 0, 1])
        bl = seen[step[1]]
        t, meta = lbench.run(bl, True, FaithfulBlockPolicy(), ctx.rng, coop=True)
        t["id"] = len(traces) + 1
        traces.append(t)
        info[t["id"]] = dict(meta, src="long-run", advance=True, step=step[0] if step[0] == "new" else "again@%d" % step[2])
        n_long += 1
    res.coverage["long_run_requests"] = n_long
    # a second failure on a link that has just been repaired: a link error on some request, then a block command
    # during which the manager first repairs the link and then loses the answer to one of its own exchanges (the
    # device did get what was sent): nothing may be sent twice, nothing may be reported as success
    dbench = blockx.Bench()
    n_double = 0
    for i in range(ctx.pick(60, 800)):
        install_world = dbench.world
        from ..transport import install as _install
        _install(install_world)
        install_world.reset_counters()
        install_world.faults = {0: (ctx.rng.choice(["read", "write"]),)}
        mgr.handle_line(dbench.proto, json.dumps(reqs.make("getPubKey", ctx.rng)[0]).encode())
        install_world.faults = {}
        install_world.reset_counters()
        advance = ctx.rng.random() < 0.6
        blocks = reqs.blocks(ctx.rng, 2, advance, bro_counts=[ctx.rng.choice([0, 1, 2]), 0] if advance else None)
        t, meta = dbench.run(blocks, advance, FaithfulBlockPolicy(), ctx.rng, coop=False, heal=False,
                             lost_answer_at=ctx.rng.randrange(1, 16))
        t["id"] = len(traces) + 1
        traces.append(t)
        info[t["id"]] = dict(meta, src="double-fault", advance=advance)
        n_double += 1
        if meta["shutdown"]:
            dbench = blockx.Bench()
    res.coverage["double_fault_requests"] = n_double
    # advance requests one of whose blocks has no merge-mining proof / coinbase transaction (17 or 18 fields, fine for
    # an ancestor update): nothing of that block may reach the device
    n_nocb = 0
    for i in range(ctx.pick(24, 300)):
        blocks = reqs.blocks(ctx.rng, 2, True, bro_counts=[0, 0], dup=False)
        j = i % 2
        f = enc.header_fields(ctx.rng, ctx.rng.choice([17, 18]))
        f[-1] = ctx.rng.choice([b"\x00\x00\x00\x20", b"\x01\x00\x00\x00", b"\x04\x00\x00\x00", bytes([ctx.rng.getrandbits(8)]) * 4]) \
            + bytes(ctx.rng.getrandbits(8) for _ in range(76))
        blocks[j] = {"fields": f, "cb": b"", "raw": enc.rlp_encode(f), "brothers": []}
        t, meta = lbench.run(blocks, True, FaithfulBlockPolicy(), ctx.rng, coop=False)
        t["id"] = len(traces) + 1
        traces.append(t)
        info[t["id"]] = dict(meta, src="no-coinbase-block", advance=True, bad=j + 1)
        n_nocb += 1
    res.coverage["advance_requests_with_a_block_without_coinbase"] = n_nocb
    # scale: counts that need more than a byte (255 / 256 / 257 blocks in one request, 255 brothers for one block)
    n_scale = 0
    for nb, bro in ((255, None), (256, None), (257, None), (2, [255, 1]), (1, [254])) if ctx.quick else \
            ((255, None), (256, None), (257, None), (300, None), (1000, None), (2, [255, 1]), (1, [254]), (3, [255, 255, 255])):
        for advance in ((True, False) if bro is None else (True,)):
            blocks = reqs.blocks(ctx.rng, nb, advance, bro_counts=(bro if bro is not None else [0] * nb) if advance else None,
                                 dup=False)
            t, meta = lbench.run(blocks, advance, FaithfulBlockPolicy(), ctx.rng, coop=True)
            t["id"] = len(traces) + 1
            traces.append(t)
            info[t["id"]] = dict(meta, src="scale", advance=advance, n_blocks=nb, brothers=bro)
            n_scale += 1
    res.coverage["requests_at_scale"] = n_scale
    # headers sized at the boundaries where the encodings change form
    n_bound = 0
    targets = blockx.BOUNDARY_LENGTHS + (blockx.BOUNDARY_LENGTHS_BIG if not ctx.quick else blockx.BOUNDARY_LENGTHS_BIG[-1:])
    for what in sorted(blockx.MEASURES):
        for target in targets:
            for advance in (True, False):
                blocks = blockx.boundary_blocks(ctx.rng, what, target, advance)
                if blocks is None:
                    continue
                pol = blockx.RandomBlockPolicy(random.Random(ctx.rng.random()), 1, advance) if ctx.rng.random() < 0.5 \
                    else FaithfulBlockPolicy()
                t, meta = bench.run(blocks, advance, pol, ctx.rng, coop=True)
                t["id"] = len(traces) + 1
                traces.append(t)
                info[t["id"]] = dict(meta, src="boundary", advance=advance, what=what, target=target)
                n_bound += 1
    res.coverage["boundary_sized_requests"] = n_bound
    res.coverage["model_drift"] = drift
    verdicts, stats = tlc.validate("TraceBlockExchange", "Trace_BlockExchange.cfg", traces, shards=14)
    res.checker_cmds.append("tlc -workers 1 -config Trace_BlockExchange.cfg TraceBlockExchange (x%d shards)" % stats["jvms"])
    accepted = 0
    outcomes = {}
    for t in traces:
        v = verdicts[t["id"]]
        outcomes[t["dev"]] = outcomes.get(t["dev"], 0) + 1
        if v["ok"]:
            accepted += 1
            continue
        inf = info[t["id"]]
        sig = "%s|%s" % (v["clause"], "advance" if t["advance"] else "ancestor")
        obs = {"dev": t["dev"], "code": t["code"], "blocks_seen": len(t["got"]["blocks"]),
               "lens": [(len(g["data"]), len(e["hdr"]), len(g["bros"]), len(e["bros"]))
                        for g, e in zip(t["got"]["blocks"], t["blocks"])]}
        res.violation(sig, "%s: %s" % (v["clause"], json.dumps({"info": {k: inf[k] for k in inf if k != "script"}, "obs": obs})),
                      {"info": inf, "obs": obs})
    res.add_validation(stats, accepted)
    res.coverage["device_outcomes"] = outcomes
    if not outcomes.get("total") or not outcomes.get("partial"):
        raise core.MachineryError("vacuity: no total / partial success observed")
    t0 = traces[0]
    res.sample({"info": {k: v for k, v in info[1].items()}, "dev": t0["dev"], "code": t0["code"],
                "blocks_seen": len(t0["got"]["blocks"])})
    return res


def replay(ctx, path):
    with open(path) as f:
        print(json.dumps(json.load(f)["replay"], indent=1)[:3000])
    print("re-run ./check C05 with the same VERIF_SEED to reproduce")
    return 1
