"""C04 — device outcomes map onto the documented result codes.
TLC: StatusMap (the middleware's tables vs the cause table, cell by cell) ; every cell is then produced
on the real manager by injecting the outcome at the chosen exchange ; TraceStatusMap judges the replies."""
import concurrent.futures as cf
import json
import multiprocessing as mp
import random

from .. import core, mgr, reqs, tlc
from ..simdev import SimDevice, MODE_SIGNER, FaithfulBlockPolicy

V5 = ["getPubKey", "sign_hash", "sign_legacy", "sign_segwit", "advanceBlockchain", "updateAncestorBlock",
      "resetAdvanceBlockchain", "blockchainState", "blockchainParameters", "signerHeartbeat", "uiHeartbeat",
      "uiHeartbeat@uihb"]     # the same command arriving while the device already is in UI-heartbeat mode
V1 = ["getPubKey", "sign_v1"]
# the same signer commands through HSM2DongleSGX over the TCP transport (no UI, hence no uiHeartbeat)
V5_SGX = ["getPubKey", "sign_hash", "sign_legacy", "advanceBlockchain", "updateAncestorBlock",
          "resetAdvanceBlockchain", "blockchainState", "blockchainParameters"]

NAMED = [0x6A87, 0x6A88, 0x6A89, 0x6A8A, 0x6A8B, 0x6A8C, 0x6A8D, 0x6A8E, 0x6A8F, 0x6A90, 0x6A91, 0x6A92,
         0x6A93, 0x6A94, 0x6A95, 0x6A96, 0x6A97, 0x6A98, 0x6A99] + list(range(0x6B87, 0x6BA2)) + \
        [0x6B10, 0x6B11, 0x6A01, 0x6A02, 0x6A03, 0x6A04, 0x6A05, 0x69A0, 0x6BEE, 0x6BEF, 0x6BF0, 0x6BF1,
         0x6BF2]
BOUNDARY = [0x0000, 0x6100, 0x61FF, 0x6200, 0x699F, 0x69A0, 0x69A1, 0x6BFE, 0x6BFF, 0x6C00, 0x6CFF, 0x6D00,
            0x6D01, 0x6E00, 0x6E11, 0x6F00, 0x6F01, 0x8FFF, 0x9001, 0xFFFF]


OPCODE_STEPS = {"path", "btc", "receipt", "merkle", "init", "meta", "chunk", "brolist", "brometa",
                "brochunk", "hash", "diff", "flags", "reset"}


def step_kind(cmd, apdu):
    c = apdu[1]
    op = apdu[2] if len(apdu) > 2 else None
    if c == 0x04:
        return "pubkey"
    if c == 0x02:
        return {0x01: "path", 0x02: "btc", 0x04: "receipt", 0x08: "merkle"}.get(op & 0x0F, "other")
    if c == 0x10:
        return {0x02: "init", 0x03: "meta", 0x04: "chunk", 0x07: "brolist", 0x08: "brometa",
                0x09: "brochunk"}.get(op, "other")
    if c == 0x30:
        return {0x02: "init", 0x03: "meta", 0x04: "chunk"}.get(op, "other")
    if c == 0x21:
        return "reset"
    if c == 0x20:
        return {0x01: "hash", 0x02: "diff", 0x03: "flags"}.get(op, "other")
    if c == 0x11:
        return "params"
    if c == 0x60:
        return "hbt"
    if c == 0x43:
        return "mode"
    if c == 0xFF:
        return "exit"
    return "other"


class Bench:
    """One long-lived manager per protocol version; state is reset between runs."""

    def __init__(self, version, platform="ledger", reverse=False):
        self.version = version
        self.platform = platform
        self.world, self.proto = mgr.serving_manager(version=version, platform=platform)
        self.reqs = {}
        for c in ((V5 if platform == "ledger" else V5_SGX) if version == 2 else V1):
            rng = random.Random("c04:" + c)
            req = reqs.make(c.split("@")[0], rng, 5 if version == 2 else 1)[0]
            if c == "advanceBlockchain":
                # make sure brothers are exercised: two blocks, brothers on the first
                bl = reqs.blocks(rng, 2, True, bro_counts=[2, 0])
                req = {"version": 5, "command": c, "blocks": [b["raw"].hex() for b in bl],
                       "brothers": [[x["raw"].hex() for x in b["brothers"]] for b in bl]}
            self.reqs[c] = json.dumps(req).encode()
        self.steps = {c: self._dry(c) for c in (reversed(list(self.reqs)) if reverse else self.reqs)}

    def reset(self, heal=True):
        from ..transport import install
        if not heal:
            # long runs: the manager is left to repair the link itself on the next request
            install(self.world)
            d = self.world.device
            d.mode = MODE_SIGNER
            d.sign = None
            d.blk = None
            d.exit_modes = []
            d.next_signature = None
            d.block_policy = FaithfulBlockPolicy()
            self.world.faults = {}
            self.world.fault_hook = None
            del self.world.log[:]
            return
        install(self.world)     # getDongle is patched globally: point it at this bench's world
        d = self.world.device
        d.mode = MODE_SIGNER
        d.sign = None
        d.blk = None
        d.exit_modes = []
        d.next_signature = None
        d.block_policy = FaithfulBlockPolicy()
        self.proto._comm_issue = False
        if hasattr(self.proto, "protocol_v2"):
            self.proto.protocol_v2._comm_issue = False
        self.world.reset_counters()
        self.world.connect_failures = 0
        for dg in self.world.dongles:
            del dg.queued[:]     # the bench skips the repair (flag cleared by hand): what a close would drop
        del self.world.log[:]
        # make sure the link object is open (a previous run may have closed it)
        try:
            dg = self.proto.hsm2dongle.dongle
            if not dg.opened:
                self.proto.hsm2dongle.connect()
        except Exception:
            self.proto.hsm2dongle.connect()
        del self.world.log[:]

    def prepare(self, c, heal=True):
        self.reset(heal)
        if c.endswith("@uihb"):
            from ..simdev import MODE_UIHB
            self.world.device.mode = MODE_UIHB

    def _dry(self, c):
        self.prepare(c)
        o = mgr.handle_line(self.proto, self.reqs[c])
        # (if the fault-free run does not succeed the steps seen so far are used; the fault-free cell itself is
        # produced and judged with the others: kind "none" allows only code 0)
        return [step_kind(c, e["apdu"]) for e in self.world.log if e["ev"] == "apdu"]

    def run(self, c, idx, fault, heal=True):
        self.prepare(c, heal)
        if fault is not None and heal:
            self.world.faults = {idx: fault}
        elif fault is not None:
            # (in a long run the faulted request never has a repair pending: healthy requests come in between)
            self.world.reset_counters()
            self.world.faults = {idx: fault}
        o = mgr.handle_line(self.proto, self.reqs[c])
        rep = o.reply()
        code = rep.get("errorcode") if rep else None
        has = isinstance(code, int) and not isinstance(code, bool)
        return (code if has else 0), has, bool(o.shutdown)


_BENCH = {}


def _bench(version, platform="ledger"):
    if (version, platform) not in _BENCH:
        # "rev": another Ledger manager, used with the commands in reverse order (what a manager sets up on the
        # first use of one command must not decide how another command's outcomes are translated)
        _BENCH[(version, platform)] = Bench(version, "ledger" if platform == "rev" else platform, reverse=platform == "rev")
    return _BENCH[(version, platform)]


def cell(version, c, step, kind, sw, out):
    code, has, shut = out
    name = "sign_hash" if c == "sign_v1" else c.split("@")[0]
    return {"v1": version == 1, "cmd": name, "step": step, "kind": kind, "sw": sw, "code": code,
            "hascode": has, "shutdown": shut}


def work(task):
    version, c, idx, step, sws, others = task[:6]
    plat = task[6] if len(task) > 6 else "ledger"
    b = _bench(version, plat)
    out = []
    for sw in sws:
        out.append(cell(version, c, step, "sw", sw, b.run(c, idx, ("sw", sw))))
    for k in others:
        if k == "wrongop" and step not in OPCODE_STEPS:
            continue    # answers of these exchanges carry no opcode the host could find wrong
        if k in ("write", "read") and step == "exit":
            continue    # a link error is the device's normal answer to EXIT (DESIGN.md, C11)
        if k == "wrongop":
            r = b.run(c, idx, ("op", 0x7E))
        else:
            r = b.run(c, idx, (k,))
        out.append(cell(version, c, step, k, 0, r))
    for x in out:
        x["plat"] = plat
    return (version, c, idx), out


def long_run_cells(n_errors):
    """One fresh manager left to itself: link errors at varying exchanges, each followed by healthy requests that
    the manager must repair the link for and answer with the device's success - dozens of times over."""
    b = Bench(2)
    rng = random.Random("c04:long:%d" % n_errors)
    names = [c for c in b.reqs if "@" not in c and b.steps.get(c)]
    out = []
    for k in range(n_errors):
        c = names[k % len(names)]
        idx = rng.randrange(len(b.steps[c]))
        if b.steps[c][idx] == "exit":
            idx = 0
        kind = rng.choice(["read", "write"])
        x = cell(2, c, b.steps[c][idx], kind, 0, b.run(c, idx, (kind,), heal=False))
        x["long"] = "error#%d" % (k + 1)
        out.append(x)
        for j in range(2):
            c2 = names[(k + 1 + j) % len(names)]
            y = cell(2, c2, "all", "none", 0, b.run(c2, 0, None, heal=False))
            y["long"] = "after-error#%d" % (k + 1)
            out.append(y)
    for x in out:
        x["plat"] = "long"
    return out


def success_cells(version):
    b = _bench(version)
    out = []
    for c in b.reqs:
        out.append(cell(version, c, "all", "none", 0, b.run(c, 0, None)))
    if version == 2:
        # well-formed successful answers at the edges of their encodings (the firmware strips leading zeros of the
        # difficulty: 0 is an empty payload, the maximum has 36 bytes) must still be reported as success
        d = b.world.device
        saved = (d.state_diff, d.state_flags)
        for diff in (b"", b"\x01", b"\x00\x01", b"\xff" * 36, b"\x80" + bytes(35), bytes(36), b"\x01" + bytes(32)):
            for flags in (bytes(3), b"\x01\x01\x01"):
                b.reset()
                d.state_diff, d.state_flags = diff, flags
                out.append(cell(version, "blockchainState", "all", "none", 0, b.run("blockchainState", 0, None)))
        d.state_diff, d.state_flags = saved
        b.reset()
        b.world.device.block_policy = FaithfulBlockPolicy(stop_after=(1, "partial"))
        o = mgr.handle_line(b.proto, b.reqs["advanceBlockchain"])
        rep = o.reply() or {}
        code = rep.get("errorcode")
        out.append(cell(2, "advanceBlockchain", "all", "partial", 0,
                        (code if isinstance(code, int) else 0, isinstance(code, int), bool(o.shutdown))))
        for c in ("sign_hash", "sign_legacy", "signerHeartbeat"):
            for bad in (b"", b"\x30", b"\x30\x06\x02\x01\x01\x03\x01\x01", b"\x32\x06\x02\x01\x01\x02\x01\x01",
                        b"\x30\x08\x02\x04\x01\x02"):
                b.reset()
                if c == "signerHeartbeat":
                    old = b.world.device.hb["sig"]
                    b.world.device.hb["sig"] = bad
                else:
                    b.world.device.next_signature = bad
                try:
                    o = mgr.handle_line(b.proto, b.reqs[c])
                finally:
                    if c == "signerHeartbeat":
                        b.world.device.hb["sig"] = old
                rep = o.reply()
                code = rep.get("errorcode") if rep else None
                has = isinstance(code, int) and not isinstance(code, bool)
                out.append(cell(2, c, "all", "badanswer", 0, (code if has else 0, has, bool(o.shutdown))))
    return out


def run(ctx):
    res = core.Result()
    res.assumptions = [
        "status words with their causes as named in firmware/src/powhsm/src/{auth.h,bc_err.h,err.h,heartbeat.h}",
        "pass-through status words (0x9000, 0x61xx, 0x6Cxx on the HID transport) carry the device's ordinary "
        "answer data; error status words carry no data",
        "one scenario per command (fixed request), faults injected at every exchange index of it",
        "device simulator as in DESIGN.md Appendix E; transport model reproduces ledgerblue's classification",
    ]
    full = not ctx.quick
    r = tlc.check("StatusMap", "MCfull_StatusMap.cfg" if full else "MC_StatusMap.cfg", workers=16 if full else 4)
    res.add_tlc(r, "StatusMap tables vs cause table (%s status words per step)" % ("65536" if full else "78"))
    if r.violated:
        # the transcription of the middleware's tables disagrees with the cause table: the traces
        # below decide whether the real code does too
        res.coverage["model_table_violates"] = r.violated
    tasks = []
    n_idx = 0
    for version, cmds in ((2, V5), (1, V1)):
        b = _bench(version)
        for c in cmds:
            steps = b.steps[c]
            seen_kind = {}
            for idx, st in enumerate(steps):
                n_idx += 1
                first_of_kind = st not in seen_kind
                seen_kind[st] = True
                if full:
                    sws = list(range(0x10000)) if first_of_kind else \
                        sorted(set(NAMED + BOUNDARY + [ctx.rng.randrange(0x10000) for _ in range(40)]))
                else:
                    extra = [ctx.rng.randrange(0x69A0, 0x6C00) for _ in range(3)] + \
                            [ctx.rng.randrange(0x10000) for _ in range(3)]
                    sws = sorted(set((NAMED if first_of_kind else NAMED[::3]) + BOUNDARY + extra))
                for i in range(0, len(sws), 4096):
                    tasks.append((version, c, idx, st, sws[i:i + 4096],
                                  ["timeout", "write", "read", "wrongop"] if i == 0 else []))
    # the SGX platform: HSM2DongleSGX over the TCP transport (0x6Cxx is an error there and 0x61xx starts
    # a GET RESPONSE loop inside the transport: both are left to the HID pass, whose reference table they belong to)
    b = _bench(2, "sgx")
    n_sgx = 0
    for c in V5_SGX:
        seen_kind = {}
        for idx, st in enumerate(b.steps[c]):
            first_of_kind = st not in seen_kind
            seen_kind[st] = True
            if not first_of_kind and ctx.quick:
                continue
            base = NAMED + BOUNDARY + ([ctx.rng.randrange(0x10000) for _ in range(400)] if full else [])
            sws = sorted({w for w in (base if (full or first_of_kind) else base[::3]) if (w & 0xFF00) not in (0x6C00, 0x6100)})
            tasks.append((2, c, idx, st, sws, ["timeout", "wrongop"], "sgx"))
            n_sgx += 1
    res.coverage["exchange_indices_sgx"] = n_sgx
    b = _bench(2, "rev")
    n_rev = 0
    for c in reversed(V5):
        seen_kind = {}
        for idx, st in enumerate(b.steps[c]):
            if st in seen_kind:
                continue
            seen_kind[st] = True
            tasks.append((2, c, idx, st, sorted(set(NAMED if full else NAMED[::2])), ["timeout"], "rev"))
            n_rev += 1
    res.coverage["exchange_indices_reverse_order"] = n_rev
    res.coverage["exchange_indices"] = n_idx
    cells = []
    if full:
        ctxmp = mp.get_context("fork")
        with cf.ProcessPoolExecutor(max_workers=16, mp_context=ctxmp) as ex:
            for key, out in ex.map(work, tasks, chunksize=1):
                cells.extend(out)
    else:
        for t in tasks:
            cells.extend(work(t)[1])
    cells.extend(success_cells(2))
    long_cells = long_run_cells(ctx.pick(70, 400))
    cells.extend(long_cells)
    res.coverage["long_run_link_errors"] = ctx.pick(70, 400)
    cells.extend(success_cells(1))
    res.coverage["cells_executed"] = len(cells)
    res.coverage["distinct_cell_classes"] = len({(c["v1"], c["cmd"], c["step"], c["kind"]) for c in cells})
    # TLC judges every cell (batches of cells per trace; a batch does not stop at a failing cell)
    for i, c in enumerate(cells):
        c["id"] = "c%d" % i
    B = 2000
    batches = [{"id": "B%d" % (i // B), "cells": cells[i:i + B]} for i in range(0, len(cells), B)]
    fails, done, stats = tlc.validate_cells("TraceStatusMap", "Trace_StatusMap.cfg", batches, shards=16)
    if len(done) != len(batches):
        raise core.MachineryError("trace validation did not finish every batch (%d of %d)" % (len(done), len(batches)))
    res.checker_cmds.append("tlc -workers 1 -config Trace_StatusMap.cfg TraceStatusMap (x%d shards)" % stats["jvms"])
    bad_cells = [(c, fails[c["id"]]) for c in cells if c["id"] in fails]
    res.add_validation(stats, len(cells) - len(bad_cells))
    for c, clause in bad_cells:
        sig = "%s|%s cmd=%s step=%s kind=%s%s%s" % (
            clause, "v1" if c["v1"] else "v5", c["cmd"], c["step"], c["kind"],
            (" sw=%s" % sw_class(c["sw"])) if c["kind"] == "sw" else "",
            (" plat=%s" % c["plat"]) if c.get("plat") in ("sgx", "rev") else "")
        res.violation(sig, "%s: %s at step %s, outcome %s%s -> reply code %s%s" % (
            clause, c["cmd"], c["step"], c["kind"], (" 0x%04X" % c["sw"]) if c["kind"] == "sw" else "",
            c["code"] if c["hascode"] else "<none>", ", manager stops" if c["shutdown"] else ""), {"cell": c})
    from .. import manager_phase
    manager_phase.run_phase(ctx, res, "C04")
    for c in cells[:3] + cells[-2:]:
        res.sample(c)
    return res


def sw_class(sw):
    if sw in NAMED:
        return "0x%04X" % sw
    if (0x69A0 <= sw <= 0x6BFF) or sw == 0x6D00:
        return "other-in-device-range"
    return "outside-device-range"


def replay(ctx, path):
    with open(path) as f:
        c = json.load(f)["replay"]["cell"]
    version = 1 if c["v1"] else 2
    cmd = "sign_v1" if (c["v1"] and c["cmd"] == "sign_hash") else c["cmd"]
    b = _bench(version)
    outs = []
    for idx, st in enumerate(b.steps[cmd]):
        if st != c["step"] and c["step"] != "all":
            continue
        fault = {"sw": ("sw", c["sw"]), "wrongop": ("op", 0x7E)}.get(c["kind"], (c["kind"],))
        if c["kind"] in ("none", "partial", "badanswer"):
            fault = None
        outs.append(cell(version, cmd, st, c["kind"], c["sw"], b.run(cmd, idx, fault)))
        break
    for i, o in enumerate(outs):
        o["id"] = "c%d" % i
    fails, done, _ = tlc.validate_cells("TraceStatusMap", "Trace_StatusMap.cfg", [{"id": "B0", "cells": outs}])
    print(json.dumps({"cells": outs, "failing": fails}, indent=1))
    return 0 if not fails else 1
