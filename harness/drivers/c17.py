"""C17 — signer authorizations contain what the device will check.
TLC: SignerAuth (exhaustive) ; GenSignerAuth (all class x m x k behaviours) -> replay through the real
SignerVersion / SignerAuthorization, signapp and do_authorize_signer / HSM2Dongle.authorize_signer
against a UI simulator -> TraceSignerAuth judges every recorded execution."""
import json
import os
import time

from .. import core, tlc
from .. import signauth as sa

HEXD = "0123456789abcdef"
ACTIONS = ("Build", "RefusedAuthorize", "Step", "StepsDone", "RoundTrip", "SigVer", "SendSig", "Finish",
           "AfterAuth", "StartHistory", "HOp", "HistDone")
MACHINERY_CLAUSES = ("OracleText", "UnknownEvent", "Stuck", "SignWithoutAuthorization",
                     "ContentWithoutAuthorization",
                     "RoundTripWithoutAuthorization")


# ------------------------------------------------------------------------------------------------
# concretisation: abstract class -> real values
def make_hash(cls, rng, raw=None):
    raw = raw if raw is not None else bytes(rng.getrandbits(8) for _ in range(32))
    hx = raw.hex()
    h = {"cls": cls, "kind": "str", "raw": raw}
    if cls == "lower":
        h["s"] = hx
    elif cls == "upper":
        h["s"] = hx.upper()
    elif cls == "mixed":
        h["s"] = "".join(c.upper() if rng.random() < 0.5 else c for c in hx)
        if h["s"] in (hx, hx.upper()):
            h["s"] = hx[:32].upper() + hx[32:]
    elif cls == "short":
        h["s"] = hx[:62]
    elif cls == "odd":
        h["s"] = hx[:63]
    elif cls == "long":
        h["s"] = hx + "%02x" % rng.getrandbits(8)
    elif cls == "nonhex":
        i = rng.randrange(64)
        h["s"] = hx[:i] + rng.choice("gxz_-") + hx[i + 1:]
    elif cls == "prefixed":
        h["s"] = "0x" + hx
    elif cls == "prefixed_samelen":
        h["s"] = "0x" + hx[:62]
    elif cls == "empty":
        h["s"] = ""
    elif cls == "spaced":
        h["s"] = " ".join(hx[i:i + 2] for i in range(0, 64, 2))
    elif cls == "prefixed_upper":
        h["s"] = "0X" + hx
    elif cls == "lead_ws":
        h["s"] = rng.choice((" ", "\t", "\n")) + hx
    elif cls == "trail_ws":
        h["s"] = hx + rng.choice((" ", "\t", "  "))
    elif cls == "trail_nl":
        h["s"] = hx + rng.choice(("\n", "\r\n"))
    elif cls == "odd_extra0":
        h["s"] = rng.choice((hx + "0", "0" + hx))
    elif cls == "nonascii":
        h["s"] = sa.spell(hx, "nonascii", rng)
    elif cls == "other":
        h["kind"] = "other"
        h["s"] = ""
        h["py"] = rng.choice([None, 5, int(hx, 16), [hx], {"h": hx}, True])
    else:
        raise ValueError(cls)
    return h


def mid_value(rng):
    while True:
        v = rng.randrange(2, 65535)
        if (v >> 8) != (v & 0xFF):
            return v


def make_iter(cls, rng, mid=None):
    mid = mid if mid is not None else mid_value(rng)
    t = {"int_0": ("int", 0), "int_1": ("int", 1), "int_mid": ("int", mid), "int_max": ("int", 65535),
         "int_neg": ("int", -1), "int_over": ("int", 65536),
         "dec_0": ("str", "0"), "dec_mid": ("str", str(mid)), "dec_max": ("str", "65535"),
         "dec_neg": ("str", "-1"), "dec_over": ("str", "65536"),
         "hex_mid": ("str", "0x%x" % mid), "hex_max": ("str", "0xffff"), "hex_max_upper": ("str", "0xFFFF"),
         "dec_lead0": ("str", "0" * rng.randint(1, 3) + str(rng.choice((mid, mid, 7, 8, 9, 45)))),
         "dec_lead0_max": ("str", "0" * rng.randint(1, 3) + "65535"),
         "hex_pad": ("str", rng.choice(("0x%04x", "0x%04X", "0x%06x")) % rng.choice((mid, 1, 0x2d))),
         "bin": ("str", rng.choice(("0b", "0B")) + bin(rng.choice((0, 1, 5, mid)))[2:]),
         "oct": ("str", rng.choice(("0o", "0O")) + oct(rng.choice((0, 7, 15, mid)))[2:]),
         "hex_upper_prefix": ("str", "0X%x" % rng.choice((0, 31, mid, 65535))),
         "hex_over": ("str", "0x10000"),
         "float": ("float", rng.choice((0, 1, mid, 65535))), "bool": ("bool", rng.choice((0, 1))),
         "none": ("none", 0),
         "junk_alpha": ("str", rng.choice(("abc", "ten", "x", "zero"))),
         "junk_point": ("str", rng.choice(("1.5", "1.0", "12,5", "3/4", "#12"))),
         "junk_empty": ("str", ""),
         "hex_mixedcase": ("str", "0x" + sa.spell("%04x" % (mid | 0xA00B), "mixed", rng)),
         # spellings the property leaves open (spec: FreeIters)
         "sp_lead_ws": ("str", rng.choice((" ", "\t", "\n", "  ")) + str(mid)),
         "sp_trail_ws": ("str", str(mid) + rng.choice((" ", "\t", "  "))),
         "sp_trail_nl": ("str", str(mid) + rng.choice(("\n", "\r\n"))),
         "sp_inner_ws": ("str", str(mid)[:1] + " " + str(mid)[1:]),
         "sp_plus": ("str", "+" + str(mid)),
         "sp_underscore": ("str", str(mid)[:1] + "_" + str(mid)[1:]),
         "sp_nonascii": ("str", "".join(chr(rng.choice((0x660, 0xFF10)) + int(c)) for c in str(mid))),
         "sp_neg_zero": ("str", "-0"),
         "sp_hex_trail_ws": ("str", "0x%x" % mid + rng.choice((" ", "\n", "\t"))),
         "sp_hex_lead_ws": ("str", " 0x%x" % mid),
         "sp_hex_underscore": ("str", "0x" + ("%x" % mid)[:1] + "_" + ("%x" % mid)[1:])}[cls]
    it = {"cls": cls, "form": t[0], "val": 0, "s": ""}
    if cls.startswith("sp_"):
        it["n"] = 0 if cls == "sp_neg_zero" else mid
    if cls == "hex_mixedcase":
        it["n"] = mid | 0xA00B
    if t[0] == "str":
        it["s"] = t[1]
    else:
        it["val"] = t[1]
    return it


def iter_value(it):
    """the integer a well-formed iteration input denotes (harness side, for building fixtures only)"""
    if it["form"] == "int":
        return it["val"]
    if "n" in it:
        return it["n"]
    s = it["s"]
    return int(s[2:], 16) if s.startswith("0x") else int(s)


def iter_class_of(it):
    """abstract class of a concrete iteration input (for signatures / coverage)"""
    f = it["form"]
    if f != "str":
        if f == "int":
            v = it["val"]
            return "int_neg" if v < 0 else "int_over" if v > 65535 else \
                {0: "int_0", 1: "int_1", 65535: "int_max"}.get(v, "int_mid")
        return f
    s = it["s"]
    body = s[2:] if s.startswith("0x") else s
    if s.startswith("0x") and body and all(c in "0123456789abcdefABCDEF" for c in body):
        v = int(body, 16)
        if len(body) > 1 and body[0] == "0":
            return "hex_over" if v > 65535 else "hex_pad"
        return "hex_over" if v > 65535 else "hex_max" if v == 65535 else "hex_0" if v == 0 else "hex_mid"
    if s.isascii() and s.isdigit():
        v = int(s)
        if len(s) > 1 and s[0] == "0":
            return "dec_over" if v > 65535 else "dec_lead0_max" if v == 65535 else "dec_lead0"
        return "dec_over" if v > 65535 else {0: "dec_0", 65535: "dec_max"}.get(v, "dec_mid")
    if s[:2] in ("0b", "0B"):
        return "bin"
    if s[:2] in ("0o", "0O"):
        return "oct"
    if s[:2] == "0X":
        return "hex_upper_prefix"
    if s.startswith("-") and s[1:].isascii() and s[1:].isdigit():
        return "dec_neg"
    return "junk"


class Fixture:
    """Keys of one run: a pool of authorizer / stranger keys (seeded)."""

    def __init__(self, rng, n=14):
        self.rng = rng
        self.keys = [sa.Key(rng) for _ in range(n)]
        self._style = 0

    def next_style(self):
        """command-line styles in turn (deterministic cycling, so that every style meets every shape)"""
        self._style += 1
        return sa.STYLES[self._style % len(sa.STYLES)]

    def key(self):
        return self.rng.choice(self.keys)


def plan_exchange(fx, rng, h, n, total, k, tool_pos):
    tool_positions = set() if tool_pos is None else ({tool_pos} if isinstance(tool_pos, int) else set(tool_pos))
    return _plan_exchange(fx, rng, h, n, total, k, tool_positions)


def _plan_exchange(fx, rng, h, n, total, k, tool_positions):
    """Choose who signs each of the `total` file positions so that a device with `threshold` reaches it
    exactly at position k (or never, k = 99). Returns (signers, device authorizers, threshold) where
    signers[i] = (key, kind) with kind in valid | stranger | wrongdigest | duplicate.
    `tool_pos` (or None) is the position a signapp-produced signature will occupy (always signs the
    right digest with its own key; it is valid iff its key is made an authorizer)."""
    keys = list(fx.keys)
    rng.shuffle(keys)
    if k != 99:
        thr = rng.randint(1, min(k, 4))
        valid = set(rng.sample(range(1, k), thr - 1)) | {k}
    else:
        nvalid = rng.randint(0, min(total, 3))
        valid = set(rng.sample(range(1, total + 1), nvalid))
        thr = nvalid + rng.randint(1, 2)
    signers, auth, used = {}, [], []
    for pos in range(1, total + 1):
        key = keys.pop() if keys else sa.Key(rng)
        if pos in valid or (k != 99 and pos > k and rng.random() < 0.5):
            signers[pos] = (key, "valid")
            auth.append(key.pub)
            used.append(key)
        else:
            kinds = ["stranger", "wrongdigest"] + (["duplicate"] if used else [])
            kind = rng.choice(kinds) if pos not in tool_positions else "stranger"
            if kind == "duplicate":
                key = rng.choice(used)
            elif kind == "wrongdigest":
                auth.append(key.pub)
            signers[pos] = (key, kind)
    while len(auth) < max(thr, 1) or (len(auth) < 10 and rng.random() < 0.5):
        auth.append(keys.pop().pub if keys else sa.Key(rng).pub)
    rng.shuffle(auth)
    return signers, auth, thr


def make_sig(key, kind, h, n, rng):
    if kind == "wrongdigest":
        alt = rng.choice(("iter", "hash", "nowrap", "sha3"))
        if alt == "iter":
            d = sa.oracle_digest(h, (n + 1) % 65536)
        elif alt == "hash":
            d = sa.oracle_digest(bytes([h[0] ^ 1]) + h[1:], n)
        elif alt == "nowrap":
            d = sa.keccak256(sa.msg_text(h, n))
        else:
            d = sa.sha3_256(sa.eip191(sa.msg_text(h, n)))
    else:
        d = sa.oracle_digest(h, n)
    return key.sign(d, high_s=rng.random() < 0.4).hex()


# ------------------------------------------------------------------------------------------------
def hash_rec(hin):
    r = {"kind": hin["kind"], "s": hin["s"]}
    if hin["kind"] != "str":
        r["py"] = hin["py"]
    return r


def iter_rec(iin):
    return {"form": iin["form"], "val": iin["val"], "s": iin["s"]}


def sources(b, rng):
    """entry paths a behaviour is replayed through: one (seeded) for well-formed bases, every applicable
    one for single-deviation behaviours (constructor, from_jsonfile, signapp -i for iteration texts)"""
    e = b["env"]
    if e["mut"] == "absent":
        return ["absent"]
    can_signapp = e["m"] == 0 and e["hcls"] == "lower" and e["mut"] in ("none", "iter", "iterspell") \
        and not e["icls"].startswith(("int_", "float", "bool", "none"))
    if e["mut"] == "none":
        if can_signapp and rng.random() < 0.7:
            return ["signapp"]
        return [rng.choice(("api", "file"))]
    return ["api", "file"] + (["signapp"] if can_signapp else [])


OTHER_PATHS_A = ("m/44'/60'/0'/0/1", "m/44'/60'/0'/0/2", "m/44'/60'/1'/0/0", "m/44'/60'/0'/1/0")
OTHER_PATHS_B = ("m/44'/137'/0'/0/0", "m/44'/1'/0'/0/0", "m/44'/0'/0'/0/0", "m/44'/137'/1'/0/0", "m/0/1/2/3/4")
ACCEPTED_SPELLINGS = ("upper", "mixed", "lead_ws", "trail_ws", "inner_ws", "trail_nl")
BAD_ITER_ARGS = ("65536", "70000", "0x10000", "abc", "1.5", "0b1", "")


def arg_text(shape, n, rng):
    """the -i text of a step: `n` is the iteration the arguments name"""
    if shape == "respelled":
        return rng.choice(("0x%x", "0x%04X", "0%d", "0x%06x")) % n
    if shape == "bad_iter":
        return rng.choice(BAD_ITER_ARGS)
    return str(n)


def run_behaviour(ctx, fx, b, tag, src):
    """One generated behaviour + entry path -> a concrete recipe -> one recorded execution."""
    rng = ctx.rng
    e = b["env"]
    steps = e["steps"]
    absent = e["mut"] == "absent"
    session = absent or len(steps) >= 2 or any(st["args"] != "none" for st in steps)
    mid = mid_value(rng)
    while mid > 65000:
        mid = mid_value(rng)
    iin = make_iter(e["icls"], rng, mid=mid)
    m = e["m"]
    if absent:
        src = "absent"
    desc = {"hcls": e["hcls"], "icls": e["icls"], "m": m, "mut": e["mut"], "at": e["at"], "kind": e["kind"],
            "tool": e["tool"], "cur": e["cur"], "k": e["k"], "src": src,
            "steps": [[st["op"], st["args"], st["file"]] for st in steps]}
    cont = absent or (b["built"] == "built" and b["verdict"] == "")    # the model goes on after the build
    recipe = {}
    apps = {"A": bytes(rng.getrandbits(8) for _ in range(rng.randrange(1, 200))),
            "B": bytes(rng.getrandbits(8) for _ in range(rng.randrange(1, 200)))}
    sha = {k: __import__("hashlib").sha256(v).digest() for k, v in apps.items()}
    if src == "signapp":
        recipe["app"] = apps["A"].hex()
    if session or src == "signapp":
        hin = make_hash("lower", rng, raw=sha["A"])
        recipe["apps"] = {k: v.hex() for k, v in apps.items()}
    else:
        hin = make_hash(e["hcls"], rng)
        sha["A"] = hin["raw"]
    try:
        n0 = iter_value(iin)
    except ValueError:
        n0 = 1
    if not (isinstance(n0, int) and 0 <= n0 <= 65535) or (not cont and e["mut"] in ("iter", "iterspell")):
        n0 = 1
    if absent:
        n0 = mid
    # follow the model's steps to know which version / which signatures the final file holds
    cur_ver = ("A", n0)
    items = [("init", i) for i in range(m)] if not absent else []
    ver_at = {it: cur_ver for it in items}
    stepn = []
    for si, st in enumerate(steps if cont else []):
        an = 65536 if st["args"] == "bad_iter" else n0 + (st["an"] - 258)
        stepn.append(an)
        if not st["ok"] or st["op"] == "eth_pub":
            continue
        if st["op"] == "message":
            cur_ver, items = (st["ah"], an), []
        else:
            if st["op"] in ("key", "eth") and st["file"] == "absent":
                cur_ver = (st["ah"], an)
            items.append(("step", si))
            ver_at[("step", si)] = cur_ver
    total = len(items)
    if cont and total != b["nsigs"] and e.get("mode") != "history":
        raise core.MachineryError("concretiser and model disagree on the final file: %s vs %s (%s)" % (
            total, b["nsigs"], json.dumps(e)))
    h, n = sha[cur_ver[0]], cur_ver[1]
    k = e["k"] if cont and e["cur"] == "below" else 99
    desc["total"] = total
    tool_positions = {i + 1 for i, it in enumerate(items)
                      if it[0] == "step" and steps[it[1]]["op"] in ("key", "eth")}
    history = e.get("mode") == "history"
    if history:     # every signature of the file is a good one by its own key; devices differ per operation
        hkeys = list(fx.keys)
        rng.shuffle(hkeys)
        signers, auth, thr = {i + 1: (hkeys[i], "valid") for i in range(total)}, [], 1
    else:
        signers, auth, thr = plan_exchange(fx, rng, h, n, total, k, tool_positions)
    # signapp eth / eth -b: an Ethereum app (seed) with one key per path, the path the operator selects;
    # in a third of the signing cases the app's (r, s) has a short member
    eth_cfg = {}
    pos_of = {it: i + 1 for i, it in enumerate(items)}
    for si, st in enumerate(steps if cont else []):
        if st["op"] not in ("eth", "eth_pub"):
            continue
        sel = {"absent": None, "default": sa.DEFAULT_ETH_PATH,
               "other_a": rng.choice(OTHER_PATHS_A), "other_b": rng.choice(OTHER_PATHS_B)}[st["pth"]]
        high_s = rng.random() < 0.4
        seed = bytes(rng.getrandbits(8) for _ in range(16))
        it = ("step", si)
        if st["op"] == "eth" and rng.random() < 0.34:
            v = ver_at.get(it, cur_ver)
            seed = sa.short_value_seed(rng, sa.oracle_digest(sha[v[0]], v[1]), sel, high_s=high_s) or seed
        eth_cfg[si] = {"seed": seed.hex(), "path": sel, "high_s": high_s}
        if it in pos_of:
            nk = sa.eth_key(seed, sel)
            old_key, kind = signers[pos_of[it]]
            signers[pos_of[it]] = (nk, kind)
            auth = [nk.pub if a == old_key.pub else a for a in auth]
    who = {it: signers[i + 1] for i, it in enumerate(items)}

    def signer_of(item):
        return who.get(item) or (fx.key(), "valid")

    def sig_for(item):
        key, kind = signer_of(item)
        v = ver_at.get(item, cur_ver)
        return make_sig(key, kind, sha[v[0]], v[1], rng)
    sigs = [sig_for(("init", i)) for i in range(m)]
    if e["mut"] == "sig":
        sigs[e["at"] - 1] = sa.malform(bytes.fromhex(sigs[e["at"] - 1]), e["kind"], rng)
    elif e["mut"] == "sigspell":
        sigs[e["at"] - 1] = sa.spell(sigs[e["at"] - 1], e["kind"], rng)
    tools = []
    track = ("A", n0)
    for si, st in enumerate(steps if cont else []):
        op, item = st["op"], ("step", si)
        t = {}
        if st["args"] != "none":
            t["args"] = {"app": st["ah"], "iter": arg_text(st["args"], stepn[si], rng)}
        if op == "key":
            t.update({"op": "key", "key": signer_of(item)[0].raw.hex()})
        elif op in ("eth", "eth_pub"):
            t.update(dict(eth_cfg[si], op=op))
        elif op == "message":
            t.update({"op": "message"})
        else:
            ver_at.setdefault(item, track)
            g = sig_for(item)
            if op == "manual_spell":
                g = sa.spell(g, st["sp"], rng)
            elif op == "manual_bad":
                g = sa.malform(bytes.fromhex(g), rng.choice(sa.MALFORMED_KINDS), rng)
            t.update({"op": "manual", "sig": g})
        t["shape"] = {"style": e["style"] if len(steps) == 1 and e["style"] in sa.STYLES else fx.next_style(),
                      "seed": rng.getrandbits(30)}
        tools.append(t)
        if st["ok"] and (op == "message" or (op in ("key", "eth") and st["file"] == "absent")):
            track = (st["ah"], stepn[si])
    if e["cur"] == "below" and n > 0:
        cur = rng.randrange(0, n)
    elif e["cur"] == "?" and cont:
        cur = 0
    else:
        cur = rng.randrange(max(n, 0), 65536) if n < 65536 else 65535
    recipe.update({"src": src, "hash": hash_rec(hin), "iter": iter_rec(iin), "sigs": sigs, "tools": tools,
                   "roundtrip": cont, "device": {"authorizers": [a.hex() for a in auth], "threshold": thr,
                                                 "cur": cur},
                   "via": rng.choice(("admin", "dongle"))})
    recipe["admin_shape"] = {"style": fx.next_style(), "seed": rng.getrandbits(30)}
    desc["steps"] = [[st["op"], st["args"], st["file"], st["pth"]] for st in steps]
    desc["styles"] = [t["shape"]["style"] for t in tools]
    if history:
        recipe["device"] = None
        recipe["history"] = history_ops(fx, rng, e["ops"], [signers[i + 1][0] for i in range(total)], h, n,
                                        hkeys[total:])
        desc["ops"] = [[o["op"], o["k"], o["cur"]] for o in e["ops"]]
    desc["via"] = recipe["via"]
    evs, info = sa.execute(recipe, ctx.scratch, tag)
    return {"ev": evs, "desc": desc, "exc": info["exc"], "input": recipe}


def device_for(keys, k, cur_cls, n, rng, spare):
    """a device that reaches its threshold exactly at the k-th of the signatures by `keys` (99: never)"""
    total = len(keys)
    if k != 99:
        thr = rng.randint(1, min(k, 3))
        v = set(rng.sample(range(1, k), thr - 1)) | {k} | {p for p in range(k + 1, total + 1) if rng.random() < 0.5}
    else:
        v = {p for p in range(1, total + 1) if rng.random() < 0.4}
        thr = len(v) + rng.randint(1, 2)
    auth = [keys[p - 1].pub for p in sorted(v)] + [x.pub for x in spare[:rng.randint(0, 3)]]
    while len(auth) < thr:
        auth.append(sa.Key(rng).pub)
    rng.shuffle(auth)
    cur = rng.randrange(0, n) if (cur_cls == "below" and n > 0) else rng.randrange(n, 65536)
    return {"authorizers": [a.hex() for a in auth], "threshold": thr, "cur": cur}


def history_ops(fx, rng, ops, keys, h, n, spare):
    keys = list(keys)
    spare = list(spare)
    out = []
    for o in ops:
        if o["op"] == "auth_new":
            out.append({"op": "auth", "device": device_for(keys, o["k"], o["cur"], n, rng, spare)})
        elif o["op"] == "auth_same":
            out.append({"op": "auth", "same": True})
        elif o["op"] == "add":
            key = spare.pop() if spare else sa.Key(rng)
            keys.append(key)
            out.append({"op": "add", "sig": make_sig(key, "valid", h, n, rng)})
        elif o["op"] == "add_bad":
            g = make_sig(fx.key(), "valid", h, n, rng)
            out.append({"op": "add", "sig": sa.malform(bytes.fromhex(g), rng.choice(sa.MALFORMED_KINDS), rng)})
        else:
            out.append({"op": o["op"]})
    return out


SCALES = (255, 256, 257, 436, 437, 440, 1000, 3000)


def run_scale(ctx, fx, count, tag, nkeys=1, seed=None):
    """The number of signatures of an authorization at scale: a file with `count` signatures (own
    keys at the first / a middle position, a pool of other keys elsewhere) is loaded, goes through the
    save / load round trip, gets `nkeys` more signatures from consecutive `signapp key` runs, and the
    resulting object is authorized against devices whose threshold sits at the first, a middle, the
    last signature, and never; last, `adm_ledger authorize_signer` on the file (threshold at the last)."""
    import random
    seed = ctx.seed if seed is None else seed
    rng = random.Random("C17-scale:%d:%d:%d" % (seed, count, nkeys))     # own stream: replayable from (seed, count)
    fx = Fixture(rng)
    hin = make_hash("lower", rng)
    h, n = hin["raw"], mid_value(rng)
    pool = fx.keys[:10]
    u1, umid = fx.keys[10], fx.keys[11]
    tkeys = [sa.Key(rng) for _ in range(nkeys)]
    mid = max(2, count // 2) if count >= 3 else None
    sigs = []
    for pos in range(1, count + 1):
        key = u1 if pos == 1 else umid if pos == mid else pool[rng.randrange(len(pool))]
        sigs.append(make_sig(key, "valid" if key in (u1, umid) or rng.random() < 0.8 else "wrongdigest", h, n, rng))
    total = count + nkeys

    def dev(auth, thr):
        return {"authorizers": [k.pub.hex() for k in auth], "threshold": thr, "cur": rng.randrange(0, n)}
    spare = fx.keys[12:14]
    hist = []
    if count >= 1:
        hist.append({"op": "auth", "device": dev([u1] + spare[:1], 1), "nofresh": True})                # first
    if mid:
        hist.append({"op": "auth", "device": dev([u1, umid], 2), "nofresh": True})                      # middle
    hist.append({"op": "auth", "device": dev([tkeys[-1]] + ([u1] if count >= 1 else []),
                                             2 if count >= 1 else 1), "nofresh": True})                 # last
    hist.append({"op": "auth", "device": dev([tkeys[-1], spare[1]], 2), "nofresh": True})               # never
    hist.append({"op": "save"})
    recipe = {"src": "file", "hash": hash_rec(hin), "iter": {"form": "int", "val": n, "s": ""}, "sigs": sigs,
              "tools": [{"op": "key", "key": k.raw.hex(),
                         "shape": {"style": fx.next_style(), "seed": rng.getrandbits(30)}} for k in tkeys],
              "roundtrip": True, "history": hist,
              "device": dev([tkeys[-1]], 1), "via": "admin",
              "admin_shape": {"style": fx.next_style(), "seed": rng.getrandbits(30)}}
    evs, info = sa.execute(recipe, ctx.scratch, tag)
    desc = {"hcls": "lower", "icls": "int_mid", "m": count, "total": total, "mut": "none", "kind": "?",
            "tool": "key", "cur": "below", "k": total, "src": "scale", "scale": count,
            "steps": [["key", "none", "exists", "absent"]] * nkeys}
    return {"ev": evs, "desc": desc, "exc": info["exc"],
            "input": {"regen": {"scenario": "scale", "seed": seed, "count": count, "nkeys": nkeys}}}


def run_admin_twice(ctx, fx, tag):
    """do_authorize_signer twice in one process on the same file: second run against the same device
    (answers SIGVER with an error) or a new one; the file on disk is what it was."""
    rng = ctx.rng
    hin = make_hash("lower", rng)      # the file on disk is compared verbatim afterwards
    n = mid_value(rng)
    m = rng.randint(0, 4)
    keys = list(fx.keys)
    rng.shuffle(keys)
    h = hin["raw"]
    sigs = [make_sig(keys[i], "valid", h, n, rng) for i in range(m)]
    k1 = rng.choice([99] + list(range(1, m + 1)))
    k2 = rng.choice([99] + list(range(1, m + 1)))
    same = rng.random() < 0.4
    d1 = device_for(keys[:m], k1, rng.choice(("below", "below", "notbelow")) if k1 == 99 else "below", n, rng,
                    keys[m:])
    d2 = {"same": True} if same else device_for(keys[:m], k2, "below", n, rng, keys[m:])
    for d in (d1, d2):
        d["shape"] = {"style": fx.next_style(), "seed": rng.getrandbits(30)}
    recipe = {"src": "file", "hash": hash_rec(hin), "iter": {"form": "int", "val": n, "s": ""}, "sigs": sigs,
              "tools": [], "roundtrip": False, "device": None, "admin_twice": [d1, d2]}
    evs, info = sa.execute(recipe, ctx.scratch, tag)
    desc = {"hcls": hin["cls"], "icls": "int_mid", "m": m, "total": m, "mut": "none", "kind": "?", "tool": "?",
            "cur": "below", "k": k1, "src": "admin-twice", "ops": [["admin", k1, "new"],
                                                                  ["admin", k2, "same" if same else "new"]]}
    return {"ev": evs, "desc": desc, "exc": info["exc"], "input": recipe}


def signature(clause, t, ev=None):
    """stable abstract signature: the clause and the classes of the parts it depends on"""
    d = t["desc"]
    if d.get("src") == "scale":
        return "%s|signature-count=%d%s" % (clause, d["scale"], " signapp-key-runs=%d" % len(d["steps"])
                                            if len(d["steps"]) > 1 else "")
    if ev is not None and ev.get("k") in ("sign", "pubkey"):
        st = t.get("failing_step")
        if st is not None:
            if clause == "RefusesMalformed" and st[0] == "manual_spell":
                return "%s|manual-signature-spelling=%s" % (clause, d["kind"])
            return "%s|step=%s args=%s file=%s%s" % (clause, st[0], st[1], st[2],
                                                     " path=%s" % st[3] if len(st) > 3 and st[0] in ("eth", "eth_pub")
                                                     else "")
        d = dict(d, tool=ev["via"], mut="none", spell=d.get("tool") == "manual_spell")
    if clause == "RefusesMalformed":
        part = {"hash": "hash=%s" % d["hcls"], "iter": "iteration=%s" % d["icls"],
                "iterspell": "iteration=%s" % d["icls"],
                "sig": "signature=%s" % d["kind"], "sigspell": "signature-spelling=%s" % d["kind"],
                "none": "manual-signature" + ("-spelling=%s" % d["kind"] if d.get("tool") == "manual_spell"
                                              or d.get("spell") else "")}.get(d.get("mut"), "input")
        return "%s|%s" % (clause, part)
    if clause in ("AcceptsWellFormed", "IterationKept", "HashKept", "MessageText", "Eip191Wrap",
                  "Keccak256Digest", "SignaturesKept"):
        return "%s|hash=%s iteration=%s" % (clause, d["hcls"], d["icls"])
    if clause in ("SignatureVerifies", "SignatureAdded", "SignatureWellFormed", "SelectedPathUsed",
                  "PublicKeyOfSelectedPath", "FileNamesItsVersion"):
        return "%s|tool=%s" % (clause, d.get("tool"))
    if clause in ("RoundTrip", "RoundTripStable"):
        return "%s|hash=%s iteration=%s m=%s" % (clause, d["hcls"], d["icls"], d["m"])
    if clause in ("ObjectUnchanged", "SameAsFreshLoad") or "ops" in d:
        ops = d.get("ops") or []
        nb = t.get("ops_before")
        return "%s|after=%s" % (clause, "+".join(o[0] for o in (ops if nb is None else ops[:nb])) or "none")
    total, kk = d.get("total", d["m"]), d.get("k")
    mcls = "0" if total == 0 else "1" if total == 1 else "2+"
    kcls = "never" if kk in (99, None, 0) else "last" if kk == total else "first" if kk == 1 else "middle"
    return "%s|signatures=%s threshold-at=%s device-iteration=%s" % (clause, mcls, kcls, d.get("cur"))


# ------------------------------------------------------------------------------------------------
# binding B: random pipelines over the concrete domains
def random_iter(rng):
    r = rng.random()
    if r < 0.34:
        v = rng.choice((0, 1, 255, 256, 65534, 65535, rng.randrange(65536), rng.randrange(65536)))
        return {"cls": "", "form": "int", "val": v, "s": ""}
    if r < 0.40:
        v = rng.choice((-1, 65536, 65537, -65536, 2 ** 31 - 1, -rng.randrange(1, 10 ** 9), rng.randrange(65536, 10 ** 9)))
        return {"cls": "", "form": "int", "val": v, "s": ""}
    if r < 0.60:
        v = rng.choice((0, 9, 10, 65535, 65536, rng.randrange(65536), rng.randrange(65536), rng.randrange(10 ** 6)))
        return {"cls": "", "form": "str", "val": 0, "s": str(v)}
    if r < 0.80:
        v = rng.choice((0, 15, 16, 65535, 65536, rng.randrange(65536), rng.randrange(65536), rng.randrange(2 ** 24)))
        return {"cls": "", "form": "str", "val": 0, "s": ("0x%x" if rng.random() < 0.6 else "0x%X") % v}
    if r < 0.83:
        v = rng.choice((0, 7, 8, 9, 45, 65535, 65536, rng.randrange(65536)))
        s = rng.choice(("0%d", "00%d", "%05d", "0x%04x", "0x%04X", "0x%06x")) % v
        return {"cls": "", "form": "str", "val": 0, "s": s}
    if r < 0.86:
        v = rng.choice((0, 1, 5, 15, 31, rng.randrange(65536)))
        s = rng.choice(("0b" + bin(v)[2:], "0B" + bin(v)[2:], "0o%o" % v, "0O%o" % v, "0X%x" % v, "0X%X" % v))
        return {"cls": "", "form": "str", "val": 0, "s": s}
    if r < 0.88:
        return {"cls": "", "form": "str", "val": 0, "s": "-%d" % rng.randrange(1, 70000)}
    if r < 0.90:
        return {"cls": "", "form": "float", "val": rng.choice((0, 1, 7, 65535)), "s": ""}
    if r < 0.93:
        return {"cls": "", "form": "bool", "val": rng.randrange(2), "s": ""}
    if r < 0.95:
        return {"cls": "", "form": "none", "val": 0, "s": ""}
    return {"cls": "", "form": "str", "val": 0,
            "s": rng.choice(("", "abc", "1.5", "12,0", "seven", "#5", "1/2", "zz", "$1"))}


def run_random(ctx, fx, tag):
    rng = ctx.rng
    hcls = rng.choice(["lower"] * 14 + ["upper"] * 4 + ["mixed"] * 6 +
                      ["short", "odd", "long", "nonhex", "prefixed", "prefixed_samelen", "empty", "other"])
    hin = make_hash(hcls, rng)
    iin = random_iter(rng)
    iin["cls"] = iter_class_of(iin)
    okiter = iin["cls"] in ("int_0", "int_1", "int_mid", "int_max", "dec_0", "dec_mid", "dec_max", "hex_0",
                            "hex_mid", "hex_max", "dec_lead0", "dec_lead0_max", "hex_pad")
    h = hin["raw"]
    n = iter_value(iin) if okiter else 1
    m = rng.choice((0, 1, 2, 3, 5, 10, rng.randrange(11)))
    thr = rng.choice((1, 1, 2, 2, 3, 4, 6))
    pool = list(fx.keys)
    rng.shuffle(pool)
    authk = pool[:rng.randint(thr, 10)]
    sigs = []
    for _ in range(m):
        r = rng.random()
        if r < 0.7:
            sigs.append(make_sig(rng.choice(authk), "valid", h, n, rng))
        elif r < 0.85:
            sigs.append(make_sig(rng.choice(authk), "wrongdigest", h, n, rng))
        else:
            sigs.append(make_sig(sa.Key(rng), "valid", h, n, rng))
    badkind = "?"
    if m and rng.random() < 0.2:
        at = rng.randrange(m)
        badkind = rng.choice(sa.MALFORMED_KINDS)
        sigs[at] = sa.malform(bytes.fromhex(sigs[at]), badkind, rng)
    spelled = "?"
    if m and badkind == "?" and rng.random() < 0.25:
        at = rng.randrange(m)
        spelled = rng.choice(sa.SPELLINGS)
        sigs[at] = sa.spell(sigs[at], spelled, rng)
        if spelled in ("p0x", "p0X", "split_pair", "odd0", "nonascii"):
            badkind = spelled
    good = hcls in ("lower", "upper", "mixed") and okiter and badkind == "?"
    desc = {"hcls": hcls, "icls": iin["cls"], "m": m, "kind": badkind if spelled == "?" else spelled,
            "tool": "?", "cur": "?",
            "mut": "none" if good else ("hash" if hcls not in ("lower", "upper", "mixed") else
                                        "iter" if not okiter else "sig" if spelled == "?" else "sigspell"),
            "k": None, "src": "random"}
    tools = []
    if good:
        for _ in range(rng.choice((0, 0, 1, 2))):
            t = rng.choice(("key", "key", "eth", "manual_ok", "manual_bad"))
            if t == "key":
                tools.append({"op": "key", "key": rng.choice(authk + [sa.Key(rng)]).raw.hex()})
            elif t == "eth":
                tools.append({"op": "eth", "seed": bytes(rng.getrandbits(8) for _ in range(16)).hex(),
                              "high_s": rng.random() < 0.4,
                              "path": rng.choice((None, sa.DEFAULT_ETH_PATH) + OTHER_PATHS_A + OTHER_PATHS_B),
                              "shape": {"style": fx.next_style(), "seed": rng.getrandbits(30)}})
            elif t == "manual_ok":
                tools.append({"op": "manual", "sig": make_sig(rng.choice(authk), "valid", h, n, rng)})
            else:
                s = make_sig(rng.choice(authk), "valid", h, n, rng)
                tools.append({"op": "manual",
                              "sig": sa.malform(bytes.fromhex(s), rng.choice(sa.MALFORMED_KINDS), rng)})
    cur = rng.choice((0, 0, 0, max(0, n - 1), max(0, n - 1), n, rng.randrange(65536)))
    desc["cur"] = "below" if cur < n else "notbelow"
    for t in tools:
        t.setdefault("shape", {"style": fx.next_style(), "seed": rng.getrandbits(30)})
    recipe = {"src": rng.choice(("api", "file")), "hash": hash_rec(hin), "iter": iter_rec(iin), "sigs": sigs,
              "tools": tools, "roundtrip": good, "admin_shape": {"style": fx.next_style(), "seed": rng.getrandbits(30)},
              "device": {"authorizers": [k.pub.hex() for k in authk], "threshold": thr, "cur": cur},
              "via": rng.choice(("admin", "dongle"))}
    evs, info = sa.execute(recipe, ctx.scratch, tag)
    desc["total"] = info["total"]
    desc["k"] = info["success_at"]
    return {"ev": evs, "desc": desc, "exc": info["exc"], "input": recipe}


SWEEP_FORMS = {"dec": "%d", "hex": "0x%x", "dec0": "%06d", "hexpad": "0x%04X"}


def sweep_iter(form, n):
    if form == "int":
        return {"cls": "", "form": "int", "val": n, "s": ""}
    return {"cls": "", "form": "str", "val": 0, "s": SWEEP_FORMS[form] % n}


def sweep_traces(ctx, fx, lo, hi, per_trace=64):
    """every iteration in lo..hi-1 once (form int / decimal text / 0x text by seed), random hashes:
    the build (text, wrapping, digest) and the authorize exchange of the built object with one
    signature against a threshold-1 device whose current iteration is 0; `per_trace` per trace."""
    rng = ctx.rng
    traces = []
    key = fx.keys[0]
    evs, descs = [], []
    for n in range(lo, hi):
        form = rng.choice(("int", "dec", "hex", "dec0", "hexpad"))
        it = sweep_iter(form, n)
        hin = make_hash(rng.choice(("lower", "lower", "upper", "mixed")), rng)
        sig = make_sig(key, "valid", hin["raw"], n, rng)
        obj, ev = sa.build_api(hin, it, [sig])
        evs.append(ev)
        d = {"hcls": hin["cls"], "icls": iter_class_of(it), "form": form, "n": n, "hash": hin["s"], "m": 1, "total": 1,
             "k": 1 if n > 0 else None, "cur": "below" if n > 0 else "notbelow", "sig": sig,
             "authorizer": key.pub.hex()}
        descs.append(d)
        if obj is not None:
            for a in sa.authorize_object(obj, sa.UIDevice([key.pub], 1, cur_iter=0)):
                evs.append(a)
                descs.append(d)
        if len(evs) >= per_trace or n == hi - 1:
            traces.append({"ev": evs, "descs": descs, "desc": {"src": "sweep"}})
            evs, descs = [], []
    return traces


# ------------------------------------------------------------------------------------------------
def select(ctx, behaviours, quota):
    """seed-selected subset that contains every (class, mutation kind, tool, k-shape) at least once"""
    order = list(range(len(behaviours)))
    ctx.rng.shuffle(order)
    if quota >= len(order):
        return order
    seen, first, rest = set(), [], []
    for i in order:
        e = behaviours[i]["env"]
        keys = [("h", e["hcls"]), ("i", e["icls"]), ("mut", e["mut"], e["kind"], e["at"]),
                ("tool", e["tool"], e["m"], e["kind"] if e["tool"] == "manual_spell" else ""),
                ("nsteps", e["mut"], len(e["steps"]))] + [
                ("ops",) + tuple((o["op"], "never" if o["k"] == 99 else "first" if o["k"] == 1 else "last", o["cur"])
                                 for o in e["ops"][:2]) + (len(e["ops"]), e["m"] > 0)] + [
                ("step", i, st["op"], st["args"], st["file"], st["ok"], st["pth"])
                for i, st in enumerate(e["steps"])] + [
                ("style", e["style"], e["steps"][0]["op"], e["steps"][0]["pth"]) for _ in e["steps"][:1]] + [
                ("pair", e["steps"][i]["op"], e["steps"][i]["args"], e["steps"][i + 1]["op"],
                 e["steps"][i + 1]["args"]) for i in range(len(e["steps"]) - 1) if i == 0] + [
                ("k", e["m"], e["k"], e["cur"])]
        new = [k for k in keys if k not in seen]
        if new:
            seen.update(new)
            first.append(i)
        else:
            rest.append(i)
    return first + rest[:max(0, quota - len(first))]


def corruptions(traces):
    """DESIGN 3.7(a): recorded executions with one logged field corrupted / one event dropped, and the
    clause that must reject each. Sources are model-behaviour traces; entries whose source trace is
    itself rejected are ignored by the caller."""
    import copy
    out = []

    def auth_idx(t):
        return [i for i, e in enumerate(t["ev"]) if e["k"] == "apdu" and len(e["apdu"]) > 2 and e["apdu"][1] == 0x51]

    def add(src, evs, clause, what):
        out.append({"ev": evs, "label": "selftest", "expect": clause, "src": src, "what": what,
                    "desc": src["desc"]})

    def first(pred):
        for t in traces:
            if pred(t):
                return t
        return None
    done = lambda t: t["ev"][-1]["k"] == "outcome" and t["ev"][-1]["authorized"] == "t"   # noqa: E731
    t = first(lambda t: t["ev"][0]["k"] == "build" and t["ev"][0]["ok"] == "t")
    if t:
        e = copy.deepcopy(t["ev"])
        e[0]["o_digest"][5] ^= 1
        add(t, e, "Keccak256Digest", "one bit of the digest")
        e = copy.deepcopy(t["ev"])
        e[0]["o_wrap"] = e[0]["o_wrap"][:26] + e[0]["o_wrap"][28:]
        add(t, e, "Eip191Wrap", "length digits dropped from the wrapped message")
        e = copy.deepcopy(t["ev"])
        e[0]["o_msg"][-1] ^= 1
        add(t, e, "MessageText", "last character of the text")
    t = first(lambda t: len(auth_idx(t)) >= 1 and t["desc"]["icls"] in ("int_mid", "dec_mid", "hex_mid"))
    if t:
        e = copy.deepcopy(t["ev"])
        a = e[auth_idx(t)[0]]["apdu"]
        a[-1], a[-2] = a[-2], a[-1]
        add(t, e, "SigVerFirst", "iteration bytes swapped in SIGVER")
        e = copy.deepcopy(t["ev"])
        del e[auth_idx(t)[0]]
        add(t, e, "SigVerFirst", "SIGVER exchange dropped")
    t = first(lambda t: len(auth_idx(t)) >= 3)
    if t:
        e = copy.deepcopy(t["ev"])
        i, j = auth_idx(t)[1], auth_idx(t)[2]
        e[i]["apdu"], e[j]["apdu"] = e[j]["apdu"], e[i]["apdu"]
        add(t, e, "SignaturesInOrder", "two SIGN exchanges swapped")
    t = first(lambda t: done(t))
    if t:
        e = copy.deepcopy(t["ev"])
        e.insert(len(e) - 1, copy.deepcopy(e[auth_idx(t)[-1]]))
        add(t, e, "NothingAfterSuccess", "a SIGN exchange repeated after the device authorised")
        e = copy.deepcopy(t["ev"])
        e[-1]["authorized"] = "f"
        add(t, e, "AuthorizedIff", "outcome flipped")
    t = first(lambda t: not done(t) and len(auth_idx(t)) >= 3)
    if t:
        e = copy.deepcopy(t["ev"])
        del e[auth_idx(t)[-1]]
        add(t, e, "AllSentBeforeFailing", "last SIGN exchange dropped from a failed authorization")
    t = first(lambda t: not done(t) and len(auth_idx(t)) >= 2 and t["ev"][-1].get("exc") == "HSM2DongleError")
    if t:
        e = copy.deepcopy(t["ev"])
        e[-1]["exc"] = "ValueError"
        add(t, e, "DocumentedFailure", "an undocumented exception escapes after the conversation began")
    t = first(lambda t: any(x["k"] == "roundtrip" and len(x["after"]["sigs"]) >= 2 for x in t["ev"]))
    if t:
        e = copy.deepcopy(t["ev"])
        r = [x for x in e if x["k"] == "roundtrip"][0]
        r["after"]["sigs"].reverse()
        add(t, e, "RoundTrip", "signatures reversed by the save/load cycle")
    t = first(lambda t: any(x["k"] == "sign" and x["via"] in ("key", "eth") and x["ok"] == "t" for x in t["ev"]))
    if t:
        e = copy.deepcopy(t["ev"])
        [x for x in e if x["k"] == "sign" and x["via"] in ("key", "eth") and x["ok"] == "t"][0]["verifies"] = "f"
        add(t, e, "SignatureVerifies", "tool signature does not verify")
    t = first(lambda t: any(x["k"] == "sign" and x["via"] == "eth" and x["ok"] == "t" and x["paths"]
                            for x in t["ev"]))
    if t:
        e = copy.deepcopy(t["ev"])
        x = [x for x in e if x["k"] == "sign" and x["via"] == "eth" and x["ok"] == "t" and x["paths"]][0]
        x["paths"][-1][-1] ^= 1
        add(t, e, "SelectedPathUsed", "the signing request names another derivation path")
    t = first(lambda t: any(x["k"] == "pubkey" and x["ok"] == "t" for x in t["ev"]))
    if t:
        e = copy.deepcopy(t["ev"])
        [x for x in e if x["k"] == "pubkey"][0]["saved"][-1] ^= 1
        add(t, e, "PublicKeyOfSelectedPath", "the saved public key is not the selected path's")
    t = first(lambda t: any(x["k"] == "content" and len(x["sigs"]) >= 1 for x in t["ev"]))
    if t:
        e = copy.deepcopy(t["ev"])
        [x for x in e if x["k"] == "content" and len(x["sigs"]) >= 1][0]["sigs"].pop(0)
        add(t, e, "ObjectUnchanged", "the object's content lost its first signature")
    t = first(lambda t: any(x["k"] == "outcome" and x.get("fresh") in ("t", "f") for x in t["ev"]))
    if t:
        e = copy.deepcopy(t["ev"])
        x = [x for x in e if x["k"] == "outcome" and x.get("fresh") in ("t", "f")][0]
        x["fresh"] = "f" if x["fresh"] == "t" else "t"
        add(t, e, "SameAsFreshLoad", "a freshly loaded copy ends the operation differently")
    t = first(lambda t: t["ev"][0]["k"] == "build" and any(
        x["k"] == "sign" and x["via"] in ("key", "eth") and x["ok"] == "t" for x in t["ev"][:2]))
    if t:
        e = copy.deepcopy(t["ev"])
        x = [x for x in e if x["k"] == "sign"][0]
        x["file"]["iter"] += 1
        add(t, e, "FileNamesItsVersion", "the file names another iteration after signapp key on it")
    return out


def brief(inp):
    """the part of a recipe a reader needs in the VIOLATION line (the replay file has all of it)"""
    if not isinstance(inp, dict) or "src" not in inp:
        return inp
    h = inp["hash"]
    it = inp["iter"]
    return {"src": inp["src"], "hash": h["s"] if h["kind"] == "str" else repr(h.get("py")),
            "iteration": sa.py_iter(it), "signatures": len(inp["sigs"]),
            "tools": [t["op"] for t in inp.get("tools", [])], "via": inp.get("via"),
            "history": [dict(o, device={"threshold": o["device"]["threshold"],
                                        "current_iteration": o["device"]["cur"]}) if "device" in o else o
                        for o in (inp.get("history") or [])] or [
                {"same": True} if o.get("same") else {"threshold": o["threshold"], "current_iteration": o["cur"]}
                for o in (inp.get("admin_twice") or [])],
            "device": {"threshold": inp["device"]["threshold"], "current_iteration": inp["device"]["cur"],
                       "authorizers": len(inp["device"]["authorizers"])} if inp.get("device") else None}


def judge(res, traces, shards):
    """TLC judges every recorded execution (one batch, sharded over a few JVMs)."""
    for i, t in enumerate(traces):
        t["id"] = i + 1
    payload = [{"id": t["id"], "ev": t["ev"]} for t in traces]
    verdicts, stats = tlc.validate("TraceSignerAuth", "Trace_SignerAuth.cfg", payload, shards=shards)
    res.checker_cmds.append("tlc -workers 1 -config Trace_SignerAuth.cfg TraceSignerAuth (x%d shards)"
                            % stats["jvms"])
    accepted = 0
    selftest = {"tried": 0, "rejected_as_expected": 0}
    for t in traces:
        v = verdicts[t["id"]]
        label = t["label"]
        if label == "selftest":
            if not verdicts[t["src"]["id"]]["ok"]:
                continue
            selftest["tried"] += 1
            if v["ok"] or v["clause"] != t["expect"]:
                raise core.MachineryError("trace spec self-test: corrupted trace (%s) expected %s, got %s" % (
                    t["what"], t["expect"], v))
            selftest["rejected_as_expected"] += 1
            continue
        if v["ok"]:
            accepted += 1
            continue
        if v["clause"] in MACHINERY_CLAUSES:
            raise core.MachineryError("trace %s (%s): %s at event %s — oracle/driver inconsistent: %s" % (
                t["id"], label, v["clause"], v.get("at"), json.dumps(t.get("desc"))))
        tt = t
        if "descs" in t:        # sweep: the failing build event names the iteration
            d = t["descs"][max(0, min(len(t["descs"]) - 1, v.get("at", 1) - 1))]
            tt = {"desc": dict(d, mut="none", kind="?"), "input": d}
        at = v.get("at", 0)
        if "steps" in tt["desc"] and 0 < at <= len(t["ev"]) and t["ev"][at - 1]["k"] in ("sign", "pubkey"):
            si = sum(1 for x in t["ev"][:at] if x["k"] in ("sign", "pubkey")) - 1
            if si < len(tt["desc"]["steps"]):
                tt = dict(tt, failing_step=tt["desc"]["steps"][si])
        if "ops" in tt["desc"] and 0 < at <= len(t["ev"]):
            tt = dict(tt, ops_before=sum(1 for x in t["ev"][:at] if x["k"] in ("begin", "add") or (
                x["k"] == "content" and x["via"] != "reload")))
        evk = t["ev"][at - 1]["k"] if 0 < at <= len(t["ev"]) else "?"
        res.violation(signature(v["clause"], tt, t["ev"][at - 1] if 0 < at <= len(t["ev"]) else None),
                      "%s broken at event %s (%s) of a %s execution: classes %s; input %s" % (
                          v["clause"], at, evk, label, json.dumps(tt["desc"], sort_keys=True),
                          json.dumps(core._jsonable(brief(tt.get("input"))), sort_keys=True)[:700]),
                      {"kind": label, "desc": tt["desc"], "input": tt.get("input"), "verdict": v,
                       "events": None if label == "scale" else
                       t["ev"] if len(t["ev"]) <= 40 else t["ev"][max(0, at - 2):at + 1]})
    res.add_validation(stats, accepted)
    res.coverage["trace_spec_selftest"] = selftest
    return verdicts


def generate_behaviours(ctx):
    """All complete behaviours of the model. Quick tier: 4 TLC workers (every behaviour is one println
    of one string, which is atomic); every printed line must parse, else -- and in the thorough tier
    always -- the single-worker run of the README. Sorted, so that seeded selection does not depend on
    the order in which workers reached the terminal states."""
    out, r = None, None
    if ctx.quick:
        r = tlc.check("GenSignerAuth", "Gen_SignerAuth.cfg", workers=4)
        if not r.violated:
            lines = [ln for ln in r.out.splitlines() if '"B ' in ln]
            try:
                out = [json.loads(json.loads(ln)[2:]) for ln in lines]
            except ValueError:
                out = None
    if out is None:
        out, r = tlc.generate("GenSignerAuth", "Gen_SignerAuth.cfg")
    out.sort(key=lambda b: json.dumps(b, sort_keys=True))
    return out, r


def run(ctx):
    res = core.Result()
    phases, tp = {}, [time.time()]

    def lap(name):
        phases[name] = round(time.time() - tp[0], 1)
        tp[0] = time.time()
    res.coverage["phase_wall_s"] = phases
    res.assumptions = [
        "Keccak-256 is uninterpreted in the spec; its value on the spec's text comes from the harness's "
        "own Keccak-f[1600] (known-answer self-test incl. SHA3-256 being different), not from pycryptodome",
        "UI simulator implements SIGNER_AUTH as read from firmware/src/ledger/ui/src/signer_authorization.c "
        "(state machine, iteration must exceed the current one, N distinct authorizers); ECDSA on the "
        "device side by libsecp256k1 after low-S normalisation",
        "inside a class (hash bytes, mid iterations, keys, DER values) members are seeded samples; "
        "thorough tier covers every iteration 0..65535 once",
        "hex-valued inputs are replayed in every spelling of spec/SignerAuth.tla (0x/0X prefix, upper/mixed "
        "case, leading/trailing/inner blanks, trailing newline, split pair, extra 0, non-ASCII digits) at "
        "every file position, through the constructor, from_jsonfile, signapp manual/key and signapp -i; "
        "a spelling is either refused at construction/load or sent byte-exact after hex decoding",
        "iteration strings: decimal digits (leading zeros included) and 0x + hex digits are the accepted "
        "forms; 0b/0o/0X literals, junk, negatives, floats, bools are malformed; '+5', ' 5', '1_0', '-0', "
        "blank-separated signature hex and non-canonical DER integers are left open (either answer; if "
        "accepted everything else must be consistent)",
        "signapp's app hash is taken as sha256 of a single-area Intel HEX image (multi-area images are C19)",
    ]
    err = sa.selftest()
    if err:
        raise core.MachineryError(err)
    # 1. design check, exhaustive (+ the negative configuration, concurrently)
    import concurrent.futures as cf
    with cf.ThreadPoolExecutor(max_workers=3) as ex:
        # per-action coverage statistics cost TLC about a third more: thorough tier only; in the quick
        # tier "every action taken" is read off the generated behaviours below
        f_mc = ex.submit(tlc.check, "SignerAuth", "MC_SignerAuth.cfg", coverage=not ctx.quick, workers=4)
        f_neg = ex.submit(tlc.run, "SignerAuth", "Neg_SignerAuth.cfg", workers=1)
        f_gen = ex.submit(generate_behaviours, ctx)
        r, rn = f_mc.result(), f_neg.result()
        behaviours, rg = f_gen.result()
    if r.violated:
        raise core.MachineryError("SignerAuth model violates %s — reproduce on the code before reporting"
                                  % r.violated)
    res.add_tlc(r, "MC_SignerAuth exhaustive")
    if ctx.quick:
        hs = [set(b["hist"]) for b in behaviours]
        taken = {"Build": bool(behaviours),
                 "RefusedAuthorize": any(b["built"] == "refused" for b in behaviours),
                 "Step": any(b["env"]["steps"] for b in behaviours),
                 "StepsDone": any(not b["env"]["steps"] and b["built"] == "built" for b in behaviours),
                 "RoundTrip": any("roundtrip" in h for h in hs), "SigVer": any("apdu" in h for h in hs),
                 "SendSig": any(b["sent"] > 1 for b in behaviours), "Finish": any("outcome" in h for h in hs),
                 "AfterAuth": any(b["done"] for b in behaviours),
                 "StartHistory": any(b["env"]["mode"] == "history" for b in behaviours),
                 "HOp": any(b["env"]["ops"] for b in behaviours),
                 "HistDone": any(len(b["env"]["ops"]) >= 2 for b in behaviours)}
        never = [a for a in ACTIONS if not taken.get(a)]
    else:
        counts = r.action_counts()
        never = [a for a in ACTIONS if counts.get(a, 0) == 0]
    if never:
        raise core.MachineryError("vacuity: actions never taken: %s" % never)
    res.coverage["uncovered_actions"] = never
    if "NeverAuthorized" not in rn.violated:
        raise core.MachineryError("vacuity guard: the model never authorizes")
    lap("tlc_model")
    # 2. all behaviours of the model
    res.add_tlc(rg, "Gen_SignerAuth behaviours")
    res.coverage["behaviours_generated"] = len(behaviours)
    # vacuity, on TLC's own terminal states: authorised, refused and "all sent, never authorised" all occur
    shapes = {"authorised": sum(1 for b in behaviours if b["done"]),
              "refused": sum(1 for b in behaviours if b["built"] == "refused"),
              "failed_after_all_signatures": sum(1 for b in behaviours if b["built"] == "built" and not b["done"]
                                                 and b["env"]["cur"] == "below" and b["sent"] == 1 + b["nsigs"]),
              "stale_iteration": sum(1 for b in behaviours if b["env"]["cur"] == "notbelow")}
    res.coverage["behaviour_shapes"] = shapes
    if not all(shapes.values()):
        raise core.MachineryError("vacuity: behaviour shapes missing: %s" % shapes)
    lap("tlc_generate")
    # 3. replay on the real code
    fx = Fixture(ctx.rng)
    order = select(ctx, behaviours, ctx.pick(1100, len(behaviours)))
    traces, drift = [], 0
    for bi in order:
        b = behaviours[bi]
        for src in sources(b, ctx.rng):
            t = run_behaviour(ctx, fx, b, "b%d%s" % (bi, src), src)
            hist = [e["k"] for e in t["ev"]
                    if e["k"] != "apdu" or (len(e["apdu"]) > 1 and e["apdu"][1] == 0x51)]
            if hist != b["hist"]:
                drift += 1
                t["drift"] = {"model": b["hist"], "code": hist}
            traces.append(t)
    res.coverage["executions_of_model_behaviours"] = len(traces)
    res.coverage["object_histories_replayed"] = sum(1 for t in traces if "ops" in t["desc"])
    res.coverage["signapp_sessions_replayed"] = sum(1 for t in traces if len(t["desc"]["steps"]) >= 2
                                                    or any(st[1] != "none" for st in t["desc"]["steps"]))
    res.coverage["spellings_replayed"] = {
        "signature_in_file": sorted({t["desc"]["kind"] for t in traces if t["desc"]["mut"] == "sigspell"}),
        "signature_manual": sorted({t["desc"]["kind"] for t in traces if t["desc"]["tool"] == "manual_spell"}),
        "iteration": sorted({t["desc"]["icls"] for t in traces if t["desc"]["mut"] == "iterspell"}),
        "hash": sorted({t["desc"]["hcls"] for t in traces if t["desc"]["mut"] == "hash"})}
    res.coverage["behaviours_replayed"] = len(order)
    res.coverage["model_drift"] = drift
    lap("replay")
    classes = set((t["desc"]["hcls"], t["desc"]["icls"], t["desc"]["mut"], t["desc"]["kind"], t["desc"]["m"],
                   t["desc"]["tool"], t["desc"]["k"], t["desc"]["cur"]) for t in traces)
    res.coverage["distinct_abstract_classes_hit"] = len(classes)
    res.coverage["replayed_by_source"] = {s: sum(1 for t in traces if t["desc"]["src"] == s)
                                          for s in ("api", "file", "signapp")}
    res.coverage["authorize_via"] = {s: sum(1 for t in traces if t["desc"]["via"] == s)
                                     for s in ("admin", "dongle")}
    # 4. binding B: random pipelines
    n_rand = ctx.pick(300, 6000)
    rtraces = []
    for i in range(n_rand):
        t = run_random(ctx, fx, "r%d" % i)
        rtraces.append(t)
    lap("random")
    res.coverage["random_pipelines"] = n_rand
    res.coverage["random_authorised"] = sum(1 for t in rtraces if t["ev"][-1]["authorized"] == "t")
    # 4b. do_authorize_signer twice in one process on the same file
    atraces = [run_admin_twice(ctx, fx, "a%d" % i) for i in range(ctx.pick(40, 600))]
    res.coverage["admin_twice_runs"] = len(atraces)
    lap("admin_twice")
    # 4c. the number of signatures at scale
    scales = ctx.pick(SCALES[:-1], SCALES)
    straces = [run_scale(ctx, fx, c, "s%d" % c) for c in scales]
    if not ctx.quick:   # one long run of consecutive `signapp key` invocations on one output file
        straces.append(run_scale(ctx, fx, 150, "slong", nkeys=300))
    for t in straces:
        t["label"] = "scale"
    res.coverage["signature_counts_at_scale"] = [t["desc"]["scale"] for t in straces]
    res.coverage["longest_signapp_key_run"] = max(len(t["desc"]["steps"]) for t in straces)
    lap("scale")
    # 5. iteration sweep
    if ctx.quick:
        lo = ctx.rng.randrange(0, 65536 - 1024)
        sw = sweep_traces(ctx, fx, 0, 300) + sweep_traces(ctx, fx, lo, lo + 1024) + \
            sweep_traces(ctx, fx, 65236, 65536)
    else:
        sw = sweep_traces(ctx, fx, 0, 65536, per_trace=256)
    lap("sweep")
    for t in traces:
        t["label"] = "model-behaviour"
    for t in rtraces:
        t["label"] = "random"
    for t in sw:
        t["label"] = "iteration-sweep"
    for t in atraces:
        t["label"] = "admin-twice"
    judge(res, traces + rtraces + atraces + straces + sw + corruptions(traces), ctx.pick(3, 8))
    lap("validate")
    res.coverage["iterations_swept"] = sum(1 for t in sw for e in t["ev"] if e["k"] == "build")
    res.coverage["iterations_swept_authorised"] = sum(1 for t in sw for e in t["ev"]
                                                      if e["k"] == "outcome" and e["authorized"] == "t")
    for t in traces[:2] + rtraces[:1] + traces[-2:]:
        res.sample({"classes": t["desc"], "recipe": t["input"], "exception": t["exc"],
                    "events": [e["k"] if e["k"] != "apdu" else "apdu:" + bytes(e["apdu"][:3]).hex()
                               for e in t["ev"]]})
    return res


def replay(ctx, path):
    """Re-run the recorded recipe on the real code and let TLC judge the new execution."""
    with open(path) as f:
        data = json.load(f)
    rp = data["replay"]
    err = sa.selftest()
    if err:
        print(err)
        return 2
    inp = rp.get("input") or {}
    if "regen" in inp:
        g = inp["regen"]
        t = run_scale(ctx, None, g["count"], "replay", nkeys=g["nkeys"], seed=g["seed"])
        evs, info = t["ev"], {"scenario": g}
    elif "src" in inp:
        evs, info = sa.execute(inp, ctx.scratch, "replay")
    else:       # an iteration-sweep entry: {hash, n, ...}
        it = sweep_iter(inp["form"], inp["n"])
        obj, ev = sa.build_api({"kind": "str", "s": inp["hash"]}, it, [inp["sig"]])
        evs, info = [ev], {}
        if obj is not None:
            evs += sa.authorize_object(obj, sa.UIDevice([bytes.fromhex(inp["authorizer"])], 1, cur_iter=0))
    v, _ = tlc.validate("TraceSignerAuth", "Trace_SignerAuth.cfg", [{"id": 1, "ev": evs}])
    print(json.dumps({"desc": rp.get("desc"), "input": inp, "info": info,
                      "events": [e["k"] if e["k"] != "apdu" else "apdu:" + bytes(e["apdu"]).hex()
                                 for e in evs][:60], "verdict": v[1]}, indent=1))
    return 0 if v[1]["ok"] else 1
