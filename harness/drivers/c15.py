"""C15 — attestations gathered from a genuine device verify end to end; any alteration makes gathering
or verification fail.

TLC: AttestFlow (Env: genuine device with at most ONE altered thing; Sys: do_onboard's endorsement setup,
do_attestation, do_verify_attestation for Ledger and SGX, one action per protocol step) exhaustively;
GenAttestFlow prints every run; each is concretised (real secp256k1 / P-256 keys, real X.509 chain, real
HMAC tweaks, real byte flips) and driven through the repository's commands on real files
(harness/attflow.py); every observation (gather outcome, files before / after load;save, verify outcome,
printed values, HTTP requests made to the scripted Rootstock node / web server) is judged by TLC
(TraceAttestFlow) with the very clauses the model satisfies."""
import concurrent.futures as cf
import json
import multiprocessing
import os

from .. import attflow, core, tlc

PROCS = int(os.environ.get("VERIF_PROCS", "4"))
# None: every generated behaviour is replayed (both tiers); an integer keeps that many seeded members per
# alteration class (for slow machines)
SUBSET = int(os.environ["VERIF_C15_SUBSET"]) if os.environ.get("VERIF_C15_SUBSET") else None
ACTIONS = ("VerifyPrev", "GetUdTyped", "NodeCall1", "NodeCall2", "Onboard", "Handshake", "GetDeviceKey", "SetupEndo", "EndoAck", "SaveAttCert", "LoadAttCert",
           "Unlock", "UiAppHash", "UiUd", "UiPage", "UiSig", "ExitUi", "SgGet", "SgMsgPage", "SgEnvPage",
           "SgAppHash", "HealthCheck", "SaveCert", "SxUnlock", "SxGet", "SxMsgPage", "SxEnvPage",
           "SxAppHash", "SxParse", "SxConvert", "SxSave", "Verify", "Reverify")
# seeded defects of the MODEL's Sys and the clause each must break (the clauses are not vacuous)
MODEL_BUGS = (("notweak", "AlteredFails"), ("dropfirst", "GenuineVerifies"), ("maxpages", "GenuineGathers"),
              ("swapmsg", "GenuineVerifies"), ("wrongtweak", "GenuineVerifies"), ("nobind", "AlteredFails"),
              ("nohealth", "AlteredFails"), ("udslice", "GenuineGathers"), ("noidcheck", "NodeBad"),
              ("nostatus", "NodeBad"), ("derpad", "GenuineVerifies"), ("setdefault", "GenuineVerifies"), ("rstrip", "GenuineVerifies"), ("sigcheck", "GenuineGathers"), ("localtime", "GenuineVerifies"))
NEGATIVES = ("NeverVerifies", "NeverGatherFails", "NeverVerifyFails", "NeverLegacy", "NeverFourPages",
             "NeverNodeOk", "NeverReorgOk", "NeverNodeFails", "NeverRootByUrl", "NeverRootUrlBad", "NeverShapedOk", "NeverSecondRunOk", "NeverInplaceOk",
             "NeverSecondRunAlteredFails", "NeverDigestOk", "NeverZonedOk", "NeverZonedRefused")
TRACE_KEYS = ("id", "udsrc", "node", "node_at", "node_n", "node_url", "rootvia", "root_url", "http", "ud_sent",
              "att_file", "contacted", "g_err", "v_err", "tz", "when_who", "when_kind", "sigsite", "sigclass", "digsite", "digclass", "hist", "prev_ok", "dev_prev", "earlier_before",
              "earlier_after", "verify_prev", "printed_prev", "plat", "alt", "dev", "g_onboard", "g_attest", "gather", "file0", "reload0", "file",
              "reload", "reload_ok", "verify", "printed", "verify2", "printed2")


# ------------------------------------------------------------------------------------------------
# running cases on the real code (forked workers; each has its own scratch directory)
# ------------------------------------------------------------------------------------------------
_SCRATCH = None


def _init_worker(scratch):
    global _SCRATCH
    _SCRATCH = os.path.join(scratch, "w%d" % os.getpid())
    os.makedirs(_SCRATCH, exist_ok=True)
    from .. import env
    env.setup()


def _run_one(job):
    i, case = job
    try:
        o, d = attflow.run_case(case, _SCRATCH, "c")
    except BaseException as e:        # noqa: harness failure, reported as machinery error by the parent
        import traceback
        return i, None, {"harness_error": "%s: %s\n%s" % (type(e).__name__, e, traceback.format_exc()[-1500:])}
    lite = {"exc": d["exc"], "applied": d["applied"], "faithful": d["faithful"], "shapes": d.get("shapes", {}), "digests": d.get("digests", {}),
            "env_pages": d.get("env_pages"), "env_len": d.get("env_len"),
            "msg_requests": sum(1 for x in d.get("att_log", []) if x[1] == 0x02),
            "verify_stdout": d["stdout"].get("verify", "")[-1500:] if case.get("keep_stdout") else ""}
    return i, o, lite


def run_cases(ctx, cases):
    if not cases:
        return []
    jobs = list(enumerate(cases))
    out = [None] * len(cases)
    if PROCS <= 1 or len(cases) < 8:
        _init_worker(ctx.scratch)
        for j in jobs:
            i, o, d = _run_one(j)
            out[i] = (o, d)
    else:
        mpctx = multiprocessing.get_context("fork")
        with mpctx.Pool(PROCS, initializer=_init_worker, initargs=(ctx.scratch,)) as pool:
            for i, o, d in pool.imap_unordered(_run_one, jobs, chunksize=8):
                out[i] = (o, d)
    for (o, d), c in zip(out, cases):
        if o is None:
            raise core.MachineryError("harness failed on case %s: %s" % (json.dumps(c)[:300], d["harness_error"]))
    return out


# ------------------------------------------------------------------------------------------------
# selection / random cases
# ------------------------------------------------------------------------------------------------
def select(behaviours, rng, per_class):
    """Every genuine run, and `per_class` seeded members of every alteration class (platform, framing,
    site, index) - chosen so that the page counts / envelope shapes of a class differ."""
    groups = {}
    for i, b in enumerate(behaviours):
        groups.setdefault(attflow.class_key(b), []).append(i)
    chosen = []
    for key in sorted(groups):
        idx = groups[key]
        if key[2] == "none" or per_class is None or len(idx) <= per_class:
            chosen += idx
            continue
        rng.shuffle(idx)
        seen, pick = set(), []
        for i in idx:                              # first pass: new configuration values first
            c = behaviours[i]["cfg"]
            vals = {(k, v) for k, v in c.items()}
            if not vals <= seen:
                pick.append(i)
                seen |= vals
            if len(pick) == per_class:
                break
        for i in idx:
            if len(pick) == per_class:
                break
            if i not in pick:
                pick.append(i)
        chosen += pick
    return chosen, len(groups)


LEDGER_SITES = ("dc_hdr", "dc_key", "dc_sig", "en_key", "en_sig", "ui_hash", "ui_sig", "s_hash", "s_sig",
                "root", "ui_fld", "ui_page", "s_fld", "s_mpage", "s_epage")
SGX_SITES = ("q_hdr", "q_sig", "att_key", "qe_sig", "pck_tbs", "pck_sig", "pca_tbs", "pca_sig", "q_body",
             "qe_body", "qe_auth", "cm_fld", "cm_msg", "cm_env", "root")


def random_case(rng):
    """Binding B: shapes from the concrete domains rather than from the class representatives
    (QE auth data of ANY size 0..1000, any page size giving 1..4 pages, any field / page / byte)."""
    plat = rng.choice(("ledger", "sgx"))
    genuine = rng.random() < 0.4
    if plat == "ledger":
        framing = rng.choice(("current", "current", "legacy"))
        cfg = {"uip": rng.randint(1, 4), "sp": 1 if framing == "legacy" else rng.randint(1, 4), "ep": 0,
               "qeauth": 0, "npem": 0}
        site = "none" if genuine else rng.choice([s for s in LEDGER_SITES
                                                  if not (framing == "legacy" and s == "s_epage")])
        idx = 0
        if site == "ui_fld":
            idx = rng.randint(1, 6)
        elif site == "s_fld":
            idx = rng.randint(1, 3 if framing == "legacy" else 8)
        elif site == "ui_page":
            idx = rng.randint(1, cfg["uip"])
        elif site in ("s_mpage", "s_epage"):
            idx = rng.randint(1, cfg["sp"])
        elif site == "root":
            idx = rng.randint(1, 2)
    else:
        framing = "current"
        cfg = {"uip": 0, "sp": rng.randint(1, 4), "ep": rng.choice((1, 2, 99)),
               "qeauth": rng.choice((0, 1, 2, 31, 32, 33, 64, 999, 1000, rng.randint(0, 1000))),
               "npem": rng.choice((2, 3))}
        site = "none" if genuine else rng.choice([s for s in SGX_SITES
                                                  if not (cfg["qeauth"] == 0 and s == "qe_auth")])
        idx = 0
        if site in ("cm_fld", "cm_msg", "cm_env"):
            idx = rng.randint(1, 8)
        elif site == "q_body":
            idx = rng.randint(2, 5)
        elif site == "qe_body":
            idx = rng.randint(1, 2)
        elif site == "root":
            idx = rng.randint(1, 3)
    net = {"ud": "hex", "at": 0, "rootvia": "file"}
    if site == "none" and rng.random() < 0.5:
        beh, at = rng.choice(attflow.fakehttp.node_behaviours())
        net = {"ud": beh, "at": at, "rootvia": "file"}
    if plat == "sgx" and (site in ("none", "root")) and rng.random() < 0.5:
        net["rootvia"] = "url"
        if site == "root":
            idx = rng.randint(1, 5)
    b = {"plat": plat, "framing": framing, "cfg": cfg, "alt": {"site": site, "idx": idx}, "net": net}
    if rng.random() < 0.3:          # any alteration / network choice may meet any signature shape
        shapes = attflow.SHAPES_SECP if plat == "ledger" else attflow.SHAPES_P256
        b["shape"] = {"site": rng.choice(attflow.SIG_SITES[plat]), "cls": rng.choice(shapes)}
        if plat == "sgx" and rng.random() < 0.5:
            b["shape"] = {"site": "q_sig", "cls": rng.choice(attflow.SHAPES_QUOTE)}
    if plat == "sgx" and site == "none" and rng.random() < 0.4:      # ... any zone, any edge of a period
        b["clock"] = {"tz": rng.choice(attflow.TZS), "who": rng.choice(("pck", "pca", "root")),
                      "kind": rng.choice(("far",) + attflow.WHEN_KINDS)}
    if site == "none" and rng.random() < 0.3:          # ... any digest shape
        dsite = rng.choice(attflow.DIGEST_SITES[plat])
        if not (dsite == "ak" and cfg["qeauth"] < 4):
            b["digest"] = {"site": dsite, "cls": rng.choice(attflow.DIGEST_CLASSES)}
    if net["ud"] == "hex" and rng.random() < 0.3:      # ... and any two-run history
        b["hist"] = rng.choice(("reattest", "inplace", "sameout", "reuse0") if plat == "ledger" else ("sameout", "two"))
    c = attflow.concretise(b, rng)
    c["random"] = True
    return c


# ------------------------------------------------------------------------------------------------
def payload(i, o):
    t = {k: o[k] for k in TRACE_KEYS if k != "id"}
    t["id"] = i
    return t


def corrupted_observations(cases, results):
    """Self-test of the trace specification (DESIGN.md 3.7a): accepted-looking observations with ONE
    logged field corrupted, and the clause that must reject each."""
    import copy
    gen = next(((o, c) for (o, _d), c in zip(results, cases)
                if c["alt"]["site"] == "none" and o["verify"] == "ok" and o["udsrc"] == "hex"
                and o["rootvia"] == "file"), None)
    nodeok = next((o for (o, _d), c in zip(results, cases)
                   if o["udsrc"] == "node" and o["node"] in ("ok", "grew", "reorg") and o["verify"] == "ok"), None)
    nodebad = next((o for (o, _d), c in zip(results, cases)
                    if o["udsrc"] == "node" and o["node"] == "badid" and o["g_attest"] == "fail"), None)
    urlok = next((o for (o, _d), c in zip(results, cases) if o["rootvia"] == "url" and o["verify"] == "ok"), None)
    urlbad = next((o for (o, _d), c in zip(results, cases) if o["rootvia"] == "url" and o["verify"] == "fail"), None)
    alt = next(((o, c) for (o, _d), c in zip(results, cases)
                if c["alt"]["site"] != "none" and o["gather"] == "ok" and o["verify"] == "fail"), None)
    out = []
    if gen:
        o = copy.deepcopy(gen[0])
        o["printed"]["pkhash"] = o["printed"]["pkhash"][:-1] + ("0" if o["printed"]["pkhash"][-1:] != "0" else "1")
        out.append((o, "GenuineVerifies"))
        o = copy.deepcopy(gen[0])
        o["printed"]["keys"] = list(reversed(o["printed"]["keys"]))
        out.append((o, "GenuineVerifies"))
        o = copy.deepcopy(gen[0])
        o["g_attest"], o["gather"], o["verify"], o["verify2"] = "fail", "fail", "na", "na"
        out.append((o, "GenuineGathers"))
        o = copy.deepcopy(gen[0])
        o["reload"] = o["reload"][:-1]
        out.append((o, "Lossless"))
        o = copy.deepcopy(gen[0])
        o["verify2"] = "fail"
        out.append((o, "ReloadedSameVerdict"))
    if alt and gen:
        o = copy.deepcopy(alt[0])
        o["verify"], o["verify2"] = "ok", "ok"
        o["printed"] = o["printed2"] = copy.deepcopy(gen[0]["printed"])
        out.append((o, "AlteredFails"))
    if nodeok:
        o = copy.deepcopy(nodeok)
        o["http"] = o["http"][:1] + o["http"][2:]
        out.append((o, "NodeProtocol"))
        o = copy.deepcopy(nodeok)
        o["http"][1]["params"][0] = "latest"
        out.append((o, "NodeProtocol"))
        o = copy.deepcopy(nodeok)
        o["http"][0]["ctype"] = "text/plain"
        out.append((o, "NodeProtocol"))
        o = copy.deepcopy(nodeok)
        o["ud_sent"] = o["ud_sent"][2:] + "00"
        out.append((o, "UdDelivered"))
    if nodebad:
        o = copy.deepcopy(nodebad)
        o["contacted"] = "yes"
        out.append((o, "NodeBad"))
        o = copy.deepcopy(nodebad)
        o["g_err"] = "raw"
        out.append((o, "NodeBad"))
        o = copy.deepcopy(nodebad)
        o["att_file"] = "yes"
        out.append((o, "NodeBad"))
    two = next((o for (o, _d), c in zip(results, cases)
                if o["hist"] in ("reattest", "reuse0", "two") and o["verify"] == "ok" and o["verify_prev"] == "ok"), None)
    if two:
        o = copy.deepcopy(two)
        o["earlier_after"][-1][0][1] = "0" * 64
        out.append((o, "EarlierKept"))
        o = copy.deepcopy(two)
        o["printed_prev"]["s_ud"] = o["printed"]["s_ud"]
        out.append((o, "PrevKept"))
        o = copy.deepcopy(two)
        o["prev_ok"] = "fail"
        out.append((o, "FirstRunGathers"))
    if urlok:
        o = copy.deepcopy(urlok)
        o["http"] = [c for c in o["http"] if c["verb"] != "get"][:]
        out.append((o, "RootFetch"))
    if urlbad:
        o = copy.deepcopy(urlbad)
        o["v_err"] = "raw"
        out.append((o, "RootFetch"))
    return out


def judge(res, cases, results, src, stats_acc):
    traces = [payload(i + 1, o) for i, (o, _d) in enumerate(results)]
    synthetic = corrupted_observations(cases, results)
    for k, (o, _want) in enumerate(synthetic):
        traces.append(payload(len(results) + 1 + k, o))
    verdicts, stats = tlc.validate("TraceAttestFlow", "Trace_AttestFlow.cfg", traces, shards=PROCS * 2)
    res.checker_cmds.append("tlc -workers 1 -config Trace_AttestFlow.cfg TraceAttestFlow (x%d shards, %s)" % (
        stats["jvms"], src))
    accepted = 0
    for i, ((o, d), c) in enumerate(zip(results, cases)):
        v = verdicts[i + 1]
        if v["ok"]:
            accepted += 1
            continue
        if v["clause"] in ("WellFormed", "Stuck"):
            raise core.MachineryError("observation rejected as ill-formed (%s): %s / %s" % (
                v["clause"], json.dumps(c)[:300], json.dumps({k: o[k] for k in ("gather", "verify", "g_onboard", "g_attest")})))
        sig_case = dict(c, alt={"site": "none"}) if o.get("unapplied") else c
        res.violation(
            attflow.signature(v["clause"], sig_case),
            "%s violated: %s device%s, field contents '%s' (UD value %s), alteration %s -> onboard=%s "
            "attestation=%s verify=%s (%s); verify after load;save=%s" % (
                v["clause"], c["plat"], " (legacy signer)" if c["framing"] == "legacy" else "",
                c.get("content", "random"), c["ud"],
                json.dumps(c["alt"], sort_keys=True), o["g_onboard"], o["g_attest"], o["verify"],
                json.dumps(d["exc"], sort_keys=True)[:300], o["verify2"]),
            {"case": c, "outcome": {k: o[k] for k in ("g_onboard", "g_attest", "gather", "verify", "verify2",
                                                      "reload_ok")},
             "exceptions": d["exc"], "printed": o["printed"], "expected_device_values": o["dev"],
             "verdict": v})
    res.add_validation(stats, accepted)
    stats_acc["traces"] = stats_acc.get("traces", 0) + len(traces)
    # self-test of the trace specification; on a tree that already violates the property the picked
    # observations may be rejected earlier than planned, which is not a failure of the machinery
    if not res.violations:
        if len(synthetic) < 18:
            raise core.MachineryError("self-test of the trace specification could not be built")
        for k, (o, want) in enumerate(synthetic):
            v = verdicts[len(results) + 1 + k]
            if v["ok"] or v["clause"] != want:
                raise core.MachineryError("trace specification self-test: corrupted observation %d should be "
                                          "rejected by %s, got %s" % (k, want, v))
    res.coverage["trace_spec_selftest_rejections"] = len(synthetic)
    return verdicts


def outcome_class(o):
    if o["gather"] == "fail":
        return "gather-fails(%s)" % ("onboard" if o["g_onboard"] == "fail" else "attestation")
    return "verify-%s" % o["verify"]


def run(ctx):
    res = core.Result()
    res.assumptions = [
        "perfect (symbolic) cryptography in the specification; the binding uses real secp256k1 / P-256 keys, "
        "HMAC-SHA256 tweaks, X.509 (cryptography), so 'altered' is a real byte flip of a really signed blob",
        "device simulators follow firmware/src/ledger/ui/src/attestation.c, firmware/src/powhsm/src/"
        "attestation.c, firmware/src/hal/sgx/src/trusted/endorsement.c and docs/attestation.md as read; the "
        "Ledger dashboard (CLA 0xE0) answers are modelled from how ledgerblue's endorsement setup signs them",
        "an alteration is one XOR-ed byte of signed content, of a signature, of a chain certificate's TBS / "
        "signature value, or of the root of trust (another key; a byte of x|y on Ledger, of TBS / signature "
        "on SGX). Framing bytes that nothing signs (page flags, length prefixes, signature_len, PEM armour, the "
        "unused third PEM certificate, the 04 prefix of the Ledger root key) are outside the property",
        "signature shapes: every ECDSA signature of the genuine device / of the X.509 chain can be ground (fresh "
        "nonces from the case's seeded generator, own arithmetic) to a class of byte lengths of r and s; Ledger "
        "(secp256k1) signatures are low-s only - libsecp256k1, which the verifier uses, rejects high-s by design "
        "and BOLOS is taken to normalise s",
        "UD value: typed (--attudsource <64 hex digits>) or taken from a scripted Rootstock node standing in for "
        "`requests` inside admin.rsk_client (harness/fakehttp.py; no real network); SGX root of trust: file or "
        "URL served by the same fake layer. Every HTTP request the tools make is recorded and judged",
        "node misbehaviours nohash / nullblock / hashlen / hashnothex / hashnoprefix end, as the code is today, in "
        "KeyError / TypeError / ValueError instead of AdminError (adm_* still stops, exit 4): tolerated by the clause "
        "NodeBad for exactly these (RawAsCoded), counted in coverage, strict form violated in Known2_AttestFlow",
        "inside an abstract class (which byte, which bit, which page size, which key) the choice is seeded "
        "sampling; the thorough tier sweeps every byte position of one representative device per platform",
        "printed values are read from the verify commands' stdout by the labels documented in "
        "docs/attestation.md",
    ]
    attflow.certv2.self_test()
    # 1. design check (exhaustive), vacuity guard, generation — three JVMs side by side
    with cf.ThreadPoolExecutor(max_workers=3) as ex:
        f_mc = ex.submit(tlc.check, "AttestFlow", "MC_AttestFlow.cfg", coverage=True, workers=4)
        f_neg = ex.submit(tlc.run, "AttestFlow", "Neg_AttestFlow.cfg", workers=2)
        f_gen = ex.submit(tlc.generate, "GenAttestFlow", "Gen_AttestFlow.cfg")
        r, rn, (behaviours, rg) = f_mc.result(), f_neg.result(), f_gen.result()
    if r.violated:
        raise core.MachineryError("AttestFlow model violates %s — model and property disagree; replay "
                                  "against the code before reporting" % r.violated)
    res.add_tlc(r, "MC_AttestFlow exhaustive")
    counts = r.action_counts()
    never = [a for a in ACTIONS if counts.get(a, 0) == 0]
    if never:
        raise core.MachineryError("vacuity: actions never taken: %s" % never)
    res.coverage["uncovered_actions"] = never
    if "NeverVerifies" not in rn.violated:
        raise core.MachineryError("vacuity guard: no run of the model ever verifies")
    res.add_tlc(rg, "Gen_AttestFlow behaviours")
    res.coverage["behaviours_generated"] = len(behaviours)
    shape = {
        "genuine": sum(1 for b in behaviours if b["alt"]["site"] == "none"),
        "legacy_ok": any(b["framing"] == "legacy" and b["verify"] == "ok" for b in behaviours),
        "four_ui_pages_ok": any(b["cfg"]["uip"] == 4 and b["verify"] == "ok" for b in behaviours),
        "gather_fails": sum(1 for b in behaviours if b["gather"] == "fail"),
        "verify_fails": sum(1 for b in behaviours if b["verify"] == "fail"),
    }
    if not (shape["legacy_ok"] and shape["four_ui_pages_ok"] and shape["gather_fails"] and shape["verify_fails"]):
        raise core.MachineryError("vacuity: generated behaviours lack a shape: %s" % shape)
    res.coverage["model_shape"] = shape
    if not ctx.quick:
        # every vacuity guard on its own; the known window; every seeded model defect is caught
        jobs = [("Neg_AttestFlow_%s.cfg" % n, n) for n in NEGATIVES[1:]] + \
               [("Known_AttestFlow.cfg", "GenuineGathers"), ("Known2_AttestFlow.cfg", "NodeBadStrict")] + \
               [("NegBug_AttestFlow_%s.cfg" % b, cl) for b, cl in MODEL_BUGS]
        with cf.ThreadPoolExecutor(max_workers=4) as ex:
            outs = list(ex.map(lambda j: tlc.run("AttestFlow", j[0], workers=2), jobs))
        for (cfg, want), rr in zip(jobs, outs):
            if want not in rr.violated:
                raise core.MachineryError("negative configuration %s did not violate %s (%s)" % (
                    cfg, want, rr.violated or rr.error))
        res.coverage["negative_configurations_violated_as_required"] = len(jobs) + 1
    # 2. the cases: every model behaviour concretised, random shapes over the concrete domains
    #    (binding B), byte-position sweeps of the alteration
    chosen, n_classes = select(behaviours, ctx.rng, SUBSET)
    profiles = attflow.PROFILES
    cases = []
    for n, i in enumerate(chosen):
        b = behaviours[i]
        # every genuine run of the model gets a boundary-looking content profile in turn (every second
        # one with the public keys hash ground to match); altered runs draw theirs from the seed
        prof = profiles[1 + n % (len(profiles) - 1)] if b["alt"]["site"] == "none" else None
        cases.append(attflow.concretise(b, ctx.rng, profile=prof,
                                        grind=(b["alt"]["site"] == "none" and n % 2 == 0)))
    for c in cases[:3]:
        c["keep_stdout"] = True
    for _rep in range(ctx.pick(0, 2)):            # thorough: two more concretisations of every behaviour
        cases += [attflow.concretise(behaviours[i], ctx.rng) for i in chosen]
    chosen = chosen * ctx.pick(1, 3)
    rcases = [random_case(ctx.rng) for _ in range(ctx.pick(150, 12000))]
    scases = []
    for _dev in range(ctx.pick(1, 3)):            # thorough: every byte position, three devices
        scases += attflow.sweep_cases(ctx.rng, stride=ctx.pick(29, 1))
    bcases = attflow.content_cases(ctx.rng) + attflow.history_cases(ctx.rng)
    for _rep in range(ctx.pick(0, 9)):
        bcases += attflow.content_cases(ctx.rng) + attflow.history_cases(ctx.rng)
    everything = cases + rcases + scases + bcases
    # 3. the real commands, end to end, on real files
    allres = run_cases(ctx, everything)
    results = allres[:len(cases)]
    sresults = allres[len(cases) + len(rcases):len(cases) + len(rcases) + len(scases)]
    res.coverage["behaviours_replayed"] = len(set(chosen))
    res.coverage["concretisations_per_behaviour"] = ctx.pick(1, 3)
    res.coverage["alteration_classes_in_model"] = n_classes
    drift, drift_kinds = 0, {}
    for i, ((o, d), c) in zip(chosen, zip(results, cases)):
        b = behaviours[i]
        node_run = b["net"]["ud"] != "hex"
        if (o["g_onboard"], o["g_attest"], o["verify"], o["verify2"]) != \
                (b["g_onboard"], b["g_attest"], b["verify"], b["verify2"]) or \
                (node_run and o["g_err"] != b["g_err"]):
            drift += 1
            k = "%s %s node=%s model=%s/%s/%s/%s code=%s/%s/%s/%s" % (
                c["plat"], c["alt"]["site"], b["net"]["ud"], b["g_onboard"], b["g_attest"], b["verify"], b["g_err"],
                o["g_onboard"], o["g_attest"], o["verify"], o["g_err"])
            drift_kinds[k] = drift_kinds.get(k, 0) + 1
    for (o, d), c in zip(allres, everything):
        if d["faithful"]:
            drift += 1
            k = "file differs from the device's answers: %s" % ",".join(d["faithful"][:4])
            drift_kinds[k] = drift_kinds.get(k, 0) + 1
    res.coverage["model_drift"] = drift
    res.coverage["model_drift_kinds"] = drift_kinds
    # 4. TLC judges every observation
    stats_acc = {}
    judge(res, everything, allres, "model behaviours + random shapes + byte sweeps", stats_acc)
    outcomes = {}
    for (o, d), c in zip(allres, everything):
        kind = "altered" if c["alt"]["site"] != "none" else "out-of-period" if o["alt"] == "period" else (
            "node-misbehaves" if c.get("udsrc") == "node" and c["node"] not in ("ok", "grew", "reorg") else "genuine")
        key = "%s/%s/%s" % (c["plat"], kind, outcome_class(o))
        outcomes[key] = outcomes.get(key, 0) + 1
    classes_hit = {(c["plat"], c["framing"], c["alt"]["site"], c["alt"].get("field"), c["alt"].get("page"),
                    c["alt"].get("how")) for c in everything}
    res.coverage["boundary_content_genuine_devices"] = len(bcases)
    res.coverage["content_profiles"] = list(attflow.PROFILES)
    ground, seen = {}, {}
    for (o, d), c in zip(allres, everything):
        if c.get("sigshape"):
            k = "%s %s:%s" % (c["plat"], c["sigshape"]["site"], c["sigshape"]["cls"])
            ground[k] = ground.get(k, 0) + 1
        for site, shp in d["shapes"].items():
            for comp, cl in zip("rs", shp.split("/")):
                k = "%s %s %s=%s" % (c["plat"], site, comp, cl)
                seen[k] = seen.get(k, 0) + 1
    dground, dseen = {}, {}
    for (o, d), c in zip(allres, everything):
        if c.get("digest"):
            k = "%s %s:%s" % (c["plat"], c["digest"]["site"], c["digest"]["cls"])
            dground[k] = dground.get(k, 0) + 1
        for site, cl in d["digests"].items():
            k = "%s %s=%s" % (c["plat"], site, cl)
            dseen[k] = dseen.get(k, 0) + 1
    res.coverage["digest_shapes_ground"] = dict(sorted(dground.items()))
    res.coverage["digest_classes_seen"] = dict(sorted(dseen.items()))
    clocks = {}
    for (o, d), c in zip(allres, everything):
        if c.get("tz") or c.get("when"):
            k = "%s %s:%s -> %s" % (o["tz"], o["when_who"], o["when_kind"], o["verify"])
            clocks[k] = clocks.get(k, 0) + 1
    res.coverage["zones_and_validity_edges"] = dict(sorted(clocks.items()))
    res.coverage["signature_shapes_ground"] = dict(sorted(ground.items()))
    res.coverage["signature_component_classes_seen"] = dict(sorted(seen.items()))
    hists = {}
    for c in everything:
        k = "%s %s %s" % (c["plat"], c.get("hist", "single"), "altered" if c["alt"]["site"] != "none" else "genuine")
        hists[k] = hists.get(k, 0) + 1
    res.coverage["histories"] = dict(sorted(hists.items()))
    res.coverage["node_runs"] = sum(1 for c in everything if c.get("udsrc") == "node")
    res.coverage["node_behaviours_hit"] = sorted({"%s@%d" % (c["node"], c["node_at"]) for c in everything
                                                  if c.get("udsrc") == "node"})
    res.coverage["root_by_url_runs"] = sum(1 for c in everything if c.get("rootvia") == "url")
    res.coverage["http_requests_recorded"] = sum(len(o["http"]) for (o, _d) in allres)
    raw = {}
    for (o, d), c in zip(allres, everything):
        if o["udsrc"] == "node" and o["g_err"] == "raw":
            k = "%s: %s" % (o["node"], (d["exc"].get("attest") or "").split(":")[0])
            raw[k] = raw.get(k, 0) + 1
    res.coverage["node_failures_escaping_as_raw_exceptions_tolerated_as_coded"] = raw
    res.coverage["random_cases"] = len(rcases)
    res.coverage["random_qeauth_sizes"] = len({c["qeauth"] for c in rcases if c["plat"] == "sgx"})
    res.coverage["sweep_positions"] = len(scases)
    res.coverage["sweep_stride"] = ctx.pick(29, 1)
    res.coverage["alterations_never_transmitted"] = sum(1 for (o, _d) in allres if o.get("unapplied"))
    res.coverage["genuine_runs"] = sum(1 for c in everything if c["alt"]["site"] == "none")
    res.coverage["altered_runs"] = sum(1 for c in everything if c["alt"]["site"] != "none")
    res.coverage["outcomes"] = dict(sorted(outcomes.items()))
    res.coverage["distinct_abstract_classes_hit"] = len(classes_hit)
    res.coverage["worker_processes"] = PROCS
    # samples
    for (o, d), c in list(zip(results, cases))[:3] + list(zip(sresults, scases))[:1]:
        res.sample({"case": {k: c[k] for k in ("plat", "framing", "alt", "qeauth", "npem", "ui_pagesize",
                                                "s_pagesize", "e_pages")},
                    "gather": o["gather"], "verify": o["verify"], "verify_after_reload": o["verify2"],
                    "exceptions": d["exc"], "printed": {k: v for k, v in o["printed"].items() if v},
                    "device": {k: v for k, v in o["dev"].items() if v}})
    return res


def replay(ctx, path):
    with open(path) as f:
        data = json.load(f)
    case = data["replay"]["case"]
    case["keep_stdout"] = True
    _init_worker(ctx.scratch)
    _i, o, d = _run_one((0, case))
    if o is None:
        print(d["harness_error"])
        return 2
    verdicts, _ = tlc.validate("TraceAttestFlow", "Trace_AttestFlow.cfg", [payload(1, o)])
    print(json.dumps({"case": case, "outcome": {k: o[k] for k in ("g_onboard", "g_attest", "gather", "verify",
                                                                  "verify2", "reload_ok")},
                      "exceptions": d["exc"], "printed": o["printed"], "device": o["dev"],
                      "verify_stdout": d["verify_stdout"], "signature": attflow.signature(
                          verdicts[1]["clause"] or "-", case), "verdict": verdicts[1]}, indent=1))
    return 0 if verdicts[1]["ok"] else 1
