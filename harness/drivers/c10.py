"""C10 — the PIN kept on disk always opens the device.
TLC: PinStore (exhaustive, with the known ack->durable window isolated) ; GenPinStore histories replayed
as child-process lifetimes on the real code ; TracePinStore judges the recorded histories and PIN draws."""
import json
import random as _random

from .. import core, env, pinlife, tlc

CRASH_POINTS = {
    "ledger": {
        "load": ["started"],
        "unlock": ["loaded", "apdu:is_onboard", "apdu:get_mode", "apdu:echo", "apdu:retries",
                   "apdu:pin_byte#3"],
        "gen": ["apdu:unlock", "apdu:pin_byte#10", "apdu:pin_byte#17"],
        "open": ["apdu:change_pin", "fs:open:pre"],
        "write": ["fs:open:post"],
        "close": ["fs:write:post"],
        "stopping": ["ending"],
        "serve": ["apdu:unlock", "apdu:exit", "apdu:params"],
    },
    "sgx": {
        "load": ["started"],
        "unlock": ["loaded", "apdu:is_onboard", "apdu:get_mode", "apdu:echo", "apdu:retries"],
        "gen": ["apdu:unlock"],
        "open": ["apdu:change_pin", "fs:open:pre"],
        "write": ["fs:open:post"],
        "close": ["fs:write:post"],
        "stopping": ["ending"],
        "serve": ["apdu:unlock", "apdu:exit", "apdu:params"],
    },
}


def split_lives(hist):
    lives, cur = [], None
    for h in hist:
        if h["a"] == "start":
            cur = {"force": h["force"], "file": h["file"], "ans": "ack", "fault": None, "crash": None,
                   "steps": [], "start_mode": "boot", "reboot": False, "crash_phase": 0}
            lives.append(cur)
        else:
            cur["steps"].append(h)
            if h["a"] == "newpin":
                cur["ans"] = h["ans"]
            elif h["a"] == "fs" and h["ok"] == "f":
                cur["fault"] = h["op"]
            elif h["a"] == "crash":
                cur["crash"] = h["at"]
                cur["crash_phase"] = 1 if cur["reboot"] else 0
            elif h["a"] == "load":
                cur["start_mode"] = h.get("mode", "boot")
            elif h["a"] == "reboot":
                cur["reboot"] = True
    return lives


def concrete_crash(plat, life, rng):
    at = life["crash"]
    if at is None:
        return None
    if at == "abort":
        if life["fault"]:
            return "fs:%s:fail" % life["fault"]
        return "apdu:change_pin"
    if at == "stopping" and any(s["a"] == "fs" and s["op"] == "close" and s["ok"] == "t"
                                for s in life["steps"]):
        return rng.choice(["fs:close:post", "ending"])
    pts = list(CRASH_POINTS[plat][at])
    if life["crash_phase"] == 1:
        pts = [p for p in pts if p not in ("started", "loaded")] or ["reboot"]
    elif life["start_mode"] == "signer":
        # no bootloader at start-up: only the exchanges of a signer-mode bring-up exist
        pts = [p for p in pts if p in ("started", "loaded", "apdu:is_onboard", "apdu:get_mode", "apdu:params",
                                       "ending")] or ["apdu:params"]
    return rng.choice(pts)


def cause_of(events):
    """Classify (not judge) how the ack->durable window was left open in a recorded history: what
    followed the device's acknowledgement within that lifetime."""
    acked_at = None
    for i, e in enumerate(events):
        if e["k"] == "start":
            acked_at = None
        if e["k"] == "newpin" and e["ok"] == "t":
            acked_at = i
            newp = e["pin"]
            continue
        if acked_at is not None and e["dev"] == newp and e["file"] != newp:
            # inside the window: look ahead within this lifetime
            for f in events[i:]:
                if f["k"] == "fs" and f["ok"] == "f":
                    return "%s-fail" % f["op"]
                if f["k"] == "end":
                    if f["outcome"] == "crash" and f["file"] != newp:
                        return "crash"
                    return "transient"
                if f["k"] == "start":
                    break
            return "transient"
    return "aftermath"


def replay_history(ctx, tag, plat, lives):
    h = pinlife.History(ctx.scratch, tag, plat, lives[0]["file"], "%s:%s" % (ctx.seed, tag))
    plans = []
    for lf in lives:
        cp = concrete_crash(plat, lf, ctx.rng)
        if lf["reboot"] and ctx.rng.random() < 0.5:
            lf = dict(lf, reboot="cut")      # same history for the model: the repair that is cut short shows no event
        plans.append({"force": lf["force"], "ans": lf["ans"], "fault": lf["fault"], "crash": cp,
                      "start_mode": lf["start_mode"], "reboot": lf["reboot"], "crash_phase": lf["crash_phase"]})
        h.lifetime(lf["force"], lf["ans"], lf["fault"], cp, start_mode=lf["start_mode"], reboot=lf["reboot"],
                   crash_phase=lf["crash_phase"])
    return h, plans


def adversarial_pin_draws(n, rng):
    """Drive the real generate_pin with chosen randomness: the first candidate of each draw is forced to
    a policy-violating shape the alphabet allows (all digits); later candidates are random. The generator
    must keep drawing until the policy holds."""
    env.setup()
    import ledger.pin as lpin

    class Src:
        def __init__(self):
            self.k = 0

        def seed(self, *a):
            self.k = 0

        def choice(self, seq):
            self.k += 1
            if self.k <= 8:
                digits = [c for c in seq if c.isdigit()]
                return rng.choice(digits)
            return rng.choice(seq)
    real = lpin.random
    out = []
    try:
        lpin.random = Src()
        for _ in range(n):
            out.append(lpin.BasePin.generate_pin())
    finally:
        lpin.random = real
    return out


def natural_pin_draws(n):
    env.setup()
    import ledger.pin as lpin
    return [lpin.BasePin.generate_pin() for _ in range(n)]


def run(ctx):
    res = core.Result()
    res.assumptions = [
        "one child process per manager lifetime; crash = os._exit(77) at APDU / file-operation boundaries",
        "file durability semantics: open('wb') truncates at once, written data reach the file at close "
        "(Python buffered I/O), a failing write/close leaves the truncated file",
        "device PIN is durable at the moment the device acknowledges CHANGE_PIN / SGX_CHANGE_PASSWORD",
        "device simulator follows the firmware protocol as read; 'stops' = initialize_device() raised",
    ]
    r = tlc.check("PinStore", "MC_PinStore.cfg", coverage=True, workers=4)
    if r.violated:
        raise core.MachineryError("PinStore model violates %s outside the known window" % r.violated)
    res.add_tlc(r, "MC_PinStore exhaustive (3 lifetimes, <=1 fs fault, <=2 crashes, <=1 reboot while serving)")
    never = [a for a, c in r.action_counts().items() if c == 0 and a not in ("Init",)]
    if never:
        raise core.MachineryError("vacuity: PinStore actions never taken: %s" % never)
    rn = tlc.run("PinStore", "Neg_PinStore.cfg", workers=2)
    if "NoWindow" not in rn.violated:
        raise core.MachineryError("the faithful model no longer exhibits the ack->durable window; "
                                  "re-read ledger/pin.py and update the model / known findings")
    res.coverage["model_exhibits_known_window"] = True
    pinlife.preload()
    behaviours, rg = tlc.generate("GenPinStore", "Gen_PinStore.cfg")
    res.add_tlc(rg, "Gen_PinStore histories")
    res.coverage["behaviours_generated"] = len(behaviours)
    # complete histories only (every prefix is a history of its own, so prefer the longest ones)
    idx = list(range(len(behaviours)))
    ctx.rng.shuffle(idx)
    n = ctx.pick(260, len(idx))
    chosen = idx[:n]
    traces, info = [], {}
    drift = 0
    newpins = []
    for k, bi in enumerate(chosen):
        b = behaviours[bi]
        lives = split_lives(b["hist"])
        plat = "ledger" if k % 3 != 2 else "sgx"
        h, plans = replay_history(ctx, "b%d" % bi, plat, lives)
        t = h.trace(len(traces) + 1)
        traces.append(t)
        newpins += h.newpins
        info[t["id"]] = {"plat": plat, "lives": lives, "plans": plans, "model_win": b["win"],
                         "init_file": lives[0]["file"]}
    res.coverage["behaviours_replayed"] = len(chosen)
    # random fault/crash schedules of depth <= 4 lifetimes (binding B)
    n_rand = ctx.pick(60, 1500)
    for i in range(n_rand):
        plat = ctx.rng.choice(["ledger", "sgx"])
        init = ctx.rng.choice([100, 100, 0, 102, 101])
        h = pinlife.History(ctx.scratch, "r%d" % i, plat, init, "%s:r%d" % (ctx.seed, i))
        lives, plans = [], []
        for _ in range(ctx.rng.randint(1, 4)):
            force = ctx.rng.random() < 0.5
            ans = ctx.rng.choice(["ack", "ack", "refuse", "err"])
            fault = ctx.rng.choice([None, None, None, "open", "write", "close"])
            allpts = sorted({p for v in CRASH_POINTS[plat].values() for p in v} |
                            {"fs:close:post", "fs:open:fail", "fs:write:fail", "fs:close:fail"})
            crash = ctx.rng.choice([None, None] + allpts)
            sm = ctx.rng.choice(["boot", "boot", "signer"])
            rb = ctx.rng.choice([False, False, False, True, "cut"])
            cph = ctx.rng.choice([0, 1]) if rb else 0
            h.lifetime(force, ans, fault, crash, start_mode=sm, reboot=rb, crash_phase=cph)
            lives.append({"force": force, "ans": ans, "fault": fault,
                          "crash": None if crash is None else "random", "steps": [{"a": "fs"}],
                          "file": init})
            plans.append({"force": force, "ans": ans, "fault": fault, "crash": crash, "start_mode": sm,
                          "reboot": rb, "crash_phase": cph})
        t = h.trace(len(traces) + 1)
        traces.append(t)
        newpins += h.newpins
        info[t["id"]] = {"plat": plat, "lives": lives, "plans": plans, "model_win": None,
                         "init_file": init}
    res.coverage["random_histories"] = n_rand
    # PIN generation: natural draws + adversarial randomness, judged by TLC (ValidPinBytes)
    n_nat = ctx.pick(3000, 100000)
    n_adv = ctx.pick(1000, 20000)
    draws = natural_pin_draws(n_nat) + adversarial_pin_draws(n_adv, ctx.rng) + newpins
    gen_ids = []
    for i in range(0, len(draws), 1000):
        tid = len(traces) + 1
        traces.append({"id": tid, "kind": "gen", "file0": 0, "dev0": 0, "ev": [],
                       "pins": [list(p) for p in draws[i:i + 1000]]})
        gen_ids.append((tid, i))
    res.coverage["pin_draws_checked"] = len(draws)
    verdicts, stats = tlc.validate("TracePinStore", "Trace_PinStore.cfg", traces)
    res.checker_cmds.append("tlc -workers 1 -config Trace_PinStore.cfg TracePinStore (x%d shards)" % stats["jvms"])
    accepted = 0
    windows = {}
    for t in traces:
        v = verdicts[t["id"]]
        if t["kind"] == "gen":
            if v["ok"]:
                accepted += 1
            else:
                base = dict(gen_ids)[t["id"]]
                bad = draws[base + v["at"] - 1] if 0 < v["at"] <= len(t["pins"]) else b"?"
                res.violation("GeneratedPinInvalid", "generate_pin produced %r, which violates the device "
                              "policy (8 alphanumerics, at least one letter)" % bad,
                              {"pin": bad.hex() if isinstance(bad, bytes) else str(bad)})
            continue
        inf = info[t["id"]]
        if v["ok"]:
            accepted += 1
            if inf["model_win"]:
                drift += 1
            continue
        if v["clause"] == "Window":
            cause = cause_of(t["ev"])
            sig = "Window[ack..durable]|cause=%s" % cause
            windows[cause] = windows.get(cause, 0) + 1
            res.violation(sig, "PIN unrecoverable between device acknowledgement and durable commit "
                          "(%s)" % cause, {"plat": inf["plat"], "init_file": inf["init_file"],
                                           "plans": inf["plans"], "events": t["ev"]})
            if inf["model_win"] is False:
                drift += 1
            accepted += 1   # explained by the model (the model has the same window)
            continue
        res.violation("%s|plat=%s" % (v["clause"], inf["plat"]),
                      "history violates %s at event %s: %s" % (v["clause"], v["at"],
                                                               json.dumps(inf["plans"])),
                      {"plat": inf["plat"], "init_file": inf["init_file"], "plans": inf["plans"],
                       "events": t["ev"], "verdict": v})
    res.add_validation(stats, accepted)
    res.coverage["window_observations_by_cause"] = windows
    res.coverage["model_drift"] = drift
    for t in traces[:3]:
        if t["kind"] == "life":
            res.sample({"plans": info[t["id"]]["plans"], "plat": info[t["id"]]["plat"],
                        "events": [(e["k"], e["op"], e["ok"], e["file"], e["dev"]) for e in t["ev"]]})
    return res


def replay(ctx, path):
    with open(path) as f:
        d = json.load(f)["replay"]
    if "pin" in d:
        print("pin draw: %s" % d["pin"])
        return 1
    pinlife.preload()
    h = pinlife.History(ctx.scratch, "replay", d["plat"], d["init_file"], "replay")
    for p in d["plans"]:
        h.lifetime(p["force"], p["ans"], p["fault"], p["crash"], start_mode=p.get("start_mode", "boot"),
                   reboot=p.get("reboot", False), crash_phase=p.get("crash_phase", 0))
    t = h.trace(1)
    verdicts, _ = tlc.validate("TracePinStore", "Trace_PinStore.cfg", [t])
    print(json.dumps({"events": t["ev"], "verdict": verdicts[1]}, indent=1))
    return 0 if verdicts[1]["ok"] else 1
