"""C12 — concurrent clients never interleave on the device.
TLC: Conc (Handlers = 1 exhaustive + liveness; Handlers = 2 must violate) ; client-side schedules generated
by TLC replayed against a live manager over real TCP ; threaded random runs with delays injected on the
device side ; TraceConc judges the globally ordered log recorded inside the manager process."""
import hashlib
import json
import random
import socket
import threading
import time

from .. import core, reqs, tlc
from ..live import LiveManager
from ..simdev import PATHS, der_sig


class Recorder:
    """One lock hands out the global order of begin / apdu / end / got events."""

    def __init__(self, manager):
        self.lock = threading.Lock()
        self.events = []
        self.tids = {}
        m = manager
        self.m = m
        dev = m.device
        dev.sig_from_hash = lambda h: der_sig(hashlib.sha256(b"r" + h).digest(), hashlib.sha256(b"s" + h).digest())
        dev.hb_msg_from_ud = lambda ud: b"HSM:SIGNER:HB:5.4:" + ud + bytes(40)
        orig = m.proto.handle_request

        def handle_request(request):
            rid = request.get("_verif_id", 0) if isinstance(request, dict) else 0
            t = self.tid()
            self.emit({"k": "begin", "r": rid, "t": t, "m": 0})
            # the device's blockchain state moves on between requests: what it holds now is derived from this
            # request's id, so a state reply built from anything read during another request is recognisable
            if rid:
                for i in list(dev.state_hashes):
                    dev.state_hashes[i] = hashlib.sha256(b"%d|%d" % (rid, i)).digest()
            try:
                return orig(request)
            finally:
                self.emit({"k": "end", "r": rid, "t": t, "m": 0})
        m.proto.handle_request = handle_request
        m.world.on_event = self.on_world

    def tid(self):
        i = threading.get_ident()
        with self.lock:
            if i not in self.tids:
                self.tids[i] = len(self.tids) + 1
            return self.tids[i]

    def emit(self, e):
        with self.lock:
            self.events.append(e)

    def on_world(self, ev):
        if ev["ev"] == "apdu":
            self.emit({"k": "apdu", "r": 0, "t": self.tid(), "m": 0})

    def take(self):
        with self.lock:
            ev, self.events = self.events, []
        return ev


KINDS = ["sign_hash", "signerHeartbeat", "getPubKey", "blockchainState", "advanceBlockchain", "sign_legacy",
         "updateAncestorBlock"]


def make_request(rid, kind, rng):
    req, st = reqs.make(kind, rng)
    req["_verif_id"] = rid
    return req, st


def reply_owner(rid, kind, st, reply, device, all_reqs):
    """Which request does this reply belong to? (classification of bytes; TLC compares with rid)"""
    if kind == "advanceBlockchain" and isinstance(reply, dict):
        # the reply that belongs to this request says what the device did with *its* blocks: partial success when
        # the device (by its policy for this run) stops after the first block, total success otherwise
        stop = getattr(getattr(device, "block_policy", None), "stop_after", None)
        want = 1 if (stop is not None and stop[1] == "partial") else 0
        return rid if reply.get("errorcode") == want else 0
    if not isinstance(reply, dict) or reply.get("errorcode") != 0:
        return 0
    if kind == "sign_hash":
        r = reply.get("signature", {}).get("r")
        for oid, (k2, st2) in all_reqs.items():
            if k2 == "sign_hash" and hashlib.sha256(b"r" + st2["hash"]).hexdigest() == r:
                return oid
        return 0
    if kind == "signerHeartbeat":
        msg = reply.get("message", "")
        for oid, (k2, st2) in all_reqs.items():
            if k2 == "signerHeartbeat" and st2["ud"].hex() in msg:
                return oid
        return 0
    if kind == "getPubKey":
        from ..simdev import PATH_BYTES
        return rid if reply.get("pubKey") == device.keys[PATH_BYTES[st["key"]]].hex() else 0
    if kind == "blockchainState":
        vals = []

        def walk(v):
            if isinstance(v, dict):
                for x in v.values():
                    walk(x)
            elif isinstance(v, str) and len(v) == 64:
                vals.append(v)
        walk(reply.get("state"))
        if not vals:
            return 0
        for oid, (k2, _st2) in all_reqs.items():
            if k2 == "blockchainState":
                own = {hashlib.sha256(b"%d|%d" % (oid, i)).hexdigest() for i in (0x01, 0x02, 0x03, 0x05, 0x81, 0x82, 0x84)}
                if all(v in own for v in vals):
                    return oid
        return 0
    return rid


def client_io(addr, line, timeout=60):
    s = socket.create_connection(addr, timeout=10)
    return s


def connect(m, c=0):
    """A client's connection to the manager; where the manager is bound to every interface, clients take the
    address families in either order (IPv6 loopback first or last) and fall back as a resolver-driven client does."""
    alts = getattr(m, "alt_addrs", None)
    if not alts:
        return socket.create_connection(m.addr, timeout=10)
    last = None
    for a in (alts if c % 2 == 0 else alts[::-1]):
        try:
            return socket.create_connection(a, timeout=10)
        except OSError as e:
            last = e
    raise last


def read_reply(s, timeout=90):
    """The reply object, or None when nothing (parsable) arrives: an unanswered client is an
    observation (got(r, 0)), not a harness failure."""
    data = b""
    s.settimeout(timeout)
    try:
        while True:
            b = s.recv(65536)
            if not b:
                break
            data += b
    except (socket.timeout, OSError):
        pass
    s.close()
    try:
        return json.loads(data.decode())
    except Exception:
        return None


def run_schedule(m, rec, sched, kinds, rng, base_id):
    """Replay a client-side schedule [(connect|send, c)...] from the harness thread."""
    socks, reqd, allr = {}, {}, {}
    for (op, c) in sched:
        if op == "connect":
            socks[c] = socket.create_connection(m.addr, timeout=10)
            rid = base_id + c
            reqd[c] = (rid,) + make_request(rid, kinds[c - 1], rng)
            allr[rid] = (kinds[c - 1], reqd[c][2])
        else:
            rid, req, st = reqd[c]
            socks[c].sendall(json.dumps(req).encode() + b"\n")
            time.sleep(0.001)
    for c in sorted(socks):
        rid, req, st = reqd[c]
        reply = read_reply(socks[c])
        owner = reply_owner(rid, kinds[c - 1], st, reply, m.device, allr)
        rec.emit({"k": "got", "r": rid, "t": 0, "m": owner})
    return rec.take()


def run_threads(m, rec, n_clients, n_reqs, rng, base_id):
    plans, allr = {}, {}
    for c in range(n_clients):
        plans[c] = []
        for j in range(n_reqs):
            rid = base_id + c * 100 + j + 1
            kind = rng.choice(KINDS)
            req, st = make_request(rid, kind, rng)
            plans[c].append((rid, kind, req, st))
            allr[rid] = (kind, st)
    delays = random.Random(rng.random())
    m.device.exchange_delay = lambda: time.sleep(delays.random() * 0.0015)
    from ..simdev import FaithfulBlockPolicy
    # in half of the runs the device reports partial success after the first block of every advance
    m.device.block_policy = FaithfulBlockPolicy(stop_after=(1, "partial")) if rng.random() < 0.5 else FaithfulBlockPolicy()
    errors = []

    def client(c):
        for (rid, kind, req, st) in plans[c]:
            try:
                s = connect(m, c)
                time.sleep(delays.random() * 0.002)
                s.sendall(json.dumps(req).encode() + b"\n")
                reply = read_reply(s, 90 if m.alive() else 2)
            except OSError:
                reply = None
            rec.emit({"k": "got", "r": rid, "t": 0, "m": reply_owner(rid, kind, st, reply, m.device, allr)})
    ths = [threading.Thread(target=client, args=(c,)) for c in range(n_clients)]
    for t in ths:
        t.start()
    for t in ths:
        t.join(120)
    m.device.exchange_delay = None
    m.device.block_policy = FaithfulBlockPolicy()
    return rec.take(), errors


def run_slow(m, rec, rng, base_id, per_exchange=1.25, others=3):
    """One request whose device exchanges take longer in total (9 x 1.25 s) than any plausible per-request
    time limit, each exchange well inside the 10 s dongle timeout, while other clients queue up behind it."""
    slow_req, slow_st = make_request(base_id + 1, "blockchainState", rng)
    allr = {base_id + 1: ("blockchainState", slow_st)}
    state = {"slow": True}
    m.device.exchange_delay = lambda: time.sleep(per_exchange if state["slow"] else 0.0005)
    results = {}

    def slow_client():
        s = socket.create_connection(m.addr, timeout=10)
        s.sendall(json.dumps(slow_req).encode() + b"\n")
        reply = read_reply(s, 60)
        rec.emit({"k": "got", "r": base_id + 1, "t": 0,
                  "m": reply_owner(base_id + 1, "blockchainState", slow_st, reply, m.device, allr)})

    def quick_client(i):
        rid = base_id + 10 + i
        req, st = make_request(rid, rng.choice(["sign_hash", "signerHeartbeat", "getPubKey"]), rng)
        kind = req["command"] if req["command"] != "sign" else "sign_hash"
        allr[rid] = (kind, st)
        try:
            s = socket.create_connection(m.addr, timeout=10)
            s.sendall(json.dumps(req).encode() + b"\n")
            reply = read_reply(s, 60)
        except OSError:
            reply = None
        rec.emit({"k": "got", "r": rid, "t": 0, "m": reply_owner(rid, kind, st, reply, m.device, allr)})
    ts = threading.Thread(target=slow_client)
    ts.start()
    time.sleep(0.4)
    # the device is slow only for the first request: later exchanges are quick again once it is done
    qs = [threading.Thread(target=quick_client, args=(i,)) for i in range(others)]
    for q in qs:
        q.start()

    def unslow():
        # exchanges issued on behalf of later requests are fast; the slow request keeps its pace
        pass
    ts.join(90)
    state["slow"] = False
    for q in qs:
        q.join(90)
    m.device.exchange_delay = None
    return rec.take()


def run_reconnect_probe(m, rec, rng, base_id, idle=3.4):
    """A link failure, then a request whose reconnection fails, then the device is back: every device
    exchange must still belong to the request being handled on the issuing thread (anything a background
    helper does to the device on its own shows as an exchange outside any request, or interleaved)."""
    allr = {}
    st = {"k": 10}

    def ask(rid, kind, fault=None, connect_failures=0, delay=0.0):
        req, rst = make_request(rid, kind, rng)
        allr[rid] = (kind, rst)
        m.world.reset_counters()
        if fault:
            m.world.faults = {0: (fault,)}
        m.world.connect_failures = connect_failures
        m.device.exchange_delay = (lambda: time.sleep(delay)) if delay else None
        ev, data = m.request(json.dumps(req).encode())
        try:
            return json.loads(data.decode()) if data else None
        except Exception:
            return None

    def traffic(n, delay):
        for _ in range(n):
            rid = base_id + st["k"]
            st["k"] += 1
            kind = rng.choice(["blockchainState", "signerHeartbeat", "sign_hash"])
            reply = ask(rid, kind, delay=delay)
            rec.emit({"k": "got", "r": rid, "t": 0, "m": reply_owner(rid, kind, allr[rid][1], reply, m.device, allr)})
    # (a) nobody asks anything while the device comes back
    ask(base_id + 1, "getPubKey", fault="write")
    ask(base_id + 2, "getPubKey", connect_failures=1)
    time.sleep(idle)
    traffic(3, 0.0)
    # (b) a slow request is repairing the link around the time a helper armed in the failed attempt would act
    ask(base_id + 3, "getPubKey", fault="read")
    ask(base_id + 4, "getPubKey", connect_failures=1)
    time.sleep(2.75)
    traffic(2, 0.1)
    m.device.exchange_delay = None
    return rec.take()


def run_sgx_idle(ctx, base_id, idle=11.5, clients=6):
    """The SGX manager (HSM2DongleSGX over the unpatched TCP transport) left alone for a while, then a burst of
    clients against a device that answers slowly: anything the dongle layer does on its own while idle (probes,
    keep-alives) is an exchange outside any request and may collide with the first request after the pause."""
    from sgx.hsm2dongle import HSM2DongleSGX
    from ledger.protocol import HSM2ProtocolLedger
    from comm.server import TCPServer
    from ..simdev import SimDevice, MODE_SIGNER
    from ..tcpdev import TcpDevice
    dev = SimDevice(platform="sgx", mode=MODE_SIGNER, seed="c12sgx")
    dev.sig_from_hash = lambda h: der_sig(hashlib.sha256(b"r" + h).digest(), hashlib.sha256(b"s" + h).digest())
    td = TcpDevice(dev)
    td.stall = lambda apdu: 0.25
    events, lock, tids = [], threading.Lock(), {}

    def tid():
        i = threading.get_ident()
        with lock:
            return tids.setdefault(i, len(tids) + 1)

    def emit(e):
        with lock:
            events.append(e)
    srv = None
    try:
        dongle = HSM2DongleSGX("127.0.0.1", td.port, False)
        proto = HSM2ProtocolLedger(None, dongle)
        orig_handle = proto.handle_request

        def handle_request(request):
            rid = request.get("_verif_id", 0) if isinstance(request, dict) else 0
            t = tid()
            emit({"k": "begin", "r": rid, "t": t, "m": 0})
            try:
                return orig_handle(request)
            finally:
                emit({"k": "end", "r": rid, "t": t, "m": 0})
        proto.handle_request = handle_request
        # device-side view of the exchanges: the thread that issued it is the one inside _send_command
        import ledgerblue.commTCP as commTCP
        orig_exchange = commTCP.DongleServer.exchange
        me = {"port": td.port}

        def exchange(self, apdu, timeout=20000):
            if getattr(self, "port", None) == me["port"]:
                emit({"k": "apdu", "r": 0, "t": tid(), "m": 0})
            return orig_exchange(self, apdu, timeout)
        commTCP.DongleServer.exchange = exchange
        srv = TCPServer("127.0.0.1", 0, proto)
        th = threading.Thread(target=lambda: srv.run(), daemon=True)
        th.start()
        for _ in range(60000):
            if srv.server is not None or not th.is_alive():
                break
            time.sleep(0.001)
        if srv.server is None:
            raise core.MachineryError("SGX manager over the TCP transport did not start")
        addr = srv.server.server_address
        with lock:
            del events[:]
        time.sleep(idle)
        allr = {}

        def client(i):
            rid = base_id + i
            try:
                s = socket.create_connection(addr, timeout=10)
                s.sendall(json.dumps(reqs_[i][0]).encode() + b"\n")
                reply = read_reply(s, 60)
            except OSError:
                reply = None
            emit({"k": "got", "r": rid, "t": 0, "m": reply_owner(rid, "sign_hash", reqs_[i][1], reply, dev, allr)})
        reqs_ = {}
        for i in range(clients):
            req, st = make_request(base_id + i, "sign_hash", random.Random("sgxidle:%s:%d" % (ctx.seed, i)))
            reqs_[i] = (req, st)
            allr[base_id + i] = ("sign_hash", st)
        ths = [threading.Thread(target=client, args=(i,)) for i in range(clients)]
        for t in ths:
            t.start()
            time.sleep(0.02)
        for t in ths:
            t.join(90)
        time.sleep(0.3)
        commTCP.DongleServer.exchange = orig_exchange
    finally:
        try:
            if srv is not None and srv.server is not None:
                srv.server.shutdown()
        except Exception:
            pass
        td.close()
    with lock:
        return list(events)


def run_tcp_stall(ctx, rng, base_id, timeout_s=2.0, stall_s=3.0, others=4):
    """The TCP transport unpatched (real ledgerblue commTCP against a simulated device on a loopback socket):
    one exchange takes longer than the dongle timeout while other clients queue up. Whatever the manager
    answers to the slow request, every later client must still get the reply to its own request (a stale
    answer left in the byte stream would shift every later reply by one)."""
    import ledger.hsm2dongle_tcp as ht
    import ledgerblue.commTCP as commTCP
    from ledger.hsm2dongle_tcp import HSM2DongleTCP
    from ledger.protocol import HSM2ProtocolLedger
    from comm.server import TCPServer
    from ..simdev import SimDevice, MODE_SIGNER
    from ..tcpdev import TcpDevice
    dev = SimDevice(mode=MODE_SIGNER, seed="c12tcp")
    dev.sig_from_hash = lambda h: der_sig(hashlib.sha256(b"r" + h).digest(), hashlib.sha256(b"s" + h).digest())
    td = TcpDevice(dev)
    events, lock, tids = [], threading.Lock(), {}

    def tid():
        i = threading.get_ident()
        with lock:
            return tids.setdefault(i, len(tids) + 1)

    def emit(e):
        with lock:
            events.append(e)
    saved = ht.getDongle
    srv = None
    try:
        dongle = HSM2DongleTCP("127.0.0.1", td.port, False)
        dongle.DONGLE_TIMEOUT = timeout_s      # only shortens what a transport that honours it would wait
        proto = HSM2ProtocolLedger(None, dongle)
        orig_handle = proto.handle_request

        def handle_request(request):
            rid = request.get("_verif_id", 0) if isinstance(request, dict) else 0
            t = tid()
            emit({"k": "begin", "r": rid, "t": t, "m": 0})
            try:
                return orig_handle(request)
            finally:
                emit({"k": "end", "r": rid, "t": t, "m": 0})
        proto.handle_request = handle_request
        orig_send = dongle._send_command

        def send_command(*a, **k):
            emit({"k": "apdu", "r": 0, "t": tid(), "m": 0})
            return orig_send(*a, **k)
        dongle._send_command = send_command
        srv = TCPServer("127.0.0.1", 0, proto)
        th = threading.Thread(target=lambda: srv.run(), daemon=True)
        th.start()
        for _ in range(60000):
            if srv.server is not None or not th.is_alive():
                break
            time.sleep(0.001)
        if srv.server is None:
            raise core.MachineryError("manager over the TCP transport did not start")
        addr = srv.server.server_address
        with lock:
            del events[:]       # the bring-up's exchanges precede the first request
        allr = {}
        state = {"stalled": False}

        def stall(apdu):
            # the first SIGN exchange after start-up is the slow one
            if len(apdu) > 1 and apdu[1] == 0x02 and not state["stalled"]:
                state["stalled"] = True
                return stall_s
            return 0
        td.stall = stall

        def client(i):
            rid = base_id + i
            req, st = make_request(rid, "sign_hash", random.Random("tcp:%s:%d" % (ctx.seed, i)))
            allr[rid] = ("sign_hash", st)
            try:
                s = socket.create_connection(addr, timeout=10)
                s.sendall(json.dumps(req).encode() + b"\n")
                reply = read_reply(s, 30)
            except OSError:
                reply = None
            emit({"k": "got", "r": rid, "t": 0, "m": reply_owner(rid, "sign_hash", st, reply, dev, allr)})
        for i in range(others + 1):
            req, st = make_request(base_id + i, "sign_hash", random.Random("tcp:%s:%d" % (ctx.seed, i)))
            allr[base_id + i] = ("sign_hash", st)
        ths = [threading.Thread(target=client, args=(i,)) for i in range(others + 1)]
        ths[0].start()
        time.sleep(0.3)
        for t in ths[1:]:
            t.start()
            time.sleep(0.05)
        for t in ths:
            t.join(60)
    finally:
        ht.getDongle = saved
        try:
            if srv is not None and srv.server is not None:
                srv.server.shutdown()
        except Exception:
            pass
        td.close()
    return events


def run_ui_heartbeat_mix(m, rec, rng, base_id, rounds=3, others=4):
    """uiHeartbeat (leaves the signer, talks to the UI, comes back: exits, link drops, reconnections) with other
    clients already queued behind it: whatever the command still has to do on the device belongs to its own
    request and is over before the next one starts."""
    from ..transport import install
    install(m.world)        # this scenario reconnects: getDongle must hand out this manager's device
    allr = {}
    m.device.exchange_delay = lambda: time.sleep(0.004)

    def client(rid, kind, req, st, delay):
        time.sleep(delay)
        try:
            s = socket.create_connection(m.addr, timeout=10)
            s.sendall(json.dumps(req).encode() + b"\n")
            reply = read_reply(s, 60)
        except OSError:
            reply = None
        rec.emit({"k": "got", "r": rid, "t": 0, "m": reply_owner(rid, kind, st, reply, m.device, allr)})
    for k in range(rounds):
        ths = []
        for i in range(others + 1):
            rid = base_id + 100 * k + i + 1
            kind = "uiHeartbeat" if i == 0 else rng.choice(["blockchainState", "signerHeartbeat", "sign_hash", "getPubKey"])
            req, st = make_request(rid, kind, rng)
            allr[rid] = (kind, st)
            ths.append(threading.Thread(target=client, args=(rid, kind, req, st, 0.0 if i == 0 else 0.01 + 0.004 * i)))
        for t in ths:
            t.start()
        for t in ths:
            t.join(90)
        time.sleep(0.15)      # anything still running on its own after the replies shows up before the next round
    m.device.exchange_delay = None
    return rec.take()


def run_ancestor_first(ctx, base_id):
    """A fresh manager whose first block command is an ancestor update, then clients whose advances end in partial
    success: what one client's command made the manager set up must not shape the reply to another's."""
    from ..simdev import FaithfulBlockPolicy
    from ..transport import install
    m = LiveManager(2)
    rec = Recorder(m)
    rng = random.Random("ancfirst:%d" % ctx.seed)
    allr = {}
    try:
        install(m.world)
        req, st = make_request(base_id + 1, "updateAncestorBlock", rng)
        allr[base_id + 1] = ("updateAncestorBlock", st)
        ev, data = m.request(json.dumps(req).encode())
        m.device.block_policy = FaithfulBlockPolicy(stop_after=(1, "partial"))

        def client(rid, kind, req, st):
            try:
                s = socket.create_connection(m.addr, timeout=10)
                s.sendall(json.dumps(req).encode() + b"\n")
                reply = read_reply(s, 60)
            except OSError:
                reply = None
            rec.emit({"k": "got", "r": rid, "t": 0, "m": reply_owner(rid, kind, st, reply, m.device, allr)})
        ths = []
        for i, kind in enumerate(["advanceBlockchain", "sign_hash", "advanceBlockchain", "blockchainState"]):
            rid = base_id + 10 + i
            rq, st = make_request(rid, kind, rng)
            allr[rid] = (kind, st)
            ths.append(threading.Thread(target=client, args=(rid, kind, rq, st)))
        for t in ths:
            t.start()
        for t in ths:
            t.join(60)
        return rec.take()
    finally:
        m.stop()


def run_shutdown_with_backlog(ctx, base_id, others=5):
    """A request ends in a manager shutdown (the device answers a status word outside every known range) while
    other clients are already connected and waiting. Whatever happens to them - the unchanged manager simply
    never answers - no two requests may be handled at once and nobody may get someone else's reply."""
    m = LiveManager(2)
    rec = Recorder(m)
    rng = random.Random("shutdown:%d" % ctx.seed)
    allr = {}
    try:
        install_world = m.world
        state = {"poison": None}

        def hook(w, apdu, idx):
            if state["poison"] == "armed" and len(apdu) > 1 and apdu[1] == 0x02:
                state["poison"] = "fired"
                return ("sw", 0x6F42)
            return None
        install_world.fault_hook = hook
        m.device.exchange_delay = lambda: time.sleep(0.02)

        def client(rid, kind, req, st, delay):
            time.sleep(delay)
            try:
                s = socket.create_connection(m.addr, timeout=10)
                s.sendall(json.dumps(req).encode() + b"\n")
                reply = read_reply(s, 15)
            except OSError:
                reply = None
            # an unanswered client of a manager that stopped, or an error reply (the poisoned request's), is not a
            # foreign reply: only successful replies are attributed
            if isinstance(reply, dict) and reply.get("errorcode") == 0:
                rec.emit({"k": "got", "r": rid, "t": 0, "m": reply_owner(rid, kind, st, reply, m.device, allr)})
        plan = [("blockchainState", 0.0)]                   # keeps the server busy while the others queue up
        plan.append(("poison", 0.05))
        for i in range(others):
            plan.append((rng.choice(["blockchainState", "signerHeartbeat", "sign_hash", "getPubKey"]), 0.08 + 0.01 * i))
        ths = []
        for i, (kind, delay) in enumerate(plan):
            rid = base_id + i + 1
            k = "sign_hash" if kind == "poison" else kind
            req, st = make_request(rid, k, rng)
            allr[rid] = (k, st)
            ths.append(threading.Thread(target=client, args=(rid, k, req, st, delay)))

        orig = m.proto.handle_request

        def arm(request):
            # the poisoned request is the second one the manager handles
            if isinstance(request, dict) and request.get("_verif_id") == base_id + 2:
                state["poison"] = "armed"
            return orig(request)
        m.proto.handle_request = arm
        for t in ths:
            t.start()
        for t in ths:
            t.join(40)
        time.sleep(0.3)
        m.device.exchange_delay = None
        return rec.take(), state["poison"] == "fired", m.shutdown_calls
    finally:
        m.stop()


def run(ctx):
    res = core.Result()
    res.assumptions = [
        "real TCPServer.run over loopback sockets; clients are threads of the harness process",
        "global order of events = one harness-side lock around begin/apdu/end/got (no wall clock)",
        "ownership of an exchange = the request whose handle_request runs on the issuing thread",
        "replies are made traceable to requests by the device simulator (signature derived from the "
        "requested hash, heartbeat message containing the UD value)",
    ]
    r = tlc.check("Conc", "MC_Conc.cfg", workers=4, coverage=True)
    if r.violated:
        raise core.MachineryError("Conc model (Handlers = 1) violates %s" % r.violated)
    res.add_tlc(r, "MC_Conc N=3 K=3 Handlers=1, safety + AllServed")
    rn = tlc.run("Conc", "Neg_Conc.cfg", workers=4)
    if "NoViolation" not in rn.violated:
        raise core.MachineryError("negative configuration (2 handlers) does not violate Contiguous")
    res.coverage["negative_config_violates"] = True
    scheds, rg = tlc.generate("GenConc", "Gen_Conc.cfg")
    res.add_tlc(rg, "Gen_Conc client-side schedules")
    uniq = sorted({json.dumps(s) for s in scheds})
    res.coverage["schedules_generated"] = len(uniq)
    m = LiveManager(2)
    rec = Recorder(m)
    traces, info = [], {}
    # a second manager serves the slow-request scenario in the background while the others run
    m_slow = LiveManager(2)
    rec_slow = Recorder(m_slow)
    slow_out = {}

    def slow_job():
        try:
            slow_out["ev"] = run_slow(m_slow, rec_slow, random.Random("slow:%d" % ctx.seed), 900000)
        except Exception as e:   # noqa
            slow_out["err"] = repr(e)
    slow_thread = threading.Thread(target=slow_job)
    slow_thread.start()
    idle_out = {}

    def idle_job():
        try:
            idle_out["ev"] = run_sgx_idle(ctx, 960000)
        except Exception as e:   # noqa
            idle_out["err"] = repr(e)
    idle_thread = threading.Thread(target=idle_job)
    idle_thread.start()
    try:
        base = 1000
        for si, sj in enumerate(uniq):
            sched = [(a, b) for a, b in json.loads(sj)]
            for rep in range(ctx.pick(1, 3)):
                kinds = [ctx.rng.choice(KINDS) for _ in range(3)]
                ev = run_schedule(m, rec, sched, kinds, ctx.rng, base)
                base += 10
                tid = len(traces) + 1
                traces.append({"id": tid, "ev": ev})
                info[tid] = {"schedule": sched, "kinds": kinds}
        n_runs = ctx.pick(30, 300)
        for i in range(n_runs):
            nc = ctx.rng.choice([2, 3, 4, 4, 8, 16]) if not ctx.quick else ctx.rng.choice([2, 3, 4, 4, 8])
            nr = ctx.rng.randint(2, 5)
            ev, errors = run_threads(m, rec, nc, nr, ctx.rng, base)
            base += 2000
            if not m.alive():
                m.stop()
                m = LiveManager(2)
                rec = Recorder(m)
            tid = len(traces) + 1
            traces.append({"id": tid, "ev": ev})
            info[tid] = {"threads": nc, "requests_each": nr}
        res.coverage["threaded_runs"] = n_runs
        slow_thread.join(200)
        if "ev" not in slow_out:
            raise core.MachineryError("slow-request scenario failed: %s" % slow_out.get("err", "timeout"))
        tid = len(traces) + 1
        traces.append({"id": tid, "ev": slow_out["ev"]})
        info[tid] = {"scenario": "one request of 9 exchanges x 1.25 s with 3 clients queued behind it"}
        res.coverage["slow_request_scenarios"] = 1
        tid = len(traces) + 1
        # alone (getDongle is patched process-wide, and this scenario reconnects): the other managers are idle now
        traces.append({"id": tid, "ev": run_reconnect_probe(m_slow, rec_slow, random.Random("probe:%d" % ctx.seed), 950000)})
        info[tid] = {"scenario": "link failure, failed reconnection, then (a) 3.4 s idle and (b) a slow repairing "
                                 "request 2.75 s later"}
        res.coverage["reconnection_scenarios"] = 2
        tid = len(traces) + 1
        traces.append({"id": tid, "ev": run_tcp_stall(ctx, ctx.rng, 970000)})
        info[tid] = {"scenario": "unpatched TCP transport; one exchange slower than the dongle timeout, 4 clients behind it"}
        res.coverage["tcp_transport_stall_scenarios"] = 1
        idle_thread.join(300)
        if "ev" not in idle_out:
            raise core.MachineryError("idle SGX manager scenario failed: %s" % idle_out.get("err", "timeout"))
        tid = len(traces) + 1
        traces.append({"id": tid, "ev": idle_out["ev"]})
        info[tid] = {"scenario": "SGX manager over the unpatched TCP transport, idle for 11.5 s, then 6 clients at once"}
        res.coverage["idle_sgx_manager_scenarios"] = 1
        tid = len(traces) + 1
        traces.append({"id": tid, "ev": run_ui_heartbeat_mix(m, rec, random.Random("uihb:%d" % ctx.seed), 990000)})
        info[tid] = {"scenario": "uiHeartbeat with 4 clients queued behind it, 3 rounds"}
        res.coverage["ui_heartbeat_mix_rounds"] = 3
        # the manager bound to every interface (--bind 0.0.0.0, as the TCPSigner bundle starts it), clients arriving
        # over both address families
        m_any = LiveManager(2, host="0.0.0.0")
        try:
            rec_any = Recorder(m_any)
            for j in range(ctx.pick(3, 20)):
                ev, _ = run_threads(m_any, rec_any, 6, 3, random.Random("any:%d:%d" % (ctx.seed, j)), 1200000 + j * 2000)
                tid = len(traces) + 1
                traces.append({"id": tid, "ev": ev})
                info[tid] = {"scenario": "manager bound to 0.0.0.0, 6 clients x 3 requests over ::1 and 127.0.0.1"}
        finally:
            m_any.stop()
        res.coverage["bind_any_runs"] = ctx.pick(3, 20)
        tid = len(traces) + 1
        traces.append({"id": tid, "ev": run_ancestor_first(ctx, 995000)})
        info[tid] = {"scenario": "fresh manager: ancestor update first, then advances ending in partial success"}
        ev_sd, fired, nshut = run_shutdown_with_backlog(ctx, 980000)
        if not fired:
            raise core.MachineryError("shutdown scenario: the poisoned exchange was never reached")
        tid = len(traces) + 1
        traces.append({"id": tid, "ev": ev_sd})
        info[tid] = {"scenario": "a request ends in a manager shutdown with 5 clients connected and waiting",
                     "shutdown_calls": nshut}
        res.coverage["shutdown_with_backlog_scenarios"] = 1
    finally:
        m.stop()
        slow_thread.join(200)
        m_slow.stop()
    verdicts, stats = tlc.validate("TraceConc", "Trace_Conc.cfg", traces, shards=12)
    res.checker_cmds.append("tlc -workers 1 -config Trace_Conc.cfg TraceConc (x%d shards)" % stats["jvms"])
    accepted = 0
    n_apdu = sum(1 for t in traces for e in t["ev"] if e["k"] == "apdu")
    for t in traces:
        v = verdicts[t["id"]]
        if v["ok"]:
            accepted += 1
            continue
        res.violation("%s" % v["clause"], "%s at event %s in run %s" % (v["clause"], v["at"], info[t["id"]]),
                      {"info": info[t["id"]], "events": t["ev"][:400], "verdict": v})
    res.add_validation(stats, accepted)
    res.coverage["device_exchanges_observed"] = n_apdu
    res.coverage["schedules_replayed"] = len(uniq)
    res.sample({"run": info[1], "events": [(e["k"], e["r"], e["t"], e["m"]) for e in traces[0]["ev"]]})
    return res


def replay(ctx, path):
    with open(path) as f:
        d = json.load(f)["replay"]
    verdicts, _ = tlc.validate("TraceConc", "Trace_Conc.cfg", [{"id": 1, "ev": d["events"]}])
    print(json.dumps({"info": d["info"], "verdict": verdicts[1]}, indent=1))
    print("note: schedules are nondeterministic; this re-validates the recorded log")
    return 0 if verdicts[1]["ok"] else 1
