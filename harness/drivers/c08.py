"""C08 — the Ledger and SGX verify_attestation commands vouch only for the operator's keys and a
well-formed message.

TLC: Verify (Env: a genuine (attestation file, public-keys file, root of trust) triple + <= MaxDev deviations;
Sys: the two do_verify_attestation procedures, one action per raise site, working on the bytes of the signed
messages) exhaustively against `Return <=> OkCondition` and `printed = fields of the signed messages at the
documented offsets` (VerifyProps); GenVerify prints every abstract input; each is concretised into REAL files
(certificates from certv1/certv2 over fresh keys, public-keys JSON, root key / PEM / URL), the real command is
run with stdout captured, and (abstract input, outcome, printed bytes, signed bytes) is judged by TLC
(TraceVerify) — including the path order of the public keys, which TLC recomputes from the path names."""
import collections
import json
import multiprocessing
import os

from .. import core, tlc, verifyops as vo

PROCS = int(os.environ.get("VERIF_PROCS", "4"))
SITES_LEDGER = {"NoCert", "NoPub", "RootHex", "RootParse", "LoadPubkeys", "EmptyKeys", "NoBtcKey", "LoadCert",
                "NoUi", "UiInvalid", "UiHeader", "UiLength", "UiKey", "NoSigner", "SignerInvalid", "SignerHeader",
                "LegacyLong", "PowLength", "HashMismatch", "Return"}
SITES_SGX = {"NoCert", "NoPub", "RootLoad", "RootSelf", "Pubkeys", "LoadCert", "TargetValue", "NoQuote", "QuoteInvalid",
             "PowHeader", "PowLength", "HashMismatch", "Return"}


# ------------------------------------------------------------------------------------------------
# labelling (signatures, classes) — never a verdict
# ------------------------------------------------------------------------------------------------
def classes(plan):
    f = plan["file"]
    ents = f["ents"]
    if f["kind"] != "ok":
        fc, rel, uk = "malformed", "n/a", "n/a"
    elif not ents:
        fc, rel, uk = "empty", "n/a", "n/a"
    else:
        fc = "keys"
        by = dict((n, k) for n, k in ents)
        sorted_keys = [by[n] for n in vo.path_order(list(by))]
        file_keys = [k for _n, k in ents]
        pre = plan["mh"]["pre"]
        rel = "path-order" if pre == sorted_keys else ("file-order" if pre == file_keys else "other")
        if file_keys != sorted_keys:
            fc = "keys-unsorted"
        uk = "nobtc" if vo.BTC_PATH not in by else ("btc" if by[vo.BTC_PATH] == plan["ui"]["key"] else "other")
    d = {"plat": plan["plat"], "args": plan["args"], "root": plan["root"], "certfile": plan["certfile"],
         "file": fc, "mh": "%s/%s" % (plan["mh"]["enc"], rel),
         "pow": "%s/%s/%s/%s" % (plan["pow"]["exists"], plan["pow"]["chain"], plan["pow"]["hdr"], shape(plan["pow"]))}
    if plan["plat"] == "ledger":
        d["ui"] = "%s/%s/%s/%s/%s" % (plan["ui"]["exists"], plan["ui"]["chain"], plan["ui"]["hdr"], uk,
                                      shape(plan["ui"]))
    tl = target_list_class(plan)
    if tl != "documented":
        d["targets"] = tl
    if plan.get("brk"):
        d["brk"] = "+".join(plan["brk"])
    if plan.get("embed", "none") != "none":
        d["embed"] = "%s-as-%s" % (plan["embed"], plan["ename"])
    if plan.get("plen", 0) > 5:
        d["plen" if plan["plat"] == "sgx" else "extra_elements"] = plan["plen"]
    return d


def target_list_class(plan):
    """documented | required-only (reordered / some missing) | the list itself when anything else is listed"""
    tl = list(plan.get("targets", []))
    req = ["ui", "signer"] if plan["plat"] == "ledger" else ["quote"]
    if tl == req:
        return "documented"
    if all(t in req for t in tl) and len(set(tl)) == len(tl):
        return "documented" if len(tl) < len(req) else "reordered"     # a missing one shows as exists=f
    return ",".join(tl)


def n_variants(inp):
    """How many listed alternatives the classes that deviate in this input have (harness/verifyops lists)."""
    n = 6                                              # spelling of the keys, how the root is handed over
    led = inp["plat"] == "ledger"
    if inp["pow"]["hdr"] == "foreign":
        n = max(n, 19 if led else 11)
    if led and inp["ui"]["hdr"] == "foreign":
        n = max(n, 11)
    if inp["brk"]:
        n = max(n, 5)                                  # kinds of corruption of one element
    if inp["root"] != "right" or inp["certfile"] != "ok":
        n = max(n, 8)
    if inp["file"]["kind"] != "ok":
        n = max(n, 10)
    if inp["pow"]["at"] != "none" or inp["pow"]["tail"] != "any" or inp["pow"]["hdr"] in ("sep", "sepleg") or \
            (led and (inp["ui"]["at"] != "none" or inp["ui"]["tail"] != "any" or inp["ui"]["hdr"] == "sep")):
        n = 2                                          # the member itself is the model's explicit choice
    return n


def shape(t):
    """exact | exact~<tail member> | short | long@suffix:<member> | long@prefix:<member>"""
    at = t.get("at", "none")
    if at in ("suffix", "prefix"):
        return "long@%s:%s" % (at, t["m"])
    if at == "cut":
        return "short"
    return "exact" + ("" if t.get("tail", "any") == "any" else "~" + t["tail"])


def signature(clause, plan, outcome):
    if clause == "ReturnIffOk" and outcome == "return":
        if plan["plat"] == "ledger" and plan["ui"].get("at") in ("cut", "suffix"):
            return "ReturnIffOk|ledger|accepts a UI message that is not exactly the documented length (%s)" % \
                plan["ui"]["at"]
        if plan["plat"] == "ledger" and plan["ui"]["hdr"] == "sep":
            return "ReturnIffOk|ledger|accepts a UI header with a foreign version separator"
        if plan["pow"]["hdr"] == "sepleg":
            return "ReturnIffOk|ledger|accepts a legacy signer header with a foreign version separator"
        if plan["pow"]["hdr"] == "sep":
            return "ReturnIffOk|%s|accepts a powHSM header with a foreign version separator" % plan["plat"]
    c = classes(plan)
    return "%s|outcome=%s|%s" % (clause, outcome, " ".join("%s=%s" % (k, c[k]) for k in sorted(c)))


# ------------------------------------------------------------------------------------------------
# one execution
# ------------------------------------------------------------------------------------------------
_SCRATCH = None


def run_plan(task):
    tid, plan, scratch = task
    real = vo.realise(plan, scratch, "t%d_%d" % (os.getpid(), tid))
    try:
        outcome, kind, text, out = vo.execute(real)
    finally:
        vo.cleanup(real)
    printed = vo.parse_output(out)
    tr = vo.trace_of(tid, real, outcome, printed)
    meta = {"id": tid, "plan": real.plan, "outcome": outcome, "error_kind": kind, "error": text[:300],
            "site": vo.site_of(outcome, kind, text), "sub": real.sub,
            "listed": vo.pubkey_lines(out) if outcome == "return" else []}
    return tr, meta


def run_all(ctx, plans, first_id):
    tasks = [(first_id + i, p, ctx.scratch) for i, p in enumerate(plans)]
    procs = ctx.pick(PROCS, max(PROCS, 10))
    if procs <= 1 or len(tasks) < 64:
        return [run_plan(t) for t in tasks]
    with multiprocessing.get_context("fork").Pool(procs) as pool:
        return pool.map(run_plan, tasks, chunksize=16)


def judge(traces, shards):
    verdicts, agg = {}, {"states": 0, "generated": 0, "wall": 0.0, "jvms": 0}
    step = 6000
    for i in range(0, len(traces), step):
        v, st = tlc.validate("TraceVerify", "Trace_Verify.cfg", traces[i:i + step], shards=shards)
        verdicts.update(v)
        for k in ("states", "generated", "jvms"):
            agg[k] += st[k]
        agg["wall"] += st["wall"]
    return verdicts, agg


def make_canaries(runs, first_id):
    """Copies of recorded executions with one observation falsified; TraceVerify must reject each."""
    import copy
    out = []
    rets = [tr for tr, m in runs if m["outcome"] == "return"][:3]
    errs = [tr for tr, m in runs if m["outcome"] == "error"][:3]
    for tr in rets:
        for f in [k for k, v in tr["printed"].items() if v][:12]:
            c = copy.deepcopy(tr)
            c["printed"][f][-1] ^= 1
            out.append((c, "PrintedSigned"))
        c = copy.deepcopy(tr)
        c["outcome"] = "error"
        out.append((c, "ReturnIffOk"))
        c = copy.deepcopy(tr)
        c["inp"]["mh"]["enc"] = "comp"
        out.append((c, "ReturnIffOk"))
        if len(tr["inp"]["file"]["ents"]) > 1:
            c = copy.deepcopy(tr)                      # the hash was taken in another order than path order
            c["inp"]["mh"]["pre"] = c["inp"]["mh"]["pre"][1:] + c["inp"]["mh"]["pre"][:1]
            if c["inp"]["mh"]["pre"] != tr["inp"]["mh"]["pre"]:
                out.append((c, "ReturnIffOk"))
    for tr in errs:
        c = copy.deepcopy(tr)
        c["outcome"] = "return"
        out.append((c, "ReturnIffOk"))
    for i, (c, _w) in enumerate(out):
        c["id"] = first_id + i
    return out


MODEL_SITE = {"RootHex": "Root", "RootParse": "Root", "RootLoad": "Root", "RootSelf": "Root",
              "Pubkeys": "Keys", "LoadPubkeys": "Keys", "EmptyKeys": "Keys"}


def drifted(plat, model_site, real_site):
    """Does the error site named by the code differ from the model's (not a property of C08)?"""
    if model_site == "TargetValue":
        return real_site != "exc:NotImplementedError"
    if real_site.startswith("exc:"):
        return True
    return MODEL_SITE.get(model_site, model_site) != MODEL_SITE.get(real_site, real_site)


def run(ctx):
    res = core.Result()
    res.assumptions = [
        "perfect cryptography (DESIGN 3.3): SHA-256 of two different (encoding, key sequence) pairs differs; "
        "a chain with one corrupted link / another root does not verify",
        "certificate chains come from harness/certv1.py and certv2.py (C06/C07 check the chain semantics "
        "itself); here a target's chain is either intact or carries one real corruption",
        "layouts, header texts, the UI derivation path and the definition of the keys hash are taken from "
        "docs/attestation.md and reproduce the samples printed there (self-test); the legacy signer message "
        "(`HSM:SIGNER:X.Y` + 32-byte keys hash) is not in the document and is taken from the property text",
        "expected headers are generated with released version numbers only (UI 2.0..5.4, legacy signer "
        "2.0..5.3, powHSM 5.4); foreign headers differ from them in the text, never only in the digits",
        "an SGX attestation file that lists a VALID element other than the quote as a target makes the command "
        "end with an internal error (NotImplementedError); such inputs may be refused (verdict open in that "
        "direction only, spec/VerifyProps.tla SgxExtraTargetOpen); reported to the coordinator",
        "files at scale: SGX certification paths of 255..400 elements (fresh X.509 chain per file, it takes "
        "60 ms) and Ledger files with 250 / 300 unrelated well-formed elements ahead of the genuine ones, "
        "genuine and with one forged element at the top / middle / bottom X.509, the attestation key or the "
        "quote; combined only with deviations that concern the chain (root, targets list, forged elements)",
        "no network: `requests` inside admin.attestation_utils is replaced by a stub serving the plan's URLs "
        "(also the default Intel URL) and refusing everything else; stdout is captured by redirection",
        "inside a class (keys, message contents, how many bytes are cut / added, which link is corrupted, "
        "how a file is malformed) members are seeded samples",
        "SGX keys and X.509 serial numbers come from the OS random source (verdicts do not depend on them)",
    ]
    err = vo.selftest()
    if err:
        raise core.MachineryError("oracle self-test: %s" % err)
    # 1. design check
    import concurrent.futures as cf
    mc_cfg = ctx.pick("MC_Verify.cfg", "MC3_Verify.cfg")
    gen_cfgs = ctx.pick(["Gen_Verify.cfg"], ["Gen2x_Verify.cfg"])
    ex = cf.ThreadPoolExecutor(max_workers=5)
    f_gen = [ex.submit(tlc.generate, "GenVerify", g) for g in gen_cfgs]
    f_neg = ex.submit(tlc.run, "Verify", "Neg_Verify.cfg", workers=1)
    f_neg2 = ex.submit(tlc.run, "Verify", "Neg2_Verify.cfg", workers=1)
    # (the exhaustive run goes on while the behaviours are replayed; its result is collected before judging)
    f_mc = ex.submit(tlc.check, "Verify", mc_cfg, workers=ctx.pick(4, 6))
    rn, rn2 = f_neg.result(), f_neg2.result()
    if "NeverPrints" not in rn.violated:
        raise core.MachineryError("vacuity guard: the model never returns with printed values")
    # the header expressions with an unescaped '.' (defect repaired in /repo) must break the invariant
    if "ReturnIffOk" not in rn2.violated:
        raise core.MachineryError("negative configuration: a wildcard version separator is not caught by "
                                  "ReturnIffOk in the model")
    res.coverage["negative_configs"] = {"Neg_Verify": "NeverPrints violated (as required)",
                                        "Neg2_Verify": "ReturnIffOk violated by wildcard separator (as required)"}
    # 2. every abstract input of the model
    behaviours, seen_inp = [], set()
    for g, f in zip(gen_cfgs, f_gen):
        bs, rg = f.result()
        res.add_tlc(rg, "GenVerify %s" % g)
        for b in bs:
            key = json.dumps(b["inp"], sort_keys=True)
            if key not in seen_inp:
                seen_inp.add(key)
                behaviours.append(b)
    del seen_inp
    res.coverage["behaviours_generated"] = len(behaviours)
    reached = {"ledger": set(), "sgx": set()}
    for b in behaviours:
        reached[b["inp"]["plat"]].add(b["site"])
    never = sorted("ledger:" + s for s in SITES_LEDGER - reached["ledger"]) + \
        sorted("sgx:" + s for s in SITES_SGX - reached["sgx"])
    if never:
        raise core.MachineryError("vacuity: raise sites never reached by the model: %s" % never)
    res.coverage["uncovered_actions"] = never
    res.coverage["model_sites_reached"] = {p: len(s) for p, s in reached.items()}
    # 3. replay on the real commands
    order = list(range(len(behaviours)))
    ctx.rng.shuffle(order)
    # boundary first: an input that deviates from a genuine triple in at most one dimension is replayed once per listed alternative of every class (which foreign header, which
    # link is corrupted and how, how a file / the root is malformed, how many bytes are cut or added ...)
    plans, origin, skipped = [], [], 0
    full_upto = 1
    for bi in order:
        b = behaviours[bi]
        i = b["inp"]
        crossed = (i["targets"] not in (["ui", "signer"], ["quote"]) or i["plen"] > 5 or i["embed"] != "none") \
            and (i["brk"] or i["root"] == "wrong")
        if b["ndev"] <= full_upto or (crossed and b["ndev"] == 2):
            # (a targets list crossed with where the chain is broken: every kind of corruption of that element)
            nvar = n_variants(b["inp"]) if b["ndev"] <= full_upto else 5
            for k in range(nvar):
                p = vo.plan_from_behaviour(b, ctx.rng)
                p["variant"] = k
                plans.append(p)
                origin.append(bi)
        elif b["ndev"] >= ctx.pick(2, 3) and ctx.rng.random() < ctx.pick(0.45, 0.4):
            skipped += 1                   # a seeded part of the inputs with the most deviations is left out
        elif b["ndev"] == 2 and not ctx.quick:
            k0 = ctx.rng.randrange(19)     # thorough: two-deviation inputs twice, with different alternatives
            for k in (k0, k0 + 7):
                p = vo.plan_from_behaviour(b, ctx.rng)
                p["variant"] = k
                plans.append(p)
                origin.append(bi)
        else:
            plans.append(vo.plan_from_behaviour(b, ctx.rng))
            origin.append(bi)
    runs = run_all(ctx, plans, 1)
    res.coverage["replays_with_every_listed_alternative"] = sum(1 for p in plans if "variant" in p)
    drift = 0
    drift_examples = []
    for bi, (tr, meta) in zip(origin, runs):
        b = behaviours[bi]
        meta["src"] = "model-behaviour"
        if b["outcome"] != meta["outcome"] or drifted(b["inp"]["plat"], b["site"], meta["site"]):
            drift += 1
            if len(drift_examples) < 5:
                drift_examples.append({"model": [b["outcome"], b["site"]], "code": [meta["outcome"], meta["site"]],
                                       "classes": classes(meta["plan"])})
    res.coverage["behaviours_replayed"] = len(order) - skipped
    res.coverage["behaviours_left_to_other_seeds"] = skipped
    res.coverage["replays"] = len(plans)
    res.coverage["model_drift"] = drift
    res.coverage["model_drift_examples"] = drift_examples
    # 4. binding B: random triples
    n_rand = ctx.pick(1500, 30000)
    rplans = [vo.random_plan(ctx.rng) for _ in range(n_rand)]
    rruns = run_all(ctx, rplans, len(plans) + 1)
    for _tr, meta in rruns:
        meta["src"] = "random"
    res.coverage["random_triples"] = n_rand
    runs += rruns
    r = f_mc.result()
    ex.shutdown()
    if r.violated:
        raise core.MachineryError("Verify model violates %s — reproduce on the code before reporting" % r.violated)
    res.add_tlc(r, "%s exhaustive" % mc_cfg)
    # 5. TLC judges every execution (+ corrupted copies of accepted ones, which it must reject)
    traces = [tr for tr, _m in runs]
    verdicts, stats = judge(traces, ctx.pick(PROCS, 12))
    canaries = make_canaries([x for x in runs if verdicts[x[0]["id"]]["ok"]], len(traces) + 1)
    cverdicts, _cst = tlc.validate("TraceVerify", "Trace_Verify.cfg", [c for c, _w in canaries], shards=1)
    for c, want in canaries:
        got = cverdicts[c["id"]]
        if got["ok"] or got["clause"] != want:
            raise core.MachineryError("trace specification accepted a corrupted trace: expected %s, got %s" % (want, got))
    res.coverage["corrupted_traces_rejected"] = len(canaries)
    res.checker_cmds.append("tlc -workers 1 -config Trace_Verify.cfg TraceVerify (x%d JVMs)" % stats["jvms"])
    accepted = 0
    seen = set()
    outcomes = collections.Counter()
    sites = collections.Counter()
    for tr, meta in runs:
        v = verdicts[tr["id"]]
        c = classes(meta["plan"])
        seen.add(tuple(sorted(c.items())))
        outcomes[(meta["plan"]["plat"], meta["outcome"])] += 1
        sites["%s:%s" % (meta["plan"]["plat"], meta["site"])] += 1
        if v["ok"]:
            accepted += 1
            continue
        if v["clause"] in ("Malformed", "Stuck"):
            raise core.MachineryError("trace %d is not well-formed for TraceVerify (%s): %s" % (
                tr["id"], v["clause"], json.dumps({"plan": meta["plan"], "sub": meta["sub"]})[:1500]))
        wrong = ""
        if v["clause"] == "PrintedSigned":
            wrong = " (%d printed value(s) differ from the signed message)" % v.get("at", 0)
        res.violation(signature(v["clause"], meta["plan"], meta["outcome"]),
                      "%s verify_attestation violates %s%s: outcome %s%s for %s" % (
                          meta["plan"]["plat"], v["clause"], wrong, meta["outcome"],
                          (" [%s: %s]" % (meta["error_kind"], meta["error"][:120])) if meta["error_kind"] else "",
                          json.dumps(classes(meta["plan"]), sort_keys=True)),
                      {"plan": meta["plan"], "outcome": meta["outcome"], "error": meta["error"],
                       "sub": meta["sub"], "verdict": v, "printed": {k: bytes(x).hex() for k, x in tr["printed"].items()}})
    res.add_validation(stats, accepted)
    res.coverage["distinct_abstract_classes_hit"] = len(seen)
    res.coverage["outcomes"] = {"%s:%s" % k: n for k, n in sorted(outcomes.items())}
    longs = [m for _t, m in runs if m["plan"]["plen"] > 5]
    res.coverage["files_at_scale"] = {
        "replayed": len(longs), "returned": sum(1 for m in longs if m["outcome"] == "return"),
        "sgx_path_lengths": sorted({m["plan"]["plen"] for m in longs if m["plan"]["plat"] == "sgx"})[-8:],
        "ledger_extra_elements": sorted({m["plan"]["plen"] for m in longs if m["plan"]["plat"] == "ledger"})[-4:]}
    res.coverage["open_verdicts_sgx_valid_extra_target"] = sum(
        1 for _t, m in runs if m["plan"]["plat"] == "sgx" and m["plan"]["root"] == "right" and any(
            r != "quote" and not (vo.SGX_PATH[r] & set(m["plan"]["brk"])) for r in m["plan"]["targets"]))
    res.coverage["code_sites_hit"] = dict(sorted(sites.items()))
    rets = [m for _t, m in runs if m["outcome"] == "return"]
    if not rets or len(rets) == len(runs):
        raise core.MachineryError("vacuity: the commands %s" % ("never returned" if not rets else "never failed"))
    for tr, meta in (runs[:2] + [x for x in runs if x[1]["outcome"] == "return"][:2] + runs[-2:]):
        res.sample({"classes": classes(meta["plan"]), "source": meta["src"], "outcome": meta["outcome"],
                    "site": meta["site"], "sub": meta["sub"],
                    "printed": {k: bytes(x).hex() for k, x in tr["printed"].items() if x}})
    return res


def replay(ctx, path):
    with open(path) as f:
        data = json.load(f)
    plan = data["replay"]["plan"]
    err = vo.selftest()
    if err:
        raise core.MachineryError(err)
    tr, meta = run_plan((1, plan, ctx.scratch))
    verdicts, _ = tlc.validate("TraceVerify", "Trace_Verify.cfg", [tr])
    print(json.dumps({"classes": classes(plan), "plan": plan, "sub": meta["sub"], "outcome": meta["outcome"],
                      "error": [meta["error_kind"], meta["error"]], "site": meta["site"],
                      "printed": {k: bytes(x).hex() for k, x in tr["printed"].items() if x},
                      "verdict": verdicts[1]}, indent=1, default=str))
    return 0 if verdicts[1]["ok"] else 1
