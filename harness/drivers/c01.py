"""C01 — signing relays to the device exactly what the client asked to have signed.
TLC: SignExchange (host chunk sender vs arbitrary device chunk requester, exhaustive) ; every device
script TLC generates replayed on the real stack with byte-exact part lengths ; random structured
requests x random device policies ; TraceSignExchange judges the bytes the device reassembled."""
import json
import random

from .. import core, enc, reqs, signx, tlc
from ..simdev import ScriptedPolicy, FaithfulSignPolicy, PATHS, AUTH_PATHS

LENS = {"btc": 3, "rcpt": 2, "mp": 2}          # must match Gen_SignAuth.cfg
UNIT_CHOICES = [{"btc": 37, "rcpt": 1, "mp": 2}, {"btc": 20, "rcpt": 37, "mp": 37},
                {"btc": 85, "rcpt": 100, "mp": 100}, {"btc": 127, "rcpt": 127, "mp": 127}]


def random_request(rng, version):
    if version == 1:
        return reqs.make("sign_v1", rng, 1)
    k = rng.random()
    if k < 0.25:
        return reqs.make("sign_hash", rng)
    kind = "sign_legacy" if k < 0.65 else "sign_segwit"
    req, st = reqs.make(kind, rng)
    # boundary values the property names
    st["input"] = rng.choice([0, 1, 2 ** 32 - 1, rng.getrandbits(32), st["input"]])
    req["message"]["input"] = st["input"]
    if kind == "sign_segwit" and rng.random() < 0.5:
        st["ov"] = rng.choice([1, 2 ** 64 - 1, rng.getrandbits(64) or 1])
        req["message"]["outpointValue"] = st["ov"]
    r = rng.random()
    if r < 0.1:
        st["proof"] = [bytes(rng.getrandbits(8) for _ in range(rng.choice([1, 255, 32]))) for _ in range(255)]
    elif r < 0.2:
        st["proof"] = [bytes(rng.getrandbits(8) for _ in range(255)) for _ in range(rng.randint(1, 4))]
    req["auth"]["receipt_merkle_proof"] = [n.hex() for n in st["proof"]]
    if rng.random() < 0.15:
        st["tx"] = enc.random_tx(rng, n_in=rng.randint(1, 8), n_out=rng.randint(0, 6), big=True)
        req["message"]["tx"] = enc.tx_bytes(st["tx"]).hex()
    return req, st


def run(ctx):
    res = core.Result()
    res.assumptions = [
        "bitcoin.core stand-in decodes / re-encodes the transaction on the way in (DESIGN.md 3.4)",
        "expected bytes come from the harness's own encoders applied to the structure the request was "
        "generated from; r, s from the harness's own DER split of the device's answer",
        "device simulator reassembles what it is sent; its chunk requests are scripted by TLC or random",
    ]
    for cfg in ("MC_SignAuth.cfg", "MC_SignUnauth.cfg"):
        r = tlc.check("SignExchange", cfg, workers=8, coverage=True)
        if r.violated:
            raise core.MachineryError("SignExchange model violates %s" % r.violated)
        res.add_tlc(r, cfg)
    rn = tlc.run("SignExchange", "Neg_SignAuth.cfg", workers=4)
    if "NeverOk" not in rn.violated:
        raise core.MachineryError("vacuity guard: the model never signs successfully")
    scripts, rg = tlc.generate("GenSignExchange", "Gen_SignAuth.cfg")
    res.add_tlc(rg, "Gen_SignAuth device scripts")
    uscripts, rg2 = tlc.generate("GenSignExchange", "Gen_SignUnauth.cfg")
    res.add_tlc(rg2, "Gen_SignUnauth device scripts")
    res.coverage["behaviours_generated"] = len(scripts) + len(uscripts)
    bench = signx.Bench(2)
    bench1 = signx.Bench(1)
    traces, info = [], {}
    drift = 0

    def record(t, meta, desc):
        t["id"] = len(traces) + 1
        traces.append(t)
        info[t["id"]] = dict(desc, **meta)

    order = list(range(len(scripts)))
    ctx.rng.shuffle(order)
    order = order[:ctx.pick(900, len(order))]
    reps = ctx.pick(1, 3)
    for si in order:
        sc = scripts[si]
        for rep in range(reps):
            units = ctx.rng.choice(UNIT_CHOICES)
            built = None
            for _ in range(5):
                built = signx.build_exact(ctx.rng, LENS, units, segwit=ctx.rng.random() < 0.5)
                if built:
                    break
            if not built:
                continue
            req, st = built
            pol = ScriptedPolicy(signx.policy_from_script(sc["script"], units, ctx.rng))
            t, meta = bench.run(req, st, pol, ctx.rng, coop=(sc["res"] == "ok"))
            if (sc["res"] == "ok") != t["ok"]:
                drift += 1
            record(t, meta, {"src": "model", "script": sc["script"], "units": units, "mode": st["mode"]})
    for sc in uscripts:
        for v, b in ((2, bench), (1, bench1)):
            for rep in range(3):
                req, st = reqs.make("sign_hash" if v == 2 else "sign_v1", ctx.rng, 5 if v == 2 else 1)
                pol = ScriptedPolicy(signx.policy_from_script(sc["script"], {}, ctx.rng))
                t, meta = b.run(req, st, pol, ctx.rng, coop=(sc["res"] == "ok"))
                if (sc["res"] == "ok") != t["ok"]:
                    drift += 1
                record(t, meta, {"src": "model-unauth", "script": sc["script"], "version": v})
    res.coverage["behaviours_replayed"] = len(traces)
    n_rand = ctx.pick(500, 20000)
    for i in range(n_rand):
        v = 1 if ctx.rng.random() < 0.1 else 2
        req, st = random_request(ctx.rng, v)
        if i % 3 == 2:
            # the same bytes in another spelling the validators accept (case, blanks between bytes, ...)
            enc.respell_sign_request(req, ctx.rng, p=ctx.rng.choice([1.0, 0.4]))
        if ctx.rng.random() < 0.5:
            sizes = random.Random(ctx.rng.random())
            pol = FaithfulSignPolicy(size=lambda part, remaining: sizes.randint(1, min(255, max(1, remaining))))
        else:
            pol = signx.RandomPolicy(random.Random(ctx.rng.random()))
        t, meta = (bench if v == 2 else bench1).run(req, st, pol, ctx.rng,
                                                    coop=isinstance(pol, FaithfulSignPolicy))
        record(t, meta, {"src": "random", "version": v, "mode": st.get("mode", "hash"),
                         "policy": type(pol).__name__})
    res.coverage["random_requests"] = n_rand
    # chains of related requests on the same manager: each differs from its predecessor in exactly one part
    # (what the host remembers of one request - an encoded proof, a cleared transaction, a path - must not
    # be what the device is handed for the next)
    import copy
    n_chain = ctx.pick(70, 2000)
    n_links = 0
    for i in range(n_chain):
        req, st = reqs.make(ctx.rng.choice(["sign_legacy", "sign_segwit"]), ctx.rng)
        for link in range(4):
            if link > 0:
                req, st = copy.deepcopy(req), copy.deepcopy(st)
                what = ctx.rng.choice(["proof", "receipt", "input", "tx", "key", "same", "proof"])
                if what == "proof":
                    st["proof"] = reqs.merkle_proof(ctx.rng)
                    req["auth"]["receipt_merkle_proof"] = [n.hex() for n in st["proof"]]
                elif what == "receipt":
                    st["receipt"] = reqs.receipt(ctx.rng)
                    req["auth"]["receipt"] = st["receipt"].hex()
                elif what == "input":
                    st["input"] = ctx.rng.choice([0, 1, 2 ** 32 - 1, ctx.rng.randrange(2 ** 32)])
                    req["message"]["input"] = st["input"]
                elif what == "tx":
                    other = reqs.make("sign_legacy", ctx.rng)[1]
                    st["tx"] = other["tx"]
                    req["message"]["tx"] = enc.tx_bytes(st["tx"]).hex()
                elif what == "key":
                    from ..simdev import AUTH_PATHS, PATHS
                    st["key"] = [k for k in AUTH_PATHS if k != st["key"]][0]
                    req["keyId"] = PATHS[st["key"]]
            else:
                what = "first"
            sizes = random.Random(ctx.rng.random())
            pol = FaithfulSignPolicy(size=lambda part, remaining: sizes.randint(1, min(255, max(1, remaining))))
            if (i + link) % 4 == 3:
                req = enc.respell_sign_request(copy.deepcopy(req), ctx.rng, p=0.5)
            t, meta = bench.run(req, st, pol, ctx.rng, coop=True)
            record(t, meta, {"src": "chain", "version": 2, "mode": st.get("mode"), "link": link, "changed": what})
            n_links += 1
    res.coverage["chained_requests"] = n_links
    # a long run on one fresh manager: hundreds of distinct transactions, earlier ones asked for again (same
    # transaction, same or another input) at the distances bounded tables usually have
    from .. import longrun
    lbench = signx.Bench(2)
    seen = {}
    n_long = 0
    for step in longrun.revisit_schedule(ctx.pick(140, 300), every=ctx.pick(6, 3)):
        if step[0] == "new":
            req, st = reqs.make(ctx.rng.choice(["sign_legacy", "sign_segwit"]), ctx.rng)
            seen[step[1]] = (req, st)
            how = "new"
        else:
            req, st = copy.deepcopy(seen[step[1]])
            if ctx.rng.random() < 0.5:
                st["input"] = ctx.rng.randrange(max(1, len(st["tx"]["ins"]))) if isinstance(st.get("tx"), dict) and "ins" in st["tx"] else st["input"]
                req["message"]["input"] = st["input"]
            how = "again@%d" % step[2]
        pol = FaithfulSignPolicy(size=lambda part, remaining: min(255, max(1, remaining)))
        t, meta = lbench.run(req, st, pol, ctx.rng, coop=True)
        record(t, meta, {"src": "long-run", "version": 2, "mode": st.get("mode"), "step": how})
        n_long += 1
    res.coverage["long_run_requests"] = n_long
    # scale: parts whose size needs more than one / two bytes to state (transactions with 252 / 253 / 300 / 700
    # inputs - beyond 64 KiB -, receipts around 64 KiB, 255 proof nodes of 255 bytes)
    n_big = 0
    for n_in in (252, 253, 300) + ((700, 1500) if not ctx.quick else (700,)):
        req, st = reqs.make(ctx.rng.choice(["sign_legacy", "sign_segwit"]), ctx.rng)
        st["tx"] = enc.random_tx(ctx.rng, n_in=n_in, n_out=ctx.rng.choice([1, 252, 253]))
        st["input"] = ctx.rng.choice([0, n_in - 1, 255, 256 if n_in > 256 else 0])
        req["message"]["tx"] = enc.tx_bytes(st["tx"]).hex()
        req["message"]["input"] = st["input"]
        pol = FaithfulSignPolicy(size=lambda part, remaining: min(255, max(1, remaining)))
        t, meta = lbench.run(req, st, pol, ctx.rng, coop=True)
        record(t, meta, {"src": "scale", "version": 2, "mode": st.get("mode"), "inputs": n_in})
        n_big += 1
    for size in (65000, 65535 - 60, 65536, 70000):
        req, st = reqs.make("sign_legacy", ctx.rng)
        st["receipt"] = reqs.receipt(ctx.rng, size=size)
        req["auth"]["receipt"] = st["receipt"].hex()
        st["proof"] = [bytes(ctx.rng.getrandbits(8) for _ in range(255)) for _ in range(255)]
        req["auth"]["receipt_merkle_proof"] = [n.hex() for n in st["proof"]]
        pol = FaithfulSignPolicy(size=lambda part, remaining: min(255, max(1, remaining)))
        t, meta = lbench.run(req, st, pol, ctx.rng, coop=True)
        record(t, meta, {"src": "scale", "version": 2, "mode": "legacy", "receipt": size})
        n_big += 1
    res.coverage["requests_at_scale"] = n_big
    res.coverage["model_drift"] = drift
    verdicts, stats = tlc.validate("TraceSignExchange", "Trace_SignExchange.cfg", traces, shards=14)
    res.checker_cmds.append("tlc -workers 1 -config Trace_SignExchange.cfg TraceSignExchange (x%d shards)" % stats["jvms"])
    accepted = n_ok = 0
    for t in traces:
        v = verdicts[t["id"]]
        inf = info[t["id"]]
        n_ok += 1 if t["ok"] else 0
        if v["ok"]:
            accepted += 1
            continue
        sig = "%s|%s %s" % (v["clause"], inf.get("mode", "hash") if t["auth"] else "unauth",
                            "v1" if inf.get("version") == 1 else "v5")
        small = {k: t[k] for k in ("auth", "dev", "sigok", "ok", "after")}
        small["lens"] = {p: (len(t["got"][p]), len(t["exp"][p])) for p in t["exp"]}
        res.violation(sig, "%s: %s" % (v["clause"], json.dumps({"info": {k: inf[k] for k in inf if k != "script"}, "obs": small}, default=str)),
                      {"info": inf, "trace": {k: t[k] for k in t if k not in ("exp", "got")}, "lens": small["lens"]})
    res.add_validation(stats, accepted)
    res.coverage["successful_signatures_observed"] = n_ok
    if n_ok == 0:
        raise core.MachineryError("vacuity: no execution ended in a successful signature")
    t0 = traces[0]
    res.sample({"info": {k: v for k, v in info[1].items()}, "ok": t0["ok"], "dev": t0["dev"],
                "part_lengths_got_vs_expected": {p: (len(t0["got"][p]), len(t0["exp"][p])) for p in t0["exp"]}})
    return res


def replay(ctx, path):
    print("C01 violations carry the observation summary in the replay file; re-run ./check C01 with the same "
          "VERIF_SEED to reproduce")
    with open(path) as f:
        print(json.dumps(json.load(f)["replay"], indent=1)[:3000])
    return 1
