"""C02 — requests are classified as docs/protocol*.md prescribe.
TLC: Dispatch (every abstract request within K mutations: the code's pipeline stays inside Allowed) ;
every abstract request concretised and sent through the real handle_request with a recording device ;
TraceDispatch judges (request class, reply code, device contacted)."""
import json

from .. import core, dispatch, mgr, tlc
from ..simdev import MODE_SIGNER
from ..transport import install


class Bench:
    def __init__(self, version):
        self.world, self.proto = mgr.serving_manager(version=version)

    def _flag(self):
        return self.proto.protocol_v2 if hasattr(self.proto, "protocol_v2") else self.proto

    def run(self, value, pending=False):
        """pending: the request arrives while a link failure of an earlier request is still to be
        repaired (the manager's comm-issue flag is set): a rejected request must not touch the link then
        either - no close / re-open / bring-up exchange."""
        install(self.world)
        d = self.world.device
        d.mode = MODE_SIGNER
        d.sign = None
        d.blk = None
        self._flag()._comm_issue = False
        if pending:
            from .. import reqs as _reqs
            import random as _random
            self.world.reset_counters()
            self.world.faults = {0: ("write",)}
            ver = 1 if hasattr(self.proto, "protocol_v2") else 5
            mgr.handle_line(self.proto, json.dumps(_reqs.make("getPubKey", _random.Random(1), ver)[0]).encode())
            self.world.reset_counters()
            if not self._flag()._comm_issue:
                raise core.MachineryError("could not put the manager into the repair-pending state")
        n0 = len(self.world.log)
        o = mgr.handle_line(self.proto, json.dumps(value).encode())
        contacted = any(e["ev"] in ("apdu", "open", "close") for e in self.world.log[n0:])
        del self.world.log[:]
        if pending:
            # leave a clean link for the next case
            self._flag()._comm_issue = False
            try:
                if not self.proto.hsm2dongle.dongle.opened:
                    self.proto.hsm2dongle.connect()
            except Exception:
                self.proto.hsm2dongle.connect()
            del self.world.log[:]
        rep = o.reply()
        c = rep.get("errorcode") if rep else None
        has = isinstance(c, int) and not isinstance(c, bool)
        return (c if has else 0), has, contacted, bool(o.shutdown)


def run(ctx):
    res = core.Result()
    res.assumptions = [
        "field classes and their R/U/W tags as transcribed from docs/protocol.md, docs/protocol-v1.md "
        "(DESIGN.md Appendix B); several simultaneous defects: any of their codes is allowed",
        "'accepted' = the command's device exchange started (or success for `version`)",
        "content-level defects (hex that is not a header / transaction) are 'unspecified' at this stage",
        "faithful device simulator; in-process _RequestHandler.handle",
    ]
    cells = []
    drift = 0
    for v1, tag in ((False, "V5"), (True, "V1")):
        cfg = "MC_Dispatch%s.cfg" % tag if (ctx.quick or v1) else "MC3_DispatchV5.cfg"
        r = tlc.check("Dispatch", cfg, workers=8)
        if r.violated:
            raise core.MachineryError("Dispatch model (%s) violates %s" % (tag, r.violated))
        res.add_tlc(r, "%s: pipeline model within Allowed" % cfg)
        for neg in ("NegA", "NegR"):
            rn = tlc.run("Dispatch", "%s_Dispatch%s.cfg" % (neg, tag), workers=2)
            if not rn.violated:
                raise core.MachineryError("vacuity guard %s_%s did not fire" % (neg, tag))
        reqs_, rg = tlc.generate("GenDispatch", "Gen_Dispatch%s.cfg" % tag)
        if not v1:
            reqs_v5 = reqs_
        res.add_tlc(rg, "Gen_Dispatch%s abstract requests (K=2)" % tag)
        res.coverage["abstract_requests_%s" % tag] = len(reqs_)
        bench = Bench(1 if v1 else 2)
        order = list(range(len(reqs_)))
        ctx.rng.shuffle(order)
        if not v1:
            # always all requests with <= 1 mutation; a seeded share of the 2-mutation ones in quick
            ones = [i for i in order if reqs_[i]["muts"] <= 1]
            twos = [i for i in order if reqs_[i]["muts"] > 1]
            order = ones + twos[:ctx.pick(4500, len(twos))]
        reps = ctx.pick(1, 3)
        for i in order:
            a = reqs_[i]
            # a request with at most one deviation is concretised with every member of every class it
            # touches (the deviation is not masked by another one); the others with seeded random members
            sweep = dispatch.Sweep(ctx.rng) if a["muts"] <= 1 else None
            k = -1
            while True:
                k += 1
                if sweep is not None:
                    sweep.j = k
                    if k >= max(reps, min(sweep.longest, 24)):
                        break
                elif k >= reps:
                    break
                value = dispatch.concretise(a["req"], v1, sweep if sweep is not None else ctx.rng)
                pend = (len(cells) % 4 == 3)
                code, has, contacted, shut = bench.run(value, pending=pend)
                observed = 0 if (contacted or code >= 0) else code
                if observed != a["verdict"]:
                    drift += 1
                cells.append({"req": a["req"], "v1": v1, "code": code, "hascode": has, "contacted": contacted,
                              "shutdown": shut, "pending": pend, "value": value if len(json.dumps(value)) < 3000 else "<large>"})
                if shut:
                    bench = Bench(1 if v1 else 2)
    # a long run on one fresh manager: well-formed authorized sign requests over many distinct transactions, earlier
    # requests sent again (a pegout is one request per input) at the distances bounded tables have
    from .. import longrun
    wf = [a for a in reqs_v5 if a["muts"] == 0 and a["req"]["cmd"] == "sign" and a["req"].get("kind") in ("tx", "both")
          and a["verdict"] == 0]
    n_long = 0
    if wf:
        lb = Bench(2)
        seen = {}
        for step in longrun.revisit_schedule(ctx.pick(140, 300), every=ctx.pick(6, 3)):
            if step[0] == "new":
                a = wf[step[1] % len(wf)]
                seen[step[1]] = (a, dispatch.concretise(a["req"], False, ctx.rng))
            a, value = seen[step[1]]
            code, has, contacted, shut = lb.run(value, pending=False)
            if (0 if (contacted or code >= 0) else code) != a["verdict"]:
                drift += 1
            cells.append({"req": a["req"], "v1": False, "code": code, "hascode": has, "contacted": contacted,
                          "shutdown": shut, "pending": False, "value": value if len(json.dumps(value)) < 3000 else "<large>",
                          "long": step[0] if step[0] == "new" else "again@%d" % step[2]})
            n_long += 1
            if shut:
                lb = Bench(2)
    res.coverage["long_run_requests"] = n_long
    res.coverage["requests_executed"] = len(cells)
    res.coverage["model_drift"] = drift
    for i, c in enumerate(cells):
        c["id"] = "c%d" % i
    B = 1500
    batches = [{"id": "B%d" % (i // B), "cells": [{k: c[k] for k in ("id", "req", "v1", "code", "hascode", "contacted")}
                                                  for c in cells[i:i + B]]} for i in range(0, len(cells), B)]
    fails, done, stats = tlc.validate_cells("TraceDispatch", "Trace_Dispatch.cfg", batches, shards=14)
    if len(done) != len(batches):
        raise core.MachineryError("trace validation did not finish every batch")
    res.checker_cmds.append("tlc -workers 1 -config Trace_Dispatch.cfg TraceDispatch (x%d shards)" % stats["jvms"])
    bad = [c for c in cells if c["id"] in fails]
    res.add_validation(stats, len(cells) - len(bad))
    def relevant(r, v1):
        c = r["cmd"]
        rel = {"shape", "cmd", "ver"}
        if c == "getPubKey":
            rel |= {"keyId"}
        elif c == "sign":
            rel |= {"keyId", "v1msg"} if v1 else {"keyId", "auth", "kind", "hash", "tx", "inp", "mode", "ws", "ov", "extra"}
            if not v1 and r["kind"] != "hash":
                rel -= {"hash"}
            if not v1 and r["kind"] not in ("tx", "both"):
                rel -= {"tx", "inp", "mode", "ws", "ov", "extra"}
        elif c == "advanceBlockchain":
            rel |= {"blocks", "brothers"}
        elif c == "updateAncestorBlock":
            rel |= {"blocks"}
        elif c in ("signerHeartbeat", "uiHeartbeat"):
            rel |= {"ud"}
        return rel
    for c in bad:
        r = c["req"]
        mutated = {k: v for k, v in r.items() if k in relevant(r, c["v1"])}
        sig = "%s%s|%s %s -> %s%s" % (fails[c["id"]], "@repair-pending" if c.get("pending") else ("@" + c["long"] if c.get("long", "new") != "new" else ""),
                                      "v1" if c["v1"] else "v5",
                                    ",".join("%s=%s" % kv for kv in sorted(mutated.items())),
                                    c["code"] if c["hascode"] else "<none>", " contacted" if c["contacted"] else "")
        res.violation(sig, "%s: request class %s answered %s%s" % (
            fails[c["id"]], json.dumps(mutated, sort_keys=True), c["code"] if c["hascode"] else "<no errorcode>",
            " after device contact" if c["contacted"] else ""), {"req": r, "v1": c["v1"], "value": c["value"]})
    res.coverage["distinct_abstract_classes_hit"] = len({json.dumps(c["req"], sort_keys=True) + str(c["v1"]) for c in cells})
    for c in cells[:2] + cells[-2:]:
        res.sample({"class": c["req"], "v1": c["v1"], "json": c["value"], "code": c["code"], "contacted": c["contacted"]})
    return res


def replay(ctx, path):
    with open(path) as f:
        d = json.load(f)["replay"]
    bench = Bench(1 if d["v1"] else 2)
    value = d["value"] if d["value"] != "<large>" else dispatch.concretise(d["req"], d["v1"], ctx.rng)
    code, has, contacted, shut = bench.run(value)
    cell = {"id": "c0", "req": d["req"], "v1": d["v1"], "code": code, "hascode": has, "contacted": contacted}
    fails, done, _ = tlc.validate_cells("TraceDispatch", "Trace_Dispatch.cfg", [{"id": "B0", "cells": [cell]}])
    print(json.dumps({"json": value, "code": code, "contacted": contacted, "failing": fails}, indent=1)[:3000])
    return 0 if not fails else 1
