"""Request-line classes for C03 (and reused by C02's random tier): name -> generator(rng) -> bytes
(without the trailing newline). Every class is something a *client* can send; the device behind
the manager keeps to its protocol."""
import json

from . import enc, reqs
from .simdev import PATHS

J = lambda o: json.dumps(o).encode()   # noqa: E731


def _good(cmd):
    return lambda rng: J(reqs.make(cmd, rng)[0])


def _sign_tx(rng, **over):
    req, st = reqs.make("sign_legacy" if not over.get("segwit") else "sign_segwit", rng)
    over.pop("segwit", None)
    for k, v in over.items():
        if k.startswith("msg_"):
            if v is DROP:
                req["message"].pop(k[4:], None)
            else:
                req["message"][k[4:]] = v
        elif k.startswith("auth_"):
            req["auth"][k[5:]] = v
        else:
            req[k] = v
    return req


DROP = object()


def _adv(rng, n=2, bro=None, **over):
    bl = reqs.blocks(rng, n, True, bro_counts=bro)
    req = {"version": 5, "command": "advanceBlockchain", "blocks": [b["raw"].hex() for b in bl],
           "brothers": [[x["raw"].hex() for x in b["brothers"]] for b in bl]}
    req.update(over)
    return req, bl


def big_header(rng, size):
    f = enc.header_fields(rng, 20, cb_full=bytes(100), cb_split=64, sizes={"extra": size})
    return enc.rlp_encode(f)


def header_last_is_list(rng):
    f = enc.header_fields(rng, 20, cb_full=bytes(100), cb_split=64)
    f[-1] = [b"ab", b"cd"]
    return enc.rlp_encode(f)


def deep_field_header(rng, depth=600):
    """A 20-field header one of whose fields is a list nested `depth` levels deep (decodable RLP)."""
    f = enc.header_fields(rng, 20, cb_full=bytes(100), cb_split=64)
    x = b"\x01"
    inner = b"\xc1\x01"
    for _ in range(depth):
        if len(inner) <= 55:
            inner = bytes([0xc0 + len(inner)]) + inner
        else:
            lb = len(inner).to_bytes((len(inner).bit_length() + 7) // 8, "big")
            inner = bytes([0xf7 + len(lb)]) + lb + inner
    items = [enc.rlp_encode(i) for i in f]
    items[12] = inner
    payload = b"".join(items)
    return enc.rlp_len_prefix(len(payload), 0xc0) + payload


def truncated_receipt(rng, keep):
    """An RLP list whose header declares more bytes than follow; `keep` bytes are kept."""
    full = reqs.receipt(rng, size=400)
    return full[:keep]


def noncanonical_rlp(rng):
    f = enc.header_fields(rng, 19, cb_full=bytes(100), cb_split=0)
    raw = enc.rlp_encode(f)
    # re-encode the list prefix non-minimally: f9 LL LL -> fa 00 LL LL
    assert raw[0] == 0xf9
    return bytes([0xfa, 0x00]) + raw[1:]


CLASSES = {
    # ---- transport / syntax
    "invalid_utf8": lambda r: b"\xff\xfe{\"command\":\"version\"}",
    "invalid_utf8_mid": lambda r: b'{"command":"vers\xc3\x28ion"}',
    "empty": lambda r: b"",
    "spaces": lambda r: b"   \t  ",
    "not_json": lambda r: b"hello world",
    "truncated_json": lambda r: b'{"command":"version"',
    "json_number": lambda r: b"42",
    "json_string": lambda r: b'"version"',
    "json_list": lambda r: b'[{"command":"version"}]',
    "json_null": lambda r: b"null",
    "json_true": lambda r: b"true",
    "deep_nesting": lambda r: b"[" * 100000,
    "deep_nesting_in_field": lambda r: b'{"command":"version","x":' + b"[" * 100000 + b"]" * 100000 + b"}",
    "huge_integer": lambda r: b'{"command":"version","version":' + b"9" * 5000 + b"}",
    "huge_integer_alone": lambda r: b"1" * 6000,
    "nan_infinity": lambda r: b'{"command":NaN,"version":Infinity}',
    "nan_input": lambda r: J(_sign_tx(r)).replace(b'"input": ', b'"input": NaN, "x": '),
    "duplicate_keys": lambda r: b'{"command":"bogus","command":"version","version":1,"version":5}',
    "surrogates": lambda r: b'{"command":"getPubKey","version":5,"keyId":"m/44\'/\\ud800/0\'/0/0"}',
    "long_line": lambda r: b'{"command":"version","pad":"' + b"a" * 1000000 + b'"}',
    "nul_bytes": lambda r: b'{"command":"ver\\u0000sion","version":5}\x00\x00',
    # ---- envelope
    "no_command": lambda r: J({"version": 5}),
    "command_list": lambda r: J({"command": ["a"], "version": 5}),
    "command_dict": lambda r: J({"command": {"a": 1}, "version": 5}),
    "command_null": lambda r: J({"command": None, "version": 5}),
    "command_int": lambda r: J({"command": 7, "version": 5}),
    "command_unknown": lambda r: J({"command": "selfDestruct", "version": 5}),
    "version_missing": lambda r: J({"command": "blockchainState"}),
    "version_wrong": lambda r: J({"command": "blockchainState", "version": 4}),
    "version_string": lambda r: J({"command": "blockchainState", "version": "5"}),
    "version_list": lambda r: J({"command": "blockchainState", "version": [5]}),
    "version_float": lambda r: b'{"command":"blockchainState","version":5.0}',
    # ---- well-formed requests
    "ok_version": _good("version"), "ok_getPubKey": _good("getPubKey"), "ok_sign_hash": _good("sign_hash"),
    "ok_sign_legacy": _good("sign_legacy"), "ok_sign_segwit": _good("sign_segwit"),
    "ok_advance": _good("advanceBlockchain"), "ok_ancestor": _good("updateAncestorBlock"),
    "ok_reset": _good("resetAdvanceBlockchain"), "ok_state": _good("blockchainState"),
    "ok_params": _good("blockchainParameters"), "ok_signer_hb": _good("signerHeartbeat"),
    "ok_ui_hb": _good("uiHeartbeat"),
    # ---- key ids
    "keyid_missing": lambda r: J({"command": "getPubKey", "version": 5}),
    "keyid_int": lambda r: J({"command": "getPubKey", "version": 5, "keyId": 44}),
    "keyid_empty": lambda r: J({"command": "getPubKey", "version": 5, "keyId": ""}),
    "keyid_trailing_slash": lambda r: J({"command": "getPubKey", "version": 5, "keyId": "m/44'/0'/0'/0/"}),
    "keyid_big_element": lambda r: J({"command": "getPubKey", "version": 5, "keyId": "m/44'/0'/0'/0/4294967296"}),
    "keyid_unicode_digits": lambda r: J({"command": "getPubKey", "version": 5, "keyId": "m/٤٤'/0'/0'/0/0"}),
    "keyid_unknown_path": lambda r: J({"command": "getPubKey", "version": 5, "keyId": "m/44'/5'/0'/0/0"}),
    "keyid_unknown_path_sign_tx": lambda r: J(_sign_tx(r, keyId="m/44'/5'/0'/0/0")),
    "keyid_auth_path_with_hash": lambda r: J({"command": "sign", "version": 5, "keyId": PATHS["btc"],
                                              "message": {"hash": "aa" * 32}}),
    "keyid_noauth_path_with_tx": lambda r: J(_sign_tx(r, keyId=PATHS["rsk"])),
    # ---- sign: message
    "sign_no_message": lambda r: J({"command": "sign", "version": 5, "keyId": PATHS["btc"]}),
    "sign_message_list": lambda r: J({"command": "sign", "version": 5, "keyId": PATHS["btc"], "message": [1]}),
    "sign_hash_short": lambda r: J({"command": "sign", "version": 5, "keyId": PATHS["rsk"], "message": {"hash": "aa" * 31}}),
    "sign_hash_spaced": lambda r: J({"command": "sign", "version": 5, "keyId": PATHS["rsk"],
                                     "message": {"hash": " ".join(["aa"] * 32)}}),
    "sign_input_negative": lambda r: J(_sign_tx(r, msg_input=-1)),
    "sign_input_2_32": lambda r: J(_sign_tx(r, msg_input=2 ** 32)),
    "sign_input_2_64": lambda r: J(_sign_tx(r, msg_input=2 ** 64)),
    "sign_input_max": lambda r: J(_sign_tx(r, msg_input=2 ** 32 - 1)),
    "sign_input_bool": lambda r: J(_sign_tx(r, msg_input=True)),
    "sign_input_float": lambda r: J(_sign_tx(r, msg_input=0.0)),
    "sign_input_string": lambda r: J(_sign_tx(r, msg_input="0")),
    "sign_tx_undecodable": lambda r: J(_sign_tx(r, msg_tx="deadbeef" * 10)),
    "sign_tx_truncated": lambda r: J(_sign_tx(r, msg_tx=enc.tx_bytes(enc.random_tx(r)).hex()[:-8])),
    "sign_tx_trailing": lambda r: J(_sign_tx(r, msg_tx=enc.tx_bytes(enc.random_tx(r)).hex() + "00")),
    "sign_tx_empty_script": lambda r: J(_sign_tx(r, msg_tx=enc.tx_bytes(
        {"version": 1, "ins": [{"prev": bytes(32), "n": 0, "ops": [], "seq": 0}], "outs": [], "lock": 0}).hex())),
    "sign_tx_truncated_push": lambda r: J(_sign_tx(r, msg_tx=enc.tx_bytes(
        {"version": 1, "ins": [{"prev": bytes(32), "n": 0, "ops": [("opcode", 0x4c)], "seq": 0}],
         "outs": [], "lock": 0}).hex())),
    "sign_mode_other": lambda r: J(_sign_tx(r, msg_sighashComputationMode="taproot")),
    "sign_segwit_ws_huge": lambda r: J(_sign_tx(r, segwit=True, msg_witnessScript="ab" * 70000)),
    "sign_segwit_ws_edge": lambda r: J(_sign_tx(r, segwit=True, msg_witnessScript="ab" * 65524)),
    "sign_segwit_ws_edge_plus": lambda r: J(_sign_tx(r, segwit=True, msg_witnessScript="ab" * 65525)),
    "sign_segwit_ov_zero": lambda r: J(_sign_tx(r, segwit=True, msg_outpointValue=0)),
    "sign_segwit_ov_2_64": lambda r: J(_sign_tx(r, segwit=True, msg_outpointValue=2 ** 64)),
    "sign_segwit_ov_negative": lambda r: J(_sign_tx(r, segwit=True, msg_outpointValue=-5)),
    "sign_segwit_ov_max": lambda r: J(_sign_tx(r, segwit=True, msg_outpointValue=2 ** 64 - 1)),
    "sign_legacy_with_segwit_fields": lambda r: J(_sign_tx(r, msg_witnessScript="abcd", msg_outpointValue=5)),
    # ---- sign: auth
    "sign_auth_missing": lambda r: J({k: v for k, v in _sign_tx(r).items() if k != "auth"}),
    "sign_auth_list": lambda r: J(_sign_tx(r, auth=[1, 2])),
    "sign_receipt_nonhex": lambda r: J(_sign_tx(r, auth_receipt="zz")),
    "sign_receipt_huge": lambda r: J(_sign_tx(r, auth_receipt=(b"\xb9\xff\xff" + bytes(65535)).hex())),
    "sign_receipt_truncated": lambda r: J(_sign_tx(r, auth_receipt=truncated_receipt(r, r.randint(5, 300)).hex())),
    "sign_receipt_truncated_80": lambda r: J(_sign_tx(r, auth_receipt=truncated_receipt(r, 80).hex())),
    "sign_receipt_truncated_160": lambda r: J(_sign_tx(r, auth_receipt=truncated_receipt(r, 160).hex())),
    "sign_receipt_truncated_255": lambda r: J(_sign_tx(r, auth_receipt=truncated_receipt(r, 255).hex())),
    "sign_receipt_trailing": lambda r: J(_sign_tx(r, auth_receipt=(reqs.receipt(r) + bytes(7)).hex())),
    "sign_receipt_not_rlp_list": lambda r: J(_sign_tx(r, auth_receipt="83616263")),
    "sign_receipt_single_byte": lambda r: J(_sign_tx(r, auth_receipt="00")),
    "sign_proof_256_nodes": lambda r: J(_sign_tx(r, auth_receipt_merkle_proof=["ab"] * 256)),
    "sign_proof_node_256_bytes": lambda r: J(_sign_tx(r, auth_receipt_merkle_proof=["ab" * 256])),
    "sign_proof_nested": lambda r: J(_sign_tx(r, auth_receipt_merkle_proof=[["ab"]])),
    # ---- blocks
    "adv_no_blocks": lambda r: J({"command": "advanceBlockchain", "version": 5, "brothers": []}),
    "adv_blocks_not_list": lambda r: J({"command": "advanceBlockchain", "version": 5, "blocks": "ab", "brothers": []}),
    "adv_block_nonhex": lambda r: J({"command": "advanceBlockchain", "version": 5, "blocks": ["zz"], "brothers": [[]]}),
    "adv_block_empty_string": lambda r: J({"command": "advanceBlockchain", "version": 5, "blocks": [""], "brothers": [[]]}),
    "adv_block_not_rlp_list": lambda r: J({"command": "advanceBlockchain", "version": 5, "blocks": ["83616263"], "brothers": [[]]}),
    "adv_block_few_fields": lambda r: J({"command": "advanceBlockchain", "version": 5,
                                         "blocks": [enc.rlp_encode([b"a"] * 5).hex()], "brothers": [[]]}),
    "adv_block_17_fields": lambda r: J({"command": "advanceBlockchain", "version": 5,
                                        "blocks": [enc.rlp_encode(enc.header_fields(r, 17)).hex()], "brothers": [[]]}),
    "adv_block_huge": lambda r: J({"command": "advanceBlockchain", "version": 5,
                                   "blocks": [big_header(r, 70000).hex()], "brothers": [[]]}),
    "adv_block_last_field_list": lambda r: J({"command": "advanceBlockchain", "version": 5,
                                              "blocks": [header_last_is_list(r).hex()], "brothers": [[]]}),
    "adv_block_deep_field": lambda r: J({"command": "advanceBlockchain", "version": 5,
                                         "blocks": [deep_field_header(r).hex()], "brothers": [[]]}),
    "adv_brother_deep_field": lambda r: J(_adv(r, 1, [0], brothers=[[deep_field_header(r).hex()]])[0]),
    "anc_block_deep_field": lambda r: J({"command": "updateAncestorBlock", "version": 5,
                                         "blocks": [deep_field_header(r).hex()]}),
    "anc_block_deep_field_shallow": lambda r: J({"command": "updateAncestorBlock", "version": 5,
                                                 "blocks": [deep_field_header(r, 40).hex()]}),
    "adv_block_noncanonical_rlp": lambda r: J({"command": "advanceBlockchain", "version": 5,
                                               "blocks": [noncanonical_rlp(r).hex()], "brothers": [[]]}),
    "adv_block_trailing_bytes": lambda r: J({"command": "advanceBlockchain", "version": 5,
                                             "blocks": [_adv(r, 1, [0])[0]["blocks"][0] + "00"], "brothers": [[]]}),
    "adv_block_short_coinbase": lambda r: J({"command": "advanceBlockchain", "version": 5, "blocks": [
        enc.rlp_encode(enc.header_fields(r, 20)[:-1] + [b"\x01\x02"]).hex()], "brothers": [[]]}),
    # a coinbase transaction field whose leading eight bytes (the count of bytes already hashed) are enormous, with
    # enough bytes behind it to look like the real thing
    "adv_block_cb_counter_huge": lambda r: J({"command": "advanceBlockchain", "version": 5, "blocks": [
        enc.rlp_encode(enc.header_fields(r, 20)[:-1] + [r.choice([b"\xff" * 8, b"\x20" + bytes(7), b"\x7f" * 8])
                                                         + bytes(r.getrandbits(8) for _ in range(r.choice([32, 64, 100])))]).hex()],
        "brothers": [[]]}),
    "adv_brother_cb_counter_huge": lambda r: J(_adv(r, 1, [0], brothers=[[
        enc.rlp_encode(enc.header_fields(r, 19)[:-1] + [b"\xff" * 8 + bytes(r.getrandbits(8) for _ in range(72))]).hex()]])[0]),
    "adv_brothers_missing": lambda r: J({k: v for k, v in _adv(r)[0].items() if k != "brothers"}),
    "adv_brothers_len_mismatch": lambda r: J(_adv(r, 2, [0, 0], brothers=[[]])[0]),
    "adv_brother_not_header": lambda r: J(_adv(r, 1, [0], brothers=[["abcdef"]])[0]),
    "adv_brother_few_fields": lambda r: J(_adv(r, 1, [0], brothers=[[enc.rlp_encode([b"a"] * 3).hex()]])[0]),
    "adv_brother_last_field_list": lambda r: J(_adv(r, 1, [0], brothers=[[header_last_is_list(r).hex()]])[0]),
    "adv_256_brothers": lambda r: (lambda q: J(dict(q[0], brothers=[[q[0]["brothers"][0][0]] * 256])))(_adv(r, 1, [1])),
    "adv_brother_empty_string": lambda r: J(_adv(r, 1, [0], brothers=[[""]])[0]),
    "anc_block_huge": lambda r: J({"command": "updateAncestorBlock", "version": 5, "blocks": [big_header(r, 70000).hex()]}),
    "anc_block_not_rlp": lambda r: J({"command": "updateAncestorBlock", "version": 5, "blocks": ["00"]}),
    "anc_block_last_field_list": lambda r: J({"command": "updateAncestorBlock", "version": 5,
                                              "blocks": [header_last_is_list(r).hex()]}),
    "anc_blocks_empty": lambda r: J({"command": "updateAncestorBlock", "version": 5, "blocks": []}),
    # ---- heartbeats
    "hb_ud_short": lambda r: J({"command": "signerHeartbeat", "version": 5, "udValue": "aa" * 15}),
    "hb_ud_int": lambda r: J({"command": "signerHeartbeat", "version": 5, "udValue": 5}),
    "uihb_ud_16": lambda r: J({"command": "uiHeartbeat", "version": 5, "udValue": "aa" * 16}),
    "hb_ud_spaced": lambda r: J({"command": "signerHeartbeat", "version": 5, "udValue": " ".join(["aa"] * 16)}),
    # ---- extra keys
    "extra_keys": lambda r: J({"command": "blockchainState", "version": 5, "foo": {"bar": [1, 2, {"x": None}]}}),
}

V1_CLASSES = {
    "v1_ok_version": lambda r: J({"command": "version"}),
    "v1_ok_getPubKey": lambda r: J(reqs.make("getPubKey", r, 1)[0]),
    "v1_ok_sign": lambda r: J(reqs.make("sign_v1", r, 1)[0]),
    "v1_version_5": lambda r: J({"command": "getPubKey", "version": 5, "keyId": PATHS["rsk"]}),
    "v1_sign_object_message": lambda r: J({"command": "sign", "version": 1, "keyId": PATHS["rsk"], "message": {"hash": "aa" * 32}}),
    "v1_sign_short": lambda r: J({"command": "sign", "version": 1, "keyId": PATHS["rsk"], "message": "aa" * 31}),
    "v1_sign_spaced": lambda r: J({"command": "sign", "version": 1, "keyId": PATHS["rsk"], "message": " ".join(["aa"] * 32)}),
    "v1_v5_command": lambda r: J({"command": "blockchainState", "version": 1}),
    "v1_command_list": lambda r: J({"command": ["a"], "version": 1}),
    "v1_deep": lambda r: b"[" * 100000,
    "v1_invalid_utf8": lambda r: b"\xff\xfe",
    "v1_keyid_unknown": lambda r: J({"command": "getPubKey", "version": 1, "keyId": "m/44'/5'/0'/0/0"}),
    "v1_sign_auth_path": lambda r: J({"command": "sign", "version": 1, "keyId": PATHS["btc"], "message": "aa" * 32}),
}


# ---- spellings of otherwise valid hex fields (a validator and the code that later consumes the field may
# ---- disagree on which spellings are hex): every hex-valued field x every spelling
SPELLINGS = {
    "0x": lambda h: "0x" + h,
    "0X": lambda h: "0X" + h,
    "upper": lambda h: h.upper(),
    "mixed": lambda h: "".join(c.upper() if i % 3 == 0 else c for i, c in enumerate(h)),
    "lead_space": lambda h: " " + h,
    "trail_space": lambda h: h + " ",
    "trail_newline": lambda h: h + "\n",
    "inner_space": lambda h: h[:2] + " " + h[2:],
    "inner_spaces_all": lambda h: " ".join(h[i:i + 2] for i in range(0, len(h), 2)) if len(h) < 400 else h[:2] + " " + h[2:],
    "underscore": lambda h: h[:2] + "_" + h[2:],
    "odd_0_prefixed": lambda h: "0" + h,
    "fullwidth_digit": lambda h: "１" + h[1:],
    "arabic_digit": lambda h: "١" + h[1:],
    # shapes that are cheap to refuse for a linear scan and ruinous for a pattern matcher that backtracks: many
    # blank-separated pairs (each blank can belong to the pair before or after it) and then something invalid
    "pairs_then_bad": lambda h: " ".join([h[:2], h[2:4] or "ab"] * 24) + " z",
    "pairs_tabs_then_odd": lambda h: "\t".join([h[:2], h[2:4] or "ab"] * 30) + "\ta",
    "blank_run": lambda h: h[:2] + " " * 3000 + h[2:6] + "zz",
    "pairs_3000_then_bad": lambda h: " ".join([h[:2]] * 3000) + " g0",
}


def _field_setters():
    def adv_block(r, sp):
        q = _adv(r, 2, [1, 0])[0]
        q["blocks"][r.randrange(2)] = sp(q["blocks"][0])
        return q

    def adv_brother(r, sp):
        q = _adv(r, 1, [2])[0]
        q["brothers"][0][1] = sp(q["brothers"][0][1])
        return q

    def anc_block(r, sp):
        bl = reqs.blocks(r, 2, False)
        q = {"version": 5, "command": "updateAncestorBlock", "blocks": [b["raw"].hex() for b in bl]}
        q["blocks"][1] = sp(q["blocks"][1])
        return q

    def msg(field, segwit=False):
        def f(r, sp):
            q = _sign_tx(r, segwit=segwit)
            q["message"][field] = sp(q["message"][field])
            return q
        return f

    def receipt(r, sp):
        q = _sign_tx(r)
        q["auth"]["receipt"] = sp(q["auth"]["receipt"])
        return q

    def proof(r, sp):
        q = _sign_tx(r)
        q["auth"]["receipt_merkle_proof"][-1] = sp(q["auth"]["receipt_merkle_proof"][-1])
        return q

    def hsh(r, sp):
        q = reqs.make("sign_hash", r)[0]
        q["message"]["hash"] = sp(q["message"]["hash"])
        return q

    def ud(cmd):
        def f(r, sp):
            q = reqs.make(cmd, r)[0]
            q["udValue"] = sp(q["udValue"])
            return q
        return f
    return {"adv_block": adv_block, "adv_brother": adv_brother, "anc_block": anc_block, "tx": msg("tx"),
            "witness_script": msg("witnessScript", True), "receipt": receipt, "proof_node": proof, "hash": hsh,
            "signer_ud": ud("signerHeartbeat"), "ui_ud": ud("uiHeartbeat")}


def _spell_class(setter, sp):
    return lambda r: J(setter(r, sp))


for _f, _setter in _field_setters().items():
    for _s, _sp in SPELLINGS.items():
        CLASSES["spell_%s_%s" % (_f, _s)] = _spell_class(_setter, _sp)
for _s, _sp in SPELLINGS.items():
    V1_CLASSES["v1_spell_message_%s" % _s] = (lambda sp: lambda r: J((lambda q: dict(q, message=sp(q["message"])))(
        reqs.make("sign_v1", r, 1)[0])))(_sp)


# ---- nesting depth: the C JSON parser, Python-level walks over the parsed value (copying, validation, logging)
# ---- and the recursion limit each have their own threshold; every depth band x every position
NEST_DEPTHS = [50, 200, 330, 400, 499, 500, 600, 800, 990, 1000, 1200, 1400, 1490, 1500, 2500, 20000]


def _nested(depth, obj=False):
    return (b'{"a":' * depth + b"1" + b"}" * depth) if obj else (b"[" * depth + b"]" * depth)


def _nest_positions():
    return {
        "top": lambda d: _nested(d),
        "top_obj": lambda d: _nested(d, True),
        "version_extra": lambda d: b'{"command":"version","x":' + _nested(d) + b"}",
        "getpubkey_extra": lambda d: b'{"command":"getPubKey","version":5,"keyId":"m/44\'/0\'/0\'/0/0","x":' + _nested(d, d % 2 == 0) + b"}",
        "state_extra_first": lambda d: b'{"x":' + _nested(d) + b',"command":"blockchainState","version":5}',
        "command": lambda d: b'{"version":5,"command":' + _nested(d) + b"}",
        "keyid": lambda d: b'{"command":"getPubKey","version":5,"keyId":' + _nested(d) + b"}",
        "blocks": lambda d: b'{"command":"advanceBlockchain","version":5,"blocks":' + _nested(d) + b',"brothers":[[]]}',
        "sign_message": lambda d: b'{"command":"sign","version":5,"keyId":"m/44\'/137\'/0\'/0/0","message":{"hash":' + _nested(d) + b"}}",
        "unknown_command_extra": lambda d: b'{"command":"nope","version":5,"x":' + _nested(d) + b"}",
    }


for _pn, _pf in _nest_positions().items():
    for _d in NEST_DEPTHS:
        CLASSES["nest_%s_%d" % (_pn, _d)] = (lambda f, d: lambda r: f(d))(_pf, _d)
for _d in NEST_DEPTHS:
    V1_CLASSES["v1_nest_extra_%d" % _d] = (lambda d: lambda r: b'{"command":"getPubKey","version":1,"keyId":"m/44\'/0\'/0\'/0/0","x":' + _nested(d) + b"}")(_d)


# ---- the same header strings offered to both block commands (whatever one command remembers about a header must
# ---- not be what the other one uses): fixed content, so that the classes below share it
def _reuse_material():
    import random as _random
    r = _random.Random("reuse-headers")
    full = reqs.blocks(r, 2, True, bro_counts=[0, 0])
    nomm = [enc.rlp_encode(enc.header_no_mm(b["fields"], True)).hex() for b in full]
    return [b["raw"].hex() for b in full], nomm


_REUSE = {}


def _reuse(kind):
    if not _REUSE:
        _REUSE["full"], _REUSE["nomm"] = _reuse_material()
    f, n = _REUSE["full"], _REUSE["nomm"]
    return {
        "reuse_anc_nomm": {"command": "updateAncestorBlock", "version": 5, "blocks": list(n)},
        "reuse_anc_full": {"command": "updateAncestorBlock", "version": 5, "blocks": list(f)},
        "reuse_adv_full": {"command": "advanceBlockchain", "version": 5, "blocks": list(f), "brothers": [[], []]},
        "reuse_adv_nomm_block": {"command": "advanceBlockchain", "version": 5, "blocks": [n[0]], "brothers": [[]]},
        "reuse_adv_nomm_brother": {"command": "advanceBlockchain", "version": 5, "blocks": [f[0]], "brothers": [[n[1]]]},
        "reuse_adv_full_as_brother": {"command": "advanceBlockchain", "version": 5, "blocks": [f[0]], "brothers": [[f[1]]]},
    }[kind]


REUSE_CLASSES = ["reuse_anc_nomm", "reuse_anc_full", "reuse_adv_full", "reuse_adv_nomm_block", "reuse_adv_nomm_brother",
                 "reuse_adv_full_as_brother"]
for _k in REUSE_CLASSES:
    CLASSES[_k] = (lambda k: lambda r: J(_reuse(k)))(_k)
