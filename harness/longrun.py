"""Long runs on one long-lived object: what accumulates over a lifetime (bounded caches and their eviction, counters
compared with fixed limits, nesting that grows per operation) must not change how a later operation is served."""

# distances at which an earlier item is asked for again: around the sizes bounded tables usually have
DISTANCES = (1, 2, 7, 8, 9, 15, 16, 17, 31, 32, 33, 63, 64, 65, 127, 128, 129, 255, 256, 257)


def revisit_schedule(n_distinct, distances=DISTANCES, every=3):
    """-> list of ("new", i) / ("again", i, distance): items 0..n_distinct-1 are introduced in order; after item t,
    item t - d is asked for again for the distances d whose turn it is (each distance comes up every `every`
    items once it is available), so that every distance is exercised several times in a run."""
    out = []
    for t in range(n_distinct):
        out.append(("new", t))
        for j, d in enumerate(distances):
            if t >= d and (t + j) % every == 0:
                out.append(("again", t - d, d))
    return out
