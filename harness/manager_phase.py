"""Whole-process phase shared by C03, C04, C09 and C11: lifetimes of the real ManagerRunner.run in forked
processes (procmgr), planned by TLC (GenManager), judged by TLC (TraceManager / ManagerProps). Each property
only reports the clauses that restate it; everything else observed in the same traces is left to its owner."""
import json
import random

from . import core, procmgr, tlc

# clause (and, where it matters, the cause of the request at which it failed) -> owning property
def owner(clause, cause):
    if clause in ("ListeningFromUnsafeState", "ExitedWithoutServingThoughSafe", "SuccessFromUnsafeDevice"):
        return "C09"
    if clause == "LinkFaultCode":
        return "C11"
    if clause in ("StoppedForSurvivableCause", "ReplyWithoutErrorCode"):
        return {"client": "C03", "inrange": "C04", "linkfault": "C11", "timeout": "C11"}.get(cause, "C03")
    return "C03"        # NotAccepting, NoSingleReply, ServedAfterStop


def run_phase(ctx, res, prop, n_quick=36, n_thorough=400):
    import time as _time0
    _start = _time0.time()
    r = tlc.check("Manager", "MC_Manager.cfg", workers=2, coverage=True)
    if r.violated:
        raise core.MachineryError("Manager composition model violates %s" % r.violated)
    res.add_tlc(r, "MC_Manager (process lifetime composition)")
    rn = tlc.run("Manager", "Neg_Manager.cfg", workers=2)
    if "NeverStops" not in rn.violated:
        raise core.MachineryError("vacuity guard: the Manager model never stops")
    plans, rg = tlc.generate("GenManager", "Gen_Manager.cfg")
    rng = random.Random("mgrphase:%s:%d" % (prop, ctx.seed))
    uniq = sorted({json.dumps(p, sort_keys=True) for p in plans})
    rng.shuffle(uniq)
    chosen = [json.loads(u) for u in uniq[:ctx.pick(n_quick, n_thorough)]]
    # start-ups that must not serve are one plan in the model (no requests follow) but many concrete
    # environments (not onboarded, wrong mode, old app, bad PIN, pending PIN change, ...): repeat them
    neg = [json.loads(u) for u in uniq if not json.loads(u)["should"]]
    chosen = (neg * ctx.pick(9, 60))[:ctx.pick(9, 60)] + chosen
    traces, info = [], {}
    for i, p in enumerate(chosen):
        v1 = (i % 5 == 4)
        causes = list(p["plan"])
        if v1:
            causes = [c for c in causes]
        # platforms: manager_ledger (HID), manager_sgx (TCP transport, SGX bootloader commands), manager_tcp (no PIN)
        plat = "sgx" if i % 3 == 1 else ("tcp" if (i % 9 == 2 and p["should"]) else "ledger")
        ev, inf = procmgr.run_lifetime(ctx.scratch, "%s_%d" % (prop, i), p["should"], causes, v1, rng, plat=plat,
                                       variant=None if p["should"] else i)
        tid = len(traces) + 1
        traces.append({"id": "M%d" % tid, "v1": v1, "ev": ev})
        info["M%d" % tid] = inf
    # every well-formed command (and a sample of the other line classes) through each entry point: the SGX and
    # TCPSigner managers take platform-specific branches for the same requests
    from . import lines as _lines
    good = sorted(n for n in _lines.CLASSES if n.startswith("ok_"))
    hung_classes = []
    res.coverage["line_classes_never_answered"] = hung_classes
    for plat in ("sgx", "tcp", "ledger"):
        others = sorted(set(_lines.CLASSES) - set(good))
        # (C03 sends every class through a manager process of its own on one platform: a request the manager never
        # finishes with is seen there within the client's time-out, and only costs that process)
        names = good + (others if (prop == "C03" and plat == "ledger") else rng.sample(others, ctx.pick(10, 60)))
        rng.shuffle(names)
        given = [(n, _lines.CLASSES[n](random.Random("mp:%s:%s" % (n, ctx.seed)))) for n in names]
        part = 0
        while given and part < 80:
            ev, inf = procmgr.run_lifetime(ctx.scratch, "%s_all_%s_%d" % (prop, plat, part), True, ["client"] * len(given),
                                           False, rng, start_env=(dict(procmgr.GOOD_ENV), "f"), plat=plat,
                                           client_lines=list(given), client_timeout=25)
            if inf.get("hung_at") is not None:
                hung_classes.append(inf["labels"][inf["hung_at"]])
            inf["labels"] = inf["labels"][:3] + ["... %d lines" % len(given)] + \
                ([inf["labels"][inf["hung_at"]]] if inf.get("hung_at") is not None else [])
            inf["causes"] = inf["causes"][:3]
            tid = len(traces) + 1
            traces.append({"id": "M%d" % tid, "v1": False, "ev": ev})
            info["M%d" % tid] = inf
            n_conn = sum(1 for e in ev if e["k"] == "conn")
            # go on with what was not sent yet (after a request without an answer, or a manager that stopped)
            given = given[max(1, n_conn):] if (inf.get("hung_at") is not None or n_conn < len(given)) else []
            part += 1
    for j in range(ctx.pick(6, 60)):
        v1 = (j % 4 == 3)
        ev, inf = procmgr.run_lifetime(ctx.scratch, "%s_ur_%d" % (prop, j), True, [], v1, rng,
                                       start_env=(dict(procmgr.GOOD_ENV), "f"), plat="ledger",
                                       explicit=procmgr.unsafe_repair_history(rng, v1))
        tid = len(traces) + 1
        traces.append({"id": "M%d" % tid, "v1": v1, "ev": ev})
        info["M%d" % tid] = inf
    # long lifetimes: hundreds of requests of every survivable kind on one manager process (what accumulates over a
    # lifetime - descriptors, counters, remembered state, repairs - must not change how the next request is served)
    for plat in ("ledger", "sgx", "tcp"):
        n = ctx.pick(300, 2500)
        mix = ["client"] * 6 + ["linkfault", "timeout", "inrange", "reconnfail"]
        causes = [rng.choice(mix) for _ in range(n)]
        ev, inf = procmgr.run_lifetime(ctx.scratch, "%s_long_%s" % (prop, plat), True, causes, False, rng,
                                       start_env=(dict(procmgr.GOOD_ENV), "f"), plat=plat)
        inf["causes"] = inf["causes"][:40] + ["... %d in all" % n]
        inf["labels"] = inf["labels"][:40]
        tid = len(traces) + 1
        traces.append({"id": "M%d" % tid, "v1": False, "ev": ev})
        info["M%d" % tid] = inf
    # outages in a row on one manager: link error, a request whose re-opening fails, a request that repairs - over
    # a hundred times (budgets and counters of the repair logic must not run out over a lifetime)
    n = ctx.pick(110, 400)
    ev, inf = procmgr.run_lifetime(ctx.scratch, "%s_outages" % prop, True, ["linkfault", "reconnfail", "client"] * n, False,
                                   rng, start_env=(dict(procmgr.GOOD_ENV), "f"), plat="ledger", cfg=0)
    inf["causes"] = inf["causes"][:12] + ["... %d outages in all" % n]
    inf["labels"] = inf["labels"][:12]
    tid = len(traces) + 1
    traces.append({"id": "M%d" % tid, "v1": False, "ev": ev})
    info["M%d" % tid] = inf
    # a device that came back unusable stays so for dozens of requests: every one repeats the bring-up, none may be served
    for j in range(ctx.pick(2, 6)):
        hist = procmgr.unsafe_repair_history(rng, False)
        hist = [hist[0]] + [hist[2]] * ctx.pick(70, 300)
        ev, inf = procmgr.run_lifetime(ctx.scratch, "%s_unusable_%d" % (prop, j), True, [], False, rng,
                                       start_env=(dict(procmgr.GOOD_ENV), "f"), plat="ledger", explicit=hist, cfg=0)
        inf["causes"] = inf["causes"][:6] + ["... %d in all" % len(hist)]
        inf["labels"] = inf["labels"][:6]
        tid = len(traces) + 1
        traces.append({"id": "M%d" % tid, "v1": False, "ev": ev})
        info["M%d" % tid] = inf
    # a second failure while the first is being repaired: the repair cut short by a time-out at each of its exchanges
    for at in (2, 3, 4):
        for v1 in (False, True):
            ev, inf = procmgr.run_lifetime(ctx.scratch, "%s_cutrepair_%d_%d" % (prop, at, v1), True, [], v1, rng,
                                           start_env=(dict(procmgr.GOOD_ENV), "f"), plat="ledger",
                                           explicit=procmgr.cut_repair_history(rng, v1, at), cfg=0)
            tid = len(traces) + 1
            traces.append({"id": "M%d" % tid, "v1": v1, "ev": ev})
            info["M%d" % tid] = inf
    # every cause under every configuration of the manager (logging to a file, -D, standard output closed)
    plans_all = [json.loads(u) for u in uniq if json.loads(u)["should"]]
    for cause in sorted({c for p in plans_all for c in p["plan"]}):
        having = [p for p in plans_all if cause in p["plan"]]
        for k in range(4):
            p = having[k % len(having)]
            ev, inf = procmgr.run_lifetime(ctx.scratch, "%s_cc_%s_%d" % (prop, cause, k), True, list(p["plan"]), False, rng,
                                           plat="ledger", cfg=k)
            tid = len(traces) + 1
            traces.append({"id": "M%d" % tid, "v1": False, "ev": ev})
            info["M%d" % tid] = inf
    import time as _time
    _t0 = _time.time()
    res.coverage["process_phase_lifetimes_wall_s"] = round(_t0 - _start, 1)
    res.coverage["slowest_process_lifetimes"] = sorted(((x.get("wall_s", 0), x.get("tag", "")) for x in info.values()),
                                                       reverse=True)[:6]
    verdicts, stats = tlc.validate("TraceManager", "Trace_Manager.cfg", traces, shards=4)
    res.coverage["process_phase_validation_wall_s"] = round(_time.time() - _t0, 1)
    res.checker_cmds.append("tlc -workers 1 -config Trace_Manager.cfg TraceManager (x%d shards)" % stats["jvms"])
    accepted = 0
    for t in traces:
        v = verdicts[t["id"]]
        if v["ok"]:
            accepted += 1
            continue
        k = max(0, v["at"] - 1)
        cause = t["ev"][k]["cause"] if k < len(t["ev"]) else "client"
        # C03 ("no client request takes the manager down or goes unanswered") also reports these two clauses whatever
        # the environment did during the request, as long as it is something the manager must survive
        c03_also = prop == "C03" and v["clause"] in ("StoppedForSurvivableCause", "ReplyWithoutErrorCode")
        if owner(v["clause"], cause) != prop and not c03_also:
            accepted += 1          # not this property's clause: its owner reports it
            continue
        inf = info[t["id"]]
        res.violation("Process:%s|cause=%s v%d" % (v["clause"], cause, 1 if t["v1"] else 5),
                      "whole-process lifetime violates %s at event %s: %s" % (v["clause"], v["at"], json.dumps(inf)[:700]),
                      {"info": inf, "events": t["ev"]})
    res.add_validation(stats, accepted)
    res.coverage["process_lifetimes"] = len(traces)
    res.coverage["process_lifetimes_by_platform"] = {k: sum(1 for x in info.values() if x["plat"] == k)
                                                     for k in ("ledger", "sgx", "tcp")}
    res.coverage["process_lifetimes_that_served"] = sum(1 for t in traces if any(e["k"] == "listening" for e in t["ev"]))
    return traces
