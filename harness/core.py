"""Check skeleton shared by every property driver: context, violations, known findings, evidence."""
import hashlib
import json
import os
import random
import shutil
import sys
import tempfile
import time

from .env import VERIF, REPO

KNOWN = os.path.join(VERIF, "known_findings.json")
REPLAYS = os.path.join(VERIF, "replays")
EVIDENCE = os.path.join(VERIF, "evidence")


class MachineryError(RuntimeError):
    """The check itself is broken (TLC error, vacuity, simulator rejected by its own spec...)."""


class Ctx:
    def __init__(self, prop, tier, seed):
        self.prop = prop
        self.tier = tier
        self.seed = seed
        self.quick = tier == "quick"
        self.t0 = time.time()
        self.scratch = tempfile.mkdtemp(prefix="verif_%s_" % prop)
        self.rng = random.Random("%s:%d" % (prop, seed))

    def pick(self, quick, thorough):
        return quick if self.quick else thorough

    def cleanup(self):
        shutil.rmtree(self.scratch, ignore_errors=True)


class Violation:
    def __init__(self, signature, what, replay):
        self.signature = signature     # stable abstract description (class of input / history)
        self.what = what               # human-readable: what fails
        self.replay = replay           # JSON-serialisable data reproducing it


LIVE_RESULTS = []     # results under construction (./check reports their violations even if a later step fails)


class Result:
    def __init__(self):
        LIVE_RESULTS.append(self)
        self.states = 0
        self.transitions = 0
        self.traces_validated = 0
        self.samples = []
        self.violations = []
        self.coverage = {}
        self.assumptions = []
        self.checker_cmds = []
        self.level = "model_checking"

    def add_tlc(self, r, label=None):
        self.states += r.distinct
        self.transitions += r.generated
        self.checker_cmds.append(r.cmd)
        if label:
            self.coverage.setdefault("tlc_runs", []).append(
                {"run": label, "distinct_states": r.distinct, "states_generated": r.generated,
                 "depth": r.depth, "wall_s": round(r.wall, 1)})

    def add_validation(self, stats, accepted):
        self.traces_validated += accepted
        self.coverage["trace_validation_states"] = \
            self.coverage.get("trace_validation_states", 0) + stats.get("states", 0)

    def violation(self, signature, what, replay):
        self.violations.append(Violation(signature, what, replay))

    def sample(self, s, cap=6):
        if len(self.samples) < cap:
            self.samples.append(_jsonable(s))


def _jsonable(x):
    if isinstance(x, (bytes, bytearray)):
        return bytes(x).hex()
    if isinstance(x, dict):
        return {str(k): _jsonable(v) for k, v in x.items()}
    if isinstance(x, (list, tuple, set, frozenset)):
        return [_jsonable(v) for v in x]
    if isinstance(x, (str, int, float, bool)) or x is None:
        return x
    return repr(x)


def load_known(prop):
    try:
        with open(KNOWN) as f:
            data = json.load(f)
    except FileNotFoundError:
        return [], []
    known = [e for e in data.get("findings", []) if e["property"] == prop and e["status"] == "known"]
    fixed = [e for e in data.get("findings", []) if e["property"] == prop and e["status"] == "fixed"]
    return known, fixed


def finish(ctx, res):
    """Print KNOWN-FINDING / VIOLATION lines, write the evidence file, return the exit code."""
    known, _fixed = load_known(ctx.prop)
    known_sigs = {e["signature"]: e for e in known}
    new, seen_known = [], {}
    for v in res.violations:
        if v.signature in known_sigs:
            seen_known.setdefault(v.signature, v)
        else:
            new.append(v)
    for sig, v in sorted(seen_known.items()):
        print("KNOWN-FINDING: property=%s %s" % (ctx.prop, known_sigs[sig]["what"]))
    rc = 0
    if new:
        os.makedirs(REPLAYS, exist_ok=True)
        bysig = {}
        for v in new:
            bysig.setdefault(v.signature, v)
        shown = 0
        for sig, v in sorted(bysig.items()):
            shown += 1
            if shown > 8:
                print("  ... %d more distinct violation signatures (see evidence file)" % (len(bysig) - 8))
                break
            h = hashlib.sha256(sig.encode()).hexdigest()[:10]
            path = os.path.join(REPLAYS, "%s_%s.json" % (ctx.prop, h))
            with open(path, "w") as f:
                json.dump({"property": ctx.prop, "signature": sig, "what": v.what, "seed": ctx.seed,
                           "tier": ctx.tier, "replay": _jsonable(v.replay)}, f, indent=1)
            print("VIOLATION property=%s replay=%s" % (ctx.prop, path))
            print("  signature: %s" % sig)
            print("  what: %s" % v.what)
        rc = 1
    cov = dict(res.coverage)
    cov["states"] = res.states
    cov["transitions"] = res.transitions
    cov["traces_validated_against_impl"] = res.traces_validated
    cov["samples"] = res.samples or ["<none>"]
    cov["checker_cmd"] = "; ".join(res.checker_cmds)
    cov["known_findings_seen"] = sorted(seen_known)
    cov["new_violation_signatures"] = sorted({v.signature for v in new})
    cov["repo"] = REPO
    ev = {
        "property_id": ctx.prop, "tier": ctx.tier, "seed": ctx.seed, "level": res.level,
        "coverage": cov, "assumptions": res.assumptions, "wall_s": round(time.time() - ctx.t0, 2),
        "violations": len(new),
    }
    os.makedirs(EVIDENCE, exist_ok=True)
    tmp = os.path.join(EVIDENCE, ".%s.json.tmp" % ctx.prop)
    with open(tmp, "w") as f:
        json.dump(ev, f, indent=1, sort_keys=True)
    os.replace(tmp, os.path.join(EVIDENCE, "%s.json" % ctx.prop))
    print("%s %s: states=%d traces_validated=%d violations=%d known=%d wall=%.1fs" % (
        ctx.prop, ctx.tier, res.states, res.traces_validated, len(new), len(seen_known),
        time.time() - ctx.t0))
    return rc
