"""C14 harness: own transaction / script parser (independent of the bitcoin.core stand-in), conversion of
transaction structures to the records of spec/UnsignProps.tla, variants differing in non-final operations."""
import struct

from . import enc


def read_varint(b, o):
    x = b[o]
    if x < 0xfd:
        return x, o + 1
    if x == 0xfd:
        return struct.unpack_from("<H", b, o + 1)[0], o + 3
    if x == 0xfe:
        return struct.unpack_from("<I", b, o + 1)[0], o + 5
    return struct.unpack_from("<Q", b, o + 1)[0], o + 9


def parse_script(s):
    ops, i = [], 0
    while i < len(s):
        b = s[i]
        i += 1
        if b == 0:
            ops.append(("op0",))
        elif b < 0x4c:
            ops.append(("push", s[i:i + b], "direct"))
            if len(s[i:i + b]) != b:
                raise ValueError("truncated push")
            i += b
        elif b in (0x4c, 0x4d, 0x4e):
            w = {0x4c: 1, 0x4d: 2, 0x4e: 4}[b]
            if i + w > len(s):
                raise ValueError("truncated length")
            n = int.from_bytes(s[i:i + w], "little")
            i += w
            d = s[i:i + n]
            if len(d) != n:
                raise ValueError("truncated push")
            ops.append(("push", d, {1: "pd1", 2: "pd2", 4: "pd4"}[w]))
            i += n
        elif b == 0x4f:
            ops.append(("neg1",))
        elif 0x51 <= b <= 0x60:
            ops.append(("small", b - 0x50))
        else:
            ops.append(("opcode", b))
    return ops


def parse_tx(raw):
    """-> (structure, keep) ; keep = the bytes that must survive: version, outpoints, sequences, outputs, lock"""
    o = 4
    n_in, o = read_varint(raw, o)
    if n_in == 0:
        raise ValueError("segwit marker / no inputs")
    ins = []
    keep = raw[:4]
    for _ in range(n_in):
        prev = raw[o:o + 36]
        o += 36
        sl, o = read_varint(raw, o)
        script = raw[o:o + sl]
        if len(script) != sl:
            raise ValueError("truncated script")
        o += sl
        seq = raw[o:o + 4]
        o += 4
        ins.append({"prev": prev, "ops": parse_script(script), "seq": seq})
        keep += prev + seq
    outs_start = o
    n_out, o = read_varint(raw, o)
    for _ in range(n_out):
        o += 8
        sl, o = read_varint(raw, o)
        o += sl
    outs = raw[outs_start:o]
    lock = raw[o:o + 4]
    if len(lock) != 4 or o + 4 != len(raw):
        raise ValueError("bad length")
    keep += outs + lock
    st = {"ver": struct.unpack("<i", raw[:4])[0], "ins": ins, "outs": outs, "lock": lock}
    return st, keep


def op_rec(op):
    k = op[0]
    if k == "push":
        return {"k": "push", "d": list(op[1]), "e": op[2]}
    if k == "small":
        return {"k": "small", "d": [op[1]], "e": "-"}
    if k == "opcode":
        return {"k": "opcode", "d": [op[1]], "e": "-"}
    return {"k": k, "d": [], "e": "-"}


def tx_rec(st):
    return {"ver": st["ver"], "ins": [{"prev": list(i["prev"]), "ops": [op_rec(o) for o in i["ops"]],
                                        "seq": list(i["seq"])} for i in st["ins"]],
            "outs": list(st["outs"]), "lock": list(st["lock"])}


def from_enc_tx(tx):
    """enc.random_tx structure -> the parse-level structure (prev = hash ++ LE32 index, raw outs...)."""
    raw = enc.tx_bytes(tx)
    st, keep = parse_tx(raw)
    # ops straight from the generator, not from parsing (the generator's structure is the ground truth)
    for i, inp in enumerate(tx["ins"]):
        st["ins"][i]["ops"] = list(inp["ops"])
    return st, keep, raw


def variant_non_final(tx, rng):
    """A copy of an enc-style transaction differing only in non-final script operations."""
    v = {"version": tx["version"], "outs": tx["outs"], "lock": tx["lock"], "ins": []}
    changed = False
    for inp in tx["ins"]:
        ops = list(inp["ops"])
        for j in range(len(ops) - 1):
            if rng.random() < 0.7:
                ops[j] = enc.random_ops(rng, 1)[0]
                changed = True
        v["ins"].append(dict(inp, ops=ops))
    return v, changed


CLASS_LEN = {0: (0, 0), 1: (1, 75), 2: (76, 255), 3: (256, 600)}


def concretise(atx, rng):
    """Abstract transaction printed by GenUnsign -> enc-style transaction with real payloads."""
    pay = {}

    def data(d):
        key = tuple(d)
        if key not in pay:
            lo, hi = CLASS_LEN[d[0]]
            n = rng.choice([lo, hi, rng.randint(lo, hi)])
            pay[key] = bytes(rng.getrandbits(8) for _ in range(n))
        return pay[key]
    prevs = {}
    ins = []
    for i in atx["ins"]:
        pk = tuple(i["prev"])
        if pk not in prevs:
            prevs[pk] = (bytes(rng.getrandbits(8) for _ in range(32)), rng.choice([0, 1, 0xffffffff]))
        ops = []
        for o in i["ops"]:
            if o["k"] == "push":
                ops.append(("push", data(o["d"]), o["e"]))
            elif o["k"] == "small":
                ops.append(("small", rng.randint(1, 16)))
            elif o["k"] == "opcode":
                ops.append(("opcode", rng.choice([0x50, 0x61, 0x76, 0xac, 0xae, 0xff])))
            else:
                ops.append((o["k"],))
        ins.append({"prev": prevs[pk][0], "n": prevs[pk][1], "ops": ops,
                    "seq": rng.choice([0xffffffff, 0, 0xfffffffe])})
    outs = [{"value": rng.getrandbits(40), "script": bytes(rng.getrandbits(8) for _ in range(rng.choice([0, 23, 25])))}
            for _ in range(rng.randint(0, 2))]
    return {"version": atx["ver"], "ins": ins, "outs": outs, "lock": rng.choice([0, 500000000, 0xffffffff])}
