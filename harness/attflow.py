"""C15 — attestation gathering -> verification, end to end, against GENUINE simulated devices.

What is here (nothing decides a property; verdicts come from TLC, spec/TraceAttestFlow.tla):

  * `LedgerDevice` / `SgxDevice`: `AdminSimDevice` + the attestation side of the firmware, with REAL keys
      Ledger   issuer(root) -> device key certificate (0x02 | header | pub65, dashboard GET_KEY)
               device key -> endorsement (attestation) key (0xFF | pub65, SETUP_ENDO / SETUP_ENDO_ACK)
               attestation key tweaked by HMAC-SHA256(key = app hash, msg = attestation pub65):
                 UI message      "HSM:UI:<v>" | ud32 | compressed btc key | authorised signer hash | iteration BE16
                 signer message  "POWHSM:<v>::" | "led" | ud32 | pubkeys hash | best block | last tx 8 | timestamp BE64
                 legacy signer   "HSM:SIGNER:<v>" | pubkeys hash     (answered raw, no page flag, no envelope)
               (docs/attestation.md; firmware/src/ledger/ui/src/attestation.c; firmware/src/powhsm/src/
               attestation.c: pages = [more, <= pagesize bytes])
      SGX      root -> platform CA -> PCK leaf (X.509, P-256, `cryptography`) -> QE report body binding
               SHA-256(att key x|y | QE auth data) -> quote signed by the attestation key, report data =
               SHA-256(custom message); envelope = quote(432) | sig_len LE32 | sig r,s | key x,y | QE report
               body(384) | QE sig r,s | auth size LE16 | auth | cert type LE16 | cert size LE32 | PEMs | message
               (firmware/src/hal/sgx/src/trusted/endorsement.c)
  * `Alteration`: ONE altered thing (a byte of a signed field / signature / certificate, in the device's
    buffer or in one transmitted page; or the root of trust handed to the verifier).
  * `run_case(case, scratch)`: do_onboard -> do_attestation -> do_verify_attestation (Ledger) or
    do_attestation -> do_verify_attestation (SGX) of the repository, on real files, then load -> save ->
    verify again; returns the observation record judged by TLC.
  * projections: stdout of the verify commands -> printed values; JSON certificate -> flat rows.
  * the network (harness/fakehttp.py): the UD value typed or served by a scripted Rootstock node
    (proper / chain grew / reorg between the two calls / 14 misbehaviours), the SGX root of trust from a
    file or a URL (right PEM, another root, altered PEM, 404, garbage); every request is recorded.

Oracle side (expected printed values) comes from the simulator's structured ground truth (`truth()`),
never from repository code."""
import hashlib
import json
import os
import random
import re
import traceback
from types import SimpleNamespace

from . import certv1, certv2, env, fakehttp
from .simdev import CLA, MODE_BOOT, MODE_SIGNER, PATHS, path_bytes
from .simdev_admin import AdminSimDevice, compress
from .transport import World
from .admin_ops import Operator, Patched, Randomness

SORTED_PATHS = sorted(PATHS.values())          # lexicographic order of the derivation paths
BTC_PATH = "m/44'/0'/0'/0/0"
MAX_UI_PAGES = 4

# message layouts (docs/attestation.md); "ver" of the powHSM message includes the "::" separator
UI_FIELDS = (("hdr", 7), ("ver", 3), ("ud", 32), ("pub", 33), ("shash", 32), ("iter", 2))
SG_FIELDS = (("hdr", 7), ("ver", 5), ("plat", 3), ("ud", 32), ("pkh", 32), ("best", 32), ("ltx", 8),
             ("ts", 8))
LG_FIELDS = (("hdr", 11), ("ver", 3), ("pkh", 32))
UI_LEN, SG_LEN, LG_LEN = 109, 127, 46

ERR_ATT_PROT_INVALID = 0x6B00      # firmware/src/powhsm/src/err.h (attestation protocol error)
ERR_UI_PROT_INVALID = 0x6A01


def spans(fields, total):
    """{field: (start, end)} for a message laid out as `fields`."""
    out, off = {}, 0
    for name, n in fields:
        out[name] = (off, off + n)
        off += n
    assert off == total, (off, total)
    return out


# both firmwares: APDU buffer of 85 bytes - 3 (CLA, CMD, OP) - 2 (status word) - 1 (more flag)
FW_PAGESIZE = 79


def pagesize_for(total, pages, rng):
    """A page size that cuts `total` bytes into exactly `pages` pages (seeded member of the range)."""
    if pages <= 1:
        return rng.choice((total, total + 1, 255))
    lo = -(-total // pages)                      # ceil(total / pages)
    hi = -(-total // (pages - 1)) - 1            # largest size still needing `pages` pages
    hi = min(hi, total - 1)
    assert lo <= hi, (total, pages, lo, hi)
    if lo <= FW_PAGESIZE <= hi and rng.random() < 0.5:
        return FW_PAGESIZE
    return rng.choice((lo, hi, rng.randint(lo, hi)))


def cut(buf, size):
    return [buf[i:i + size] for i in range(0, len(buf), size)] or [b""]


# ------------------------------------------------------------------------------------------------
# contents of the free fields (UD value, hashes, block hash, ...): boundary-first inside the class
# ------------------------------------------------------------------------------------------------
# Every such field sits right after a parsed header / version / fixed-size field and right before
# another one.  A legitimate value may look like a continuation of its neighbours: ASCII digits after
# a version number, '.' / ':' after a header, the headers' own characters, line breaks, all-zero or
# all-one bytes.  `content(rng, n, profile)` gives n such bytes.
PROFILES = ("random", "digits", "digit1", "punct", "header", "newline", "zeros", "ones", "alnum")
_HEADERS = (b"HSM:UI:5.4", b"POWHSM:5.4::", b"HSM:SIGNER:5.4", b"led", b"sgx", b"::", b"5.4", b"HSM:",
            b"-----END CERTIFICATE-----\n")


def content(rng, n, profile):
    if n == 0:
        return b""
    if profile == "digits":               # ASCII digits throughout
        b = bytes(rng.choice(b"0123456789") for _ in range(n))
    elif profile == "digit1":             # one / a few leading ASCII digits, then anything
        k = rng.choice((1, 1, 2, 3))
        b = bytes(rng.choice(b"0123456789") for _ in range(k)) + rng.randbytes(n)
    elif profile == "punct":
        b = rng.choice((b".", b":", b"::", b".7", b":5.4", b",", b"-", b" ")) + rng.randbytes(n)
    elif profile == "header":
        b = rng.choice(_HEADERS) + rng.randbytes(n)
    elif profile == "newline":
        b = rng.choice((b"\n", b"\r\n", b"\r", b"\x00\n", b"9\n")) + rng.randbytes(n)
    elif profile == "zeros":
        b = bytes(n)
    elif profile == "ones":
        b = b"\xff" * n
    elif profile == "alnum":
        b = bytes(rng.choice(b"0123456789abcdefABCDEFxX.:") for _ in range(n))
    else:
        b = rng.randbytes(n)
    return b[:n]


def grind_keys(dev, rng, profile, tries=4000):
    """Re-draw the wallet keys until the public keys hash (a field nobody can choose directly) starts
    like the profile asks: an ASCII digit / '.' or ':' / a line break."""
    want = {"digits": b"0123456789", "digit1": b"0123456789", "alnum": b"0123456789", "punct": b".:,- ",
            "newline": b"\n\r", "header": b"HPls:5"}.get(profile)
    if want is None:
        return False
    from .simdev_admin import pub_uncompressed, N as _N
    from .simdev import PATH_BYTES
    pbs = [PATH_BYTES[k] for k in sorted(PATH_BYTES)]
    last = pbs[-1]
    for _ in range(tries):
        k = rng.randrange(1, _N)
        dev.key_scalars[last] = k
        dev.keys[last] = pub_uncompressed(k)
        if pubkeys_hash({p: dev.keys[path_bytes(p)] for p in SORTED_PATHS})[0] in want:
            return True
    return False


# ------------------------------------------------------------------------------------------------
# the SHAPE of the digests the verifier compares (or turns into a key)
# ------------------------------------------------------------------------------------------------
# Sites:  cm      SHA-256(custom message), first half of the quote's report data          (SGX)
#         ak      SHA-256(attestation key x|y | QE auth data), QE report data              (SGX)
#         pkh     the public-keys hash inside the powHSM / legacy signer message           (both)
#         tw_ui, tw_sg   HMAC-SHA256(app hash, attestation key): the tweak of the UI /
#                 signer endorsement key                                                   (Ledger)
#         ui_hash, s_hash   the app hashes themselves (tweak inputs, printed values)       (Ledger)
# Classes of a 32-byte value: z2 (last two bytes 0x00), z1 (last byte 0x00), sp (ends in a blank),
# nl (ends in a line feed), lz (first byte 0x00), ord (anything else).  A genuine device reaches
# every class: the simulators GRIND a free input (the timestamp of the custom message, the QE auth
# data bytes, a wallet key, the app hash) with the case's seeded generator until the digest has the
# class asked for (256 tries; 65 536 for z2 - the wallet keys for pkh:z2 are tabulated).
DIGEST_CLASSES = ("z1", "z2", "lz", "sp", "nl")
DIGEST_SITES = {"ledger": ("pkh", "tw_ui", "tw_sg", "ui_hash", "s_hash"), "sgx": ("cm", "ak", "pkh")}
# wallet key scalars (sorted path order) whose keys hash ends in 0x00 0x00: five fixed ones,
# sha256("c15-pkh-<i>") mod n, and a sixth found by search (three alternatives)
PKH_Z2_LAST = (0x76537aaaf3922f9cd5e4a06dcae138503d1c4fffbc5a6172db90a21d10cfa718,
               0x9fd49fa6650eb278c38490bf9f462e9b41506c9859dddf123622af3c826dbd28,
               0xd3cab77428e5774369dcff4b2b971f1d0746e57a308e0b0dad0c6d122721c57b)


def digest_class(b):
    if b[-2:] == b"\x00\x00":
        return "z2"
    if b[-1] == 0:
        return "z1"
    if b[-1] == 0x20:
        return "sp"
    if b[-1] == 0x0a:
        return "nl"
    return "lz" if b[0] == 0 else "ord"


def force_class(rng, cls, n=32):
    """A free n-byte value of the class."""
    b = bytearray(rng.randrange(1, 256) for _ in range(n))
    b[0] = b[0] if b[0] else 1
    if b[-1] in (0, 0x20, 0x0a):
        b[-1] = 0x55
    if cls == "z1":
        b[-1] = 0
    elif cls == "z2":
        b[-1] = b[-2] = 0
    elif cls == "sp":
        b[-1] = 0x20
    elif cls == "nl":
        b[-1] = 0x0a
    elif cls == "lz":
        b[0] = 0
    assert digest_class(bytes(b)) == cls or cls == "ord"
    return bytes(b)


def grind(rng, cls, make, digest, limit=3000000):
    """Draw free inputs with make(rng) until digest(input) has the class; returns the input."""
    for _ in range(limit):
        x = make(rng)
        if digest_class(digest(x)) == cls:
            return x
    raise AssertionError("no input gives a digest of class %s" % cls)


def grind_pkh(dev, rng, cls):
    """Wallet keys whose public-keys hash has the class (the last key, in path order, is re-drawn;
    z2: tabulated key set)."""
    from .simdev_admin import pub_uncompressed, N as _N
    pbs = [path_bytes(p) for p in SORTED_PATHS]
    if cls == "z2":
        ks = [int.from_bytes(hashlib.sha256(b"c15-pkh-%d" % i).digest(), "big") % _N for i in range(5)]
        ks.append(PKH_Z2_LAST[rng.randrange(len(PKH_Z2_LAST))])
        for pb, k in zip(pbs, ks):
            dev.key_scalars[pb] = k
            dev.keys[pb] = pub_uncompressed(k)
        return
    h0 = hashlib.sha256()
    for pb in pbs[:-1]:
        h0.update(dev.keys[pb])

    def dg(k):
        h = h0.copy()
        h.update(pub_uncompressed(k))
        return h.digest()
    k = grind(rng, cls, lambda r: r.randrange(1, _N), dg)
    dev.key_scalars[pbs[-1]] = k
    dev.keys[pbs[-1]] = pub_uncompressed(k)


def digest_for(case, site):
    d = case.get("digest")
    return d["cls"] if d and d.get("site") == site and d.get("cls", "ord") != "ord" else None


# ------------------------------------------------------------------------------------------------
# the SHAPE of the signatures a genuine device produces
# ------------------------------------------------------------------------------------------------
# An ECDSA signature is a pair (r, s) of integers below the group order; how long they are decides
# how they are encoded (DER: minimal two's-complement integers; SGX: fixed 32-byte fields).  Class of
# one component, by its 32-byte big-endian form:
#   h32   first byte >= 0x80         (DER: 33 bytes, a 0x00 sign byte is prepended)
#   l32   first byte 0x01..0x7f      (DER: 32 bytes)
#   b31h  0x00 then a byte >= 0x80   (31-byte value with its high bit set; DER: 0x00 + 31 bytes)
#   b31l  0x00 then 0x01..0x7f       (31-byte value; DER: 31 bytes - the leading zero MUST go)
#   b30   0x00 0x00 ...              (30 bytes or fewer)
# s >= 2^255 (h32) is a "high-s" signature, everything else "low-s" (n/2 is 2^255 minus a little on
# both curves).  A shape is "<r class>/<s class>", "any" = whatever the nonce gives.
# The simulators GRIND: they re-sign with fresh nonces, drawn from the case's seeded generator, until
# the requested shape comes out (about 4 tries for a 32/32 class, 512 for a 31-byte one; nonces whose
# r has <= 30 bytes cost 65 536 tries and are tabulated below - r does not depend on key or message).
SECP_N = certv1.N
P256_N = 0xFFFFFFFF00000000FFFFFFFFFFFFFFFFBCE6FAADA7179E84F3B9CAC2FC632551
B30_NONCES = {
    "secp256k1": (0xb1914690b2be59b66d21cabea340d5e57b097cc21d2991826a7225f75a1c3958,
                  0xf588b85ca17258b3363c523521e5e32ec934abd990e49b1cc647c7d52ef9971d,
                  0xe2e1c4de770e31c3b57a47a7cc8552292e02ab68fe62f10d6a03db79d2835f56,
                  0x7b15ca1dfa27fec7b244fdd6a1b8f004dff7cf3ed7416f1b2627be26e1a2b740),
    "p256": (0x7d3d26d16d1ea735e9a8c49032b3bd695be8beffbf1cb0b941f006664781bdc6,
             0x31f2752aab40f9ff2a738f7fc74d3b1aaa72dffbae191eb30d86de12034fd332,
             0x74853f717f0cae6b1228c83669e14239cc795e41bab122847edb019eeef52108,
             0x2ef2330cc2ad7f8825708bb5c27d4ca0c26325319a92e249d3017cc70abb1c42),
}
# every class of the dimension; secp256k1 (Ledger) signatures are low-s only: libsecp256k1, which
# the verifier uses, rejects high-s by design and BOLOS normalises what the device signs
SHAPES_P256 = ("h32/h32", "l32/l32", "h32/l32", "l32/h32", "b31l/any", "b31h/any", "any/b31l", "any/b31h",
               "b30/any")
SHAPES_SECP = ("h32/l32", "l32/l32", "b31l/any", "b31h/any", "any/b31l", "any/b31h", "b30/any")
SIG_SITES = {"ledger": ("dc", "en", "ui", "sg", "all"), "sgx": ("q_sig", "qe_sig", "pck", "pca", "root", "all")}


def comp_class(v):
    b = v.to_bytes(32, "big")
    if b[0] >= 0x80:
        return "h32"
    if b[0]:
        return "l32"
    if b[1] >= 0x80:
        return "b31h"
    return "b31l" if b[1] else "b30"


def _point_x(curve, k):
    if curve == "secp256k1":
        import secp256k1
        return int.from_bytes(secp256k1.PrivateKey(k.to_bytes(32, "big"), raw=True).pubkey.serialize(
            compressed=True)[1:], "big")
    from cryptography.hazmat.primitives.asymmetric import ec
    return ec.derive_private_key(k, ec.SECP256R1()).public_key().public_numbers().x


def der_int(v):
    b = v.to_bytes((v.bit_length() + 7) // 8 or 1, "big")
    if b[0] & 0x80:
        b = b"\x00" + b
    return b"\x02" + bytes([len(b)]) + b


def der_ecdsa(r, s):
    body = der_int(r) + der_int(s)
    return b"\x30" + bytes([len(body)]) + body


def sign_shaped(curve, d, message, shape, rng, low_s_only=False, limit=400000):
    """ECDSA over SHA-256(message) by the private scalar d whose (r, s) has the requested shape.
    Returns (r, s, tries). Own arithmetic: r = x(kG) mod n, s = (z + r d) / k mod n."""
    n = SECP_N if curve == "secp256k1" else P256_N
    rc, sc = shape.split("/")
    z = int.from_bytes(hashlib.sha256(message).digest(), "big")
    table = list(B30_NONCES[curve]) if rc == "b30" else None
    tries = 0
    while tries < limit:
        tries += 1
        if table is not None:
            k = table[rng.randrange(len(table))]
        else:
            k = rng.randrange(1, n)
        r = _point_x(curve, k) % n
        if r == 0 or (rc != "any" and comp_class(r) != rc):
            if table is not None:
                raise AssertionError("tabulated nonce does not give a short r")
            continue
        s = (z + r * d) * pow(k, -1, n) % n
        if s == 0:
            continue
        # (r, s) and (r, n - s) both verify: keep the one(s) the class allows
        cands = [s, n - s]
        if low_s_only:
            cands = [c for c in cands if comp_class(c) != "h32"]
        if sc != "any":
            cands = [c for c in cands if comp_class(c) == sc]
        if not cands:
            continue
        return r, cands[0], tries
    raise AssertionError("no signature of shape %s after %d tries" % (shape, tries))


COMPS = ("h32", "l32", "b31l", "b31h", "b30")
# the quote signature (the one the enclave also hands out DER-encoded, see fw_der_encode_signature):
# every class of r with every class of s
SHAPES_QUOTE = tuple("%s/%s" % (a, b) for a in COMPS for b in COMPS)


def nonce_for(curve, rc, rng):
    """A nonce k whose r = x(kG) mod n has class rc (tabulated for b30); returns (k, r)."""
    n = SECP_N if curve == "secp256k1" else P256_N
    while True:
        k = B30_NONCES[curve][rng.randrange(len(B30_NONCES[curve]))] if rc == "b30" else rng.randrange(1, n)
        r = _point_x(curve, k) % n
        if r and (rc == "any" or comp_class(r) == rc):
            return k, r


def sign_grinding_message(curve, d, make_message, shape, rng, limit=3000000):
    """A signature of shape `shape` by d over a message with a FREE field: the nonce is fixed first
    (it decides r), then make_message(rng) is re-drawn until s (or n - s) has its class - two leading
    zero bytes of s cost 65 536 hashes, not 65 536 point multiplications.
    Returns (message, r, s)."""
    n = SECP_N if curve == "secp256k1" else P256_N
    rc, sc = shape.split("/")
    k, r = nonce_for(curve, rc, rng)
    kinv, rd = pow(k, -1, n), r * d % n
    for _ in range(limit):
        msg = make_message(rng)
        z = int.from_bytes(hashlib.sha256(msg).digest(), "big")
        s0 = (z + rd) * kinv % n
        for c in (s0, n - s0):
            if c and (sc == "any" or comp_class(c) == sc):
                return msg, r, c
    raise AssertionError("no message gives a signature of shape %s" % shape)


def fw_der_encode_uint(src):
    """Port of der_encode_uint() of firmware/src/hal/sgx/src/trusted/der_utils.c, quirk included: the
    0x00 sign byte is decided from the FIRST byte of the 32-byte field, before the leading zero bytes
    are trimmed - so 00 8x ... comes out as a 31-byte integer WITHOUT sign byte."""
    lz = bool(src[0] & 0x80)
    trim = 0
    while not src[trim] and trim < len(src) - 1:
        trim += 1
    body = (b"\x00" if lz else b"") + bytes(src[trim:])
    return b"\x02" + bytes([len(body)]) + body


def fw_der_encode_signature(rs):
    """Port of der_encode_signature(): what the SGX enclave answers to ATTESTATION / OP_GET."""
    r, s = fw_der_encode_uint(rs[:32]), fw_der_encode_uint(rs[32:64])
    return b"\x30" + bytes([len(r) + len(s)]) + r + s


def shape_of_der(sig):
    """'<r class>/<s class>' of a DER ECDSA signature (own decoder; diagnostics and coverage)."""
    try:
        lr = sig[3]
        r = int.from_bytes(sig[4:4 + lr], "big")
        ls = sig[5 + lr]
        s = int.from_bytes(sig[6 + lr:6 + lr + ls], "big")
        return "%s/%s" % (comp_class(r), comp_class(s))
    except (IndexError, OverflowError):
        return "?"


def shape_for(case, site):
    """The shape the case asks of the signature at `site` (None: whatever the nonce gives)."""
    sh = case.get("sigshape")
    if not sh or sh.get("cls", "any") == "any" or sh["site"] not in (site, "all"):
        return None
    return sh["cls"]


def resign_x509(der, issuer_d, shape, rng):
    """The same certificate with its signature replaced by one of the requested shape."""
    reg = certv2.der_regions(der)
    tbs = der[reg["tbs"][0]:reg["tbs"][1]]
    r, s, _t = sign_shaped("p256", issuer_d, tbs, shape, rng)
    sig = der_ecdsa(r, s)
    bits = b"\x00" + sig
    body = der[reg["tbs"][0]:reg["sigalg"][1]] + b"\x03" + _der_len(len(bits)) + bits
    return b"\x30" + _der_len(len(body)) + body


def _der_len(n):
    if n < 0x80:
        return bytes([n])
    nb = n.to_bytes((n.bit_length() + 7) // 8, "big")
    return bytes([0x80 | len(nb)]) + nb


# ------------------------------------------------------------------------------------------------
# the one altered thing
# ------------------------------------------------------------------------------------------------
class Alteration:
    """site: where (see SITES_*); field: which field of a message (or None); page: which transmitted
    page (1-based, or None); off: byte offset inside the field / page / blob; mask: XOR mask 1..255."""

    def __init__(self, d=None):
        d = d or {"site": "none"}
        self.site = d.get("site", "none")
        self.field = d.get("field")
        self.page = d.get("page")
        self.off = d.get("off", 0)
        self.mask = d.get("mask", 1)
        self.how = d.get("how")
        self.applied = []          # what was actually flipped (diagnostics / coverage)

    def flip(self, data, site, field=None, lo=0, hi=None, ranges=None):
        """data with one byte of [lo, hi) (or of the union of `ranges`) XOR-ed when this alteration
        targets (site, field); the byte is the (off mod size)-th candidate."""
        if self.site != site or (field is not None and self.field != field):
            return data
        if ranges is None:
            ranges = [(lo, len(data) if hi is None else hi)]
        cand = [i for (a, z) in ranges for i in range(a, z)]
        if not cand:
            return data
        pos = cand[self.off % len(cand)]
        b = bytearray(data)
        b[pos] ^= self.mask
        self.applied.append({"site": site, "field": field, "pos": pos, "len": len(data)})
        return bytes(b)


# ------------------------------------------------------------------------------------------------
# ground truth shared by both platforms
# ------------------------------------------------------------------------------------------------
def _ver(rng, majors="2345"):
    return "%s.%s" % (rng.choice(majors), rng.choice("0123456789"))


def pubkeys_hash(keys65_by_path):
    """docs/attestation.md: SHA-256 of the uncompressed keys, lexicographic order of the paths."""
    h = hashlib.sha256()
    for p in SORTED_PATHS:
        h.update(keys65_by_path[p])
    return h.digest()


class _Paged:
    """[more, bytes] paging of a buffer as both firmwares do it."""

    def __init__(self, buf, size):
        self.pages = cut(buf, size)

    def answer(self, page):
        if page >= len(self.pages):
            return None
        return bytes([1 if page < len(self.pages) - 1 else 0]) + self.pages[page]


# ------------------------------------------------------------------------------------------------
# Ledger
# ------------------------------------------------------------------------------------------------
class LedgerDevice(AdminSimDevice):
    def __init__(self, case):
        super().__init__(platform="ledger", mode=MODE_BOOT, seed=case["devseed"])
        rng = random.Random("c15-ledger:%d" % case["devseed"])
        self.case = case
        self.alt = Alteration(case.get("alt"))
        self.backend = case.get("backend", "libsecp")
        self.onboarded = False
        self.root = certv1.new_key(rng)
        self.other_root = certv1.new_key(rng)
        self.devkey = certv1.new_key(rng)
        self.attkey = certv1.new_key(rng)
        prof = case.get("content", "random")
        self.cert_header = content(rng, rng.choice((1, 9, 9, 17, 40)), prof)
        self.ui_hash = content(rng, 32, prof)
        self.signer_hash = content(rng, 32, prof)
        self.iteration = rng.choice((0, 1, 1, 2, 255, 256, 65535, rng.randrange(65536)))
        self.ui_ver = _ver(rng)
        self.legacy = case["framing"] == "legacy"
        self.s_ver = _ver(rng) if self.legacy else "5.%s" % rng.choice("0123456789")
        self.best_block = content(rng, 32, prof)
        self.last_tx = content(rng, 8, prof)
        self.timestamp = rng.choice((0, 0, 0, 1, rng.getrandbits(40), (1 << 63) + rng.getrandbits(20)))
        if prof != "random":
            self.timestamp = int.from_bytes(content(rng, 8, prof), "big")
        if case.get("grind_pkh"):
            grind_keys(self, rng, prof)
        drng = random.Random("c15-digest:%d" % case["devseed"])
        if digest_for(case, "pkh"):
            grind_pkh(self, drng, digest_for(case, "pkh"))
        if digest_for(case, "ui_hash"):
            self.ui_hash = force_class(drng, digest_for(case, "ui_hash"))
        if digest_for(case, "s_hash"):
            self.signer_hash = force_class(drng, digest_for(case, "s_hash"))
        if digest_for(case, "tw_ui"):
            self.ui_hash = grind(drng, digest_for(case, "tw_ui"), lambda r: r.randbytes(32), self.tweak_of)
        if digest_for(case, "tw_sg"):
            self.signer_hash = grind(drng, digest_for(case, "tw_sg"), lambda r: r.randbytes(32), self.tweak_of)
        self.endo_set = False
        self.endo_acked = False
        self.shape_rng = random.Random("c15-shape:%d" % case["devseed"])
        self.sig_shapes = {}       # site -> measured '<r class>/<s class>' of what was signed
        self.hs = 0                # handshake stage of the dashboard session
        self.ui_att = None         # {"msg", "pages", "ready"}
        self.sg_att = None
        self.att_log = []
        self.ud_seen = []          # every UD value the host handed over (UI, then signer)

    # ---- ground truth (what a verifier must end up printing)
    def keys65(self):
        return {p: self.keys[path_bytes(p)] for p in SORTED_PATHS}

    def truth(self, ud):
        k = self.keys65()
        t = {"plat": "ledger", "framing": self.case["framing"], "ud": ud.hex(),
             "btc_c": compress(k[BTC_PATH]).hex(), "auth_hash": self.signer_hash.hex(),
             "iter": str(self.iteration), "ui_hash": self.ui_hash.hex(), "ui_ver": self.ui_ver,
             "keys": [[p, compress(k[p]).hex()] for p in SORTED_PATHS],
             "pkhash": pubkeys_hash(k).hex(), "signer_hash": self.signer_hash.hex(),
             "s_ver": self.s_ver, "platform": "led", "best": self.best_block.hex(),
             "ltx": self.last_tx.hex(), "ts": str(self.timestamp), "mrenclave": "", "mrsigner": ""}
        return t

    # ---- messages
    def ui_message(self, ud):
        return b"HSM:UI:" + self.ui_ver.encode() + ud + compress(self.keys65()[BTC_PATH]) + \
            self.signer_hash + self.iteration.to_bytes(2, "big")

    def signer_message(self, ud):
        if self.legacy:
            return b"HSM:SIGNER:" + self.s_ver.encode() + pubkeys_hash(self.keys65())
        return b"POWHSM:" + self.s_ver.encode() + b"::" + b"led" + ud + pubkeys_hash(self.keys65()) + \
            self.best_block + self.last_tx + self.timestamp.to_bytes(8, "big")

    def tweak_of(self, app_hash):
        """HMAC-SHA256(key = app hash, msg = uncompressed attestation key): the endorsement tweak."""
        import hmac
        return hmac.new(app_hash, self.attkey.pub65, hashlib.sha256).digest()

    def digests(self, ud):
        return {"pkh": digest_class(pubkeys_hash(self.keys65())), "ui_hash": digest_class(self.ui_hash),
                "s_hash": digest_class(self.signer_hash), "tw_ui": digest_class(self.tweak_of(self.ui_hash)),
                "tw_sg": digest_class(self.tweak_of(self.signer_hash))}

    def _sign(self, key, msg, site):
        """DER signature by a secp256k1 key; ground to the case's shape when this site is the one."""
        shape = shape_for(self.case, site)
        if shape is None:
            sig = key.sign(msg, self.backend)
        else:
            r, s, _t = sign_shaped("secp256k1", key.d, msg, shape, self.shape_rng, low_s_only=True)
            sig = der_ecdsa(r, s)
        self.sig_shapes[site] = shape_of_der(sig)
        return sig

    def _endorse(self, app_hash, msg, site):
        return self._sign(self.attkey.tweaked(app_hash), msg, site)

    # ---- dispatcher
    def _handle_admin(self, apdu):
        if len(apdu) >= 3 and apdu[0] == CLA and apdu[1] == 0x50 and not self.onboard_performed:
            if self.mode == MODE_BOOT:
                return self._ui_att(apdu[2], bytes(apdu[3:]))
            if self.mode == MODE_SIGNER:
                return self._signer_att(apdu[2], bytes(apdu[3:]))
        return super()._handle_admin(apdu)

    # ---- dashboard (CLA 0xE0), genuine
    def _dashboard(self, cmd, data):
        self.admin_log.append((cmd, bytes(data)))
        if not (self.onboarded and self.unlocked) or self.mode != MODE_BOOT:
            return 0x6982, b""
        a = self.alt
        # the secure-channel handshake comes first, in order (ledgerblue endorsementSetup / loader)
        if cmd == 0x04:
            if len(data) != 7 or data[2] != 4:
                return 0x6700, b""
            self.hs = 1
            return 0x9000, b""
        if cmd == 0x50:
            if self.hs < 1 or len(data) != 11 or data[2] != 8:
                return 0x6985, b""
            self.hs = 2
            return 0x9000, self.rnd.bytes(4) + self.rnd.bytes(8)
        if cmd == 0x51:
            want = {0x00: 2, 0x80: 3}.get(data[0] if data else -1)
            body = bytes(data[3:])
            ok = want is not None and self.hs == want and len(data) >= 3 and data[2] == len(body) and \
                len(body) >= 2 and body[0] == 65 and len(body) == 1 + 65 + 1 + body[66] and body[1] == 4
            if not ok:
                return 0x6985, b""
            self.hs = want + 1
            return 0x9000, b""
        if self.hs < 4:
            return 0x6985, b""
        if cmd == 0x52:
            if len(data) >= 1 and data[0] == 0x80:       # the session's ephemeral key (ignored by the host)
                eph = certv1.Key(int.from_bytes(self.rnd.bytes(32), "big") % (certv1.N - 1) + 1)
                hdr = self.rnd.bytes(9)
                sig = self.devkey.sign(bytes([0x11]) + hdr + eph.pub65, self.backend)
                return 0x9000, bytes([len(hdr)]) + hdr + bytes([65]) + eph.pub65 + bytes([len(sig)]) + sig
            hdr, pub = self.cert_header, self.devkey.pub65
            sig = self._sign(self.root, bytes([0x02]) + hdr + pub, "dc")
            hdr = a.flip(hdr, "dc_hdr")
            pub = a.flip(pub, "dc_key")
            sig = a.flip(sig, "dc_sig")
            return 0x9000, bytes([len(hdr)]) + hdr + bytes([len(pub)]) + pub + bytes([len(sig)]) + sig
        if cmd == 0xC0:
            if len(data) < 1 or data[0] != 2:            # the UI's attestation needs scheme two
                return 0x6A80, b""
            pub = self.attkey.pub65
            sig = self._sign(self.devkey, bytes([0xFF]) + pub, "en")
            self.endo_set = True
            return 0x9000, a.flip(pub, "en_key") + a.flip(sig, "en_sig")
        if cmd == 0xC2:
            if not self.endo_set:
                return 0x6985, b""
            self.endo_acked = True
            return 0x9000, b""
        return 0x6D00, b""

    # ---- UI attestation (firmware/src/ledger/ui/src/attestation.c)
    def _ui_att(self, op, data):
        H = bytes([CLA, 0x50, op])
        a = self.alt
        self.att_log.append(("ui", op, len(data)))
        if op == 0x01:
            self.ud_seen.append(bytes(data))
        if not self.onboarded:
            return 0x6A02, b""                           # ATT_NO_ONBOARD
        if op == 0x04:
            return 0x9000, H + a.flip(self.ui_hash, "ui_hash")
        if op == 0x01:
            if self.ui_att is not None or len(data) != 32:
                self.ui_att = None
                return ERR_UI_PROT_INVALID, b""
            if not self.endo_acked:
                return 0x6A04, b""                       # no attestation key was ever set up
            msg = self.ui_message(data)
            sig = self._endorse(self.ui_hash, msg, "ui")
            sp = spans(UI_FIELDS, len(msg))
            buf = msg
            if a.site == "ui_fld":
                buf = a.flip(msg, "ui_fld", a.field, *sp[a.field])
            self.ui_att = {"msg": msg, "sig": sig, "paged": _Paged(buf, self.case["ui_pagesize"])}
            return 0x9000, H
        if self.ui_att is None:
            return ERR_UI_PROT_INVALID, b""
        if op == 0x02:
            if len(data) != 1:
                return ERR_UI_PROT_INVALID, b""
            ans = self.ui_att["paged"].answer(data[0])
            if ans is None:
                return ERR_UI_PROT_INVALID, b""
            if a.site == "ui_page" and a.page == data[0] + 1:
                ans = ans[:1] + a.flip(ans[1:], "ui_page")
            return 0x9000, H + ans
        if op == 0x03:
            sig = self.ui_att["sig"]
            self.ui_att = None
            return 0x9000, H + a.flip(sig, "ui_sig")
        self.ui_att = None
        return ERR_UI_PROT_INVALID, b""

    # ---- signer attestation (firmware/src/powhsm/src/attestation.c; legacy firmware: raw message)
    def _signer_att(self, op, data):
        H = bytes([CLA, 0x50, op])
        a = self.alt
        self.att_log.append(("signer", op, len(data)))
        if op == 0x01:
            self.ud_seen.append(bytes(data))
        if op == 0x01:
            if len(data) != 32:
                self.sg_att = None
                return ERR_ATT_PROT_INVALID, b""
            msg = self.signer_message(data)
            sig = self._endorse(self.signer_hash, msg, "sg")
            buf = msg
            if a.site == "s_fld":
                sp = spans(LG_FIELDS if self.legacy else SG_FIELDS, len(msg))
                buf = a.flip(msg, "s_fld", a.field, *sp[a.field])
            self.sg_att = {"msg": msg, "sig": sig, "buf": buf,
                           "paged": _Paged(buf, self.case["s_pagesize"])}
            return 0x9000, H + a.flip(sig, "s_sig")
        if self.sg_att is None:
            return ERR_ATT_PROT_INVALID, b""
        if op in (0x02, 0x04):
            if self.legacy:
                if op == 0x04:
                    return ERR_ATT_PROT_INVALID, b""     # legacy firmware knows no envelope
                ans = self.sg_att["buf"]
                if a.site == "s_mpage" and a.page == (data[0] + 1 if data else 1):
                    ans = a.flip(ans, "s_mpage", None, 11, len(ans))   # (the prefix is field "hdr")
                return 0x9000, H + ans
            if len(data) != 1:
                return ERR_ATT_PROT_INVALID, b""
            ans = self.sg_att["paged"].answer(data[0])
            if ans is None:
                return ERR_ATT_PROT_INVALID, b""
            site = "s_mpage" if op == 0x02 else "s_epage"
            if a.site == site and a.page == data[0] + 1:
                ans = ans[:1] + a.flip(ans[1:], site)
            return 0x9000, H + ans
        if op == 0x03:
            return 0x9000, H + a.flip(self.signer_hash, "s_hash")
        return ERR_ATT_PROT_INVALID, b""

    def set_state(self, st):
        """The blockchain state the device holds: an earlier one (first run of a history) or, with
        None, the one it was created with (it has moved on)."""
        if st is None:
            self.best_block, self.last_tx, self.timestamp = self._final_state
        else:
            if not hasattr(self, "_final_state"):
                self._final_state = (self.best_block, self.last_tx, self.timestamp)
            self.best_block, self.last_tx = bytes.fromhex(st["best"]), bytes.fromhex(st["ltx"])
            self.timestamp = st["ts"]

    def replug(self):
        """The operator disconnects and re-connects the device: fresh boot, locked, bootloader."""
        self.mode = MODE_BOOT
        self.unlocked = False
        self.hs = 0
        self.onboard_performed = False
        self.pinbuf = bytearray(len(self.pinbuf))
        self.ui_att = None
        self.sg_att = None


# ------------------------------------------------------------------------------------------------
# SGX
# ------------------------------------------------------------------------------------------------
QB = certv2.QUOTE_HEADER.size                 # 48: offset of the report body inside the quote
RB = certv2.REPORT_BODY
ENV_AUTH = 64 + 64 + 384 + 64                 # sgx_quote_auth_data_t


class DetKey(certv2.Key):
    """A P-256 key derived from the seeded generator (certv2.Key draws from the OS)."""

    def __init__(self, rng):
        from cryptography.hazmat.primitives.asymmetric import ec
        self.curve = "P256"
        self.d = rng.randrange(1, P256_N)
        self.priv = ec.derive_private_key(self.d, ec.SECP256R1())

    def sign_shape(self, message, shape, rng):
        """DER signature of the requested shape (None: RFC 6979, whatever comes)."""
        if shape is None:
            return self.sign(message)
        r, s, _t = sign_shaped("p256", self.d, message, shape, rng)
        return der_ecdsa(r, s)

    def sign(self, message, hash_alg=None):
        from cryptography.hazmat.primitives import hashes
        from cryptography.hazmat.primitives.asymmetric import ec
        return self.priv.sign(message, ec.ECDSA(hashes.SHA256(), deterministic_signing=True))


# ------------------------------------------------------------------------------------------------
# WHEN the certificates of the SGX chain are valid, and WHERE (time zone) the verifier runs
# ------------------------------------------------------------------------------------------------
# kinds of validity window of one certificate (`who`: pck, pca, root), relative to the real clock:
#   far        2021 .. 2049 (the default, deterministic)
#   issued1h   valid since a little while (40 min .. 5 h)         in period
#   expires1h  valid for a little while longer                      in period
#   expired1h  expired a little while ago                           OUT of period: must be refused
#   notyet1h   valid from a little while from now                   OUT of period: must be refused
# The edge is always closer to "now" than the smallest non-zero UTC offset explored (8 h), so a
# verifier that mistook local time for UTC would cross it.
WHEN_KINDS = ("issued1h", "expires1h", "expired1h", "notyet1h")
WHEN_OUT = ("expired1h", "notyet1h")
TZS = ("UTC0", "PST8", "JST-9", "<+14>-14", "<-12>12")      # POSIX TZ strings: no tzdata needed
EDGE_MINUTES = (40, 60, 90, 180, 300)


def window(kind, minutes, now):
    import datetime
    far_a = datetime.datetime(2021, 1, 1, tzinfo=certv2.UTC)
    far_b = datetime.datetime(2049, 12, 31, tzinfo=certv2.UTC)
    d = datetime.timedelta(minutes=minutes)
    now = now.replace(microsecond=0)
    return {"far": (far_a, far_b), "issued1h": (now - d, far_b), "expires1h": (far_a, now + d),
            "expired1h": (far_a, now - d), "notyet1h": (now + d, far_b)}[kind]


class Zone:
    """The verifying machine's time zone for the duration of a block (process-wide: TZ + tzset)."""

    def __init__(self, tz):
        self.tz = tz

    def __enter__(self):
        import time
        self.old = os.environ.get("TZ")
        if self.tz:
            os.environ["TZ"] = self.tz
            time.tzset()
        return self

    def __exit__(self, *a):
        import time
        if self.tz:
            if self.old is None:
                os.environ.pop("TZ", None)
            else:
                os.environ["TZ"] = self.old
            time.tzset()
        return False


def det_x509(subject_cn, subject_key, issuer_cn, issuer_key, serial, ca=True, valid=None):
    """DER certificate, deterministic (RFC 6979 signature, fixed validity window far from today
    unless `valid` = (not before, not after) says otherwise)."""
    import datetime
    from cryptography import x509
    from cryptography.hazmat.primitives import hashes, serialization
    from cryptography.x509.oid import NameOID

    def name(cn):
        return x509.Name([x509.NameAttribute(NameOID.COMMON_NAME, cn),
                          x509.NameAttribute(NameOID.ORGANIZATION_NAME, "verif harness C15")])
    b = (x509.CertificateBuilder().subject_name(name(subject_cn)).issuer_name(name(issuer_cn))
         .public_key(subject_key.pub).serial_number(serial)
         .not_valid_before(valid[0] if valid else datetime.datetime(2021, 1, 1, tzinfo=certv2.UTC))
         .not_valid_after(valid[1] if valid else datetime.datetime(2049, 12, 31, tzinfo=certv2.UTC))
         .add_extension(x509.BasicConstraints(ca=ca, path_length=None), critical=True))
    cert = b.sign(issuer_key.priv, hashes.SHA256(), ecdsa_deterministic=True)
    return cert.public_bytes(serialization.Encoding.DER)


class SgxMaterial:
    """Everything a genuine enclave + Intel would have produced, from the harness's own keys."""

    def __init__(self, case, custom):
        rng = random.Random("c15-sgx:%d" % case["devseed"])
        self.root, self.pca, self.pck, self.att = DetKey(rng), DetKey(rng), DetKey(rng), DetKey(rng)
        self.fresh_root = DetKey(rng)
        cn = {n: "c15 %s %d" % (n, rng.getrandbits(32)) for n in ("root", "pca", "pck")}
        sn = [rng.getrandbits(150) | 1 for _ in range(4)]
        import datetime
        wh = case.get("when") or {}
        now = datetime.datetime.now(certv2.UTC)

        def valid(who):
            if wh.get("who") == who and wh.get("kind", "far") != "far":
                return window(wh["kind"], wh.get("minutes", 60), now)
            return None
        self.der = {
            "root": det_x509(cn["root"], self.root, cn["root"], self.root, sn[0], valid=valid("root")),
            "pca": det_x509(cn["pca"], self.pca, cn["root"], self.root, sn[1], valid=valid("pca")),
            "pck": det_x509(cn["pck"], self.pck, cn["pca"], self.pca, sn[2], ca=False, valid=valid("pck")),
            "fresh_root": det_x509(cn["root"], self.fresh_root, cn["root"], self.fresh_root, sn[3]),
        }
        srng = random.Random("c15-shape:%d" % case["devseed"])
        for who, issuer in (("root", self.root), ("pca", self.root), ("pck", self.pca)):
            if shape_for(case, who) is not None:
                self.der[who] = resign_x509(self.der[who], issuer.d, shape_for(case, who), srng)
        self.sig_shapes = {}
        for who in ("root", "pca", "pck"):
            reg = certv2.der_regions(self.der[who])
            self.sig_shapes[who] = shape_of_der(self.der[who][reg["sig"][0]:reg["sig"][1]])
        self.custom = custom
        prof = case.get("content", "random")
        self.qe_auth = content(rng, case["qeauth"], prof)
        self.att_xy = self.att.xy()
        if digest_for(case, "ak"):
            if case["qeauth"] < 4:
                raise AssertionError("too little QE auth data to grind the key binding")
            n_auth = case["qeauth"]
            self.qe_auth = grind(random.Random("c15-digest-ak:%d" % case["devseed"]), digest_for(case, "ak"),
                                 lambda r: r.randbytes(n_auth),
                                 lambda a: hashlib.sha256(self.att_xy + a).digest())
        qe = RB.random(rng)
        qe["report_data"] = hashlib.sha256(self.att_xy + self.qe_auth).digest() + bytes(32)
        self.qe_fields = qe
        self.qe_body = RB.pack(qe)
        qe_der = self.pck.sign_shape(self.qe_body, shape_for(case, "qe_sig"), srng)
        self.sig_shapes["qe_sig"] = shape_of_der(qe_der)
        self.qe_sig = certv2._der_sig_to_rs(qe_der)
        hdr = certv2.QUOTE_HEADER.random(rng)
        hdr.update({"version": 3, "sign_type": 2, "tee_type": 0})
        body = RB.random(rng)
        if prof != "random":
            body["mrenclave"], body["mrsigner"] = content(rng, 32, prof), content(rng, 32, prof)
        body["report_data"] = hashlib.sha256(custom).digest() + bytes(32)
        self.q_hdr, self.q_body = hdr, body
        self.quote = certv2.QUOTE_HEADER.pack(hdr) + RB.pack(body)
        if shape_for(case, "q_sig") is None:
            self.q_sig_der = self.att.sign(self.quote)
        else:
            # the 20 bytes of user data of the quote header are the free field
            off = certv2.QUOTE_HEADER.offsets["user_data"]
            base = self.quote

            def with_user_data(r_):
                return base[:off] + r_.randbytes(20) + base[off + 20:]
            self.quote, r, s_ = sign_grinding_message("p256", self.att.d, with_user_data,
                                                      shape_for(case, "q_sig"), srng)
            hdr["user_data"] = self.quote[off:off + 20]
            self.q_sig_der = der_ecdsa(r, s_)
        self.sig_shapes["q_sig"] = shape_of_der(self.q_sig_der)
        self.q_sig = certv2._der_sig_to_rs(self.q_sig_der)
        self.npem = case["npem"]
        self.cert_type = 5


def pem_of(der):
    return certv2.der_to_pem(der).encode()


class SgxDevice(AdminSimDevice):
    def __init__(self, case):
        super().__init__(platform="sgx", mode=MODE_BOOT, seed=case["devseed"])
        rng = random.Random("c15-sgxdev:%d" % case["devseed"])
        self.case = case
        self.alt = Alteration(case.get("alt"))
        self.onboarded = True
        self.pin = case["pin"].encode()
        self.unlocked = bool(case.get("no_unlock"))
        if self.unlocked:
            self.mode = MODE_SIGNER
        self.s_ver = "5.%s" % rng.choice("0123456789")
        prof = case.get("content", "random")
        self.best_block = content(rng, 32, prof)
        self.last_tx = content(rng, 8, prof)
        self.timestamp = rng.choice((0, 0, 0, 7, rng.getrandbits(40)))
        if prof != "random":
            self.timestamp = int.from_bytes(content(rng, 8, prof), "big")
        if case.get("grind_pkh"):
            grind_keys(self, rng, prof)
        drng = random.Random("c15-digest:%d" % case["devseed"])
        if digest_for(case, "pkh"):
            grind_pkh(self, drng, digest_for(case, "pkh"))
        if digest_for(case, "cm"):
            # the timestamp is the free field of the custom message
            head = self.custom_message(bytes.fromhex(case["ud"]))[:-8]
            ts = grind(drng, digest_for(case, "cm"), lambda r: r.getrandbits(63).to_bytes(8, "big"),
                       lambda t: hashlib.sha256(head + t).digest())
            self.timestamp = int.from_bytes(ts, "big")
        self.mat = None
        self.att = None
        self.att_log = []
        self.ud_seen = []          # every UD value the host handed over (UI, then signer)

    def keys65(self):
        return {p: self.keys[path_bytes(p)] for p in SORTED_PATHS}

    set_state = LedgerDevice.set_state

    def digests(self, ud):
        m = self.material(ud)
        return {"pkh": digest_class(pubkeys_hash(self.keys65())),
                "cm": digest_class(hashlib.sha256(m.custom).digest()),
                "ak": digest_class(hashlib.sha256(m.att_xy + m.qe_auth).digest())}

    def relock(self):
        self.unlocked = False
        self.mode = MODE_BOOT

    def custom_message(self, ud):
        return b"POWHSM:" + self.s_ver.encode() + b"::" + b"sgx" + ud + pubkeys_hash(self.keys65()) + \
            self.best_block + self.last_tx + self.timestamp.to_bytes(8, "big")

    def material(self, ud):
        if self.mat is None or self.mat.custom != self.custom_message(ud):
            self.mat = SgxMaterial(self.case, self.custom_message(ud))
        return self.mat

    def truth(self, ud):
        k = self.keys65()
        m = self.material(ud)
        return {"plat": "sgx", "framing": "current", "ud": ud.hex(), "btc_c": "", "auth_hash": "",
                "iter": "", "ui_hash": "", "ui_ver": "",
                "keys": [[p, compress(k[p]).hex()] for p in SORTED_PATHS],
                "pkhash": pubkeys_hash(k).hex(), "signer_hash": "", "s_ver": self.s_ver,
                "platform": "sgx", "best": self.best_block.hex(), "ltx": self.last_tx.hex(),
                "ts": str(self.timestamp), "mrenclave": m.q_body["mrenclave"].hex(),
                "mrsigner": m.q_body["mrsigner"].hex()}

    # the envelope, with the one alteration applied to the device's buffer
    def build_envelope(self, m):
        a = self.alt
        quote = m.quote
        off = RB.offsets
        if a.site == "q_hdr":
            quote = a.flip(quote, "q_hdr", None, 0, QB)
        elif a.site == "q_body":
            me, ms, rd = off["mrenclave"], off["mrsigner"], off["report_data"]
            rs = {"mrenclave": [(me, me + 32)], "mrsigner": [(ms, ms + 32)], "rdata": [(rd, rd + 32)],
                  "other": [(0, me), (me + 32, ms), (ms + 32, rd), (rd + 32, RB.size)]}[a.field]
            quote = a.flip(quote, "q_body", a.field, ranges=[(QB + x, QB + y) for (x, y) in rs])
        q_sig = a.flip(m.q_sig, "q_sig")
        att_xy = a.flip(m.att_xy, "att_key")
        qe_body = m.qe_body
        if a.site == "qe_body":
            rd = off["report_data"]
            rs = {"other": [(0, rd), (rd + 32, RB.size)], "rdata": [(rd, rd + 32)]}[a.field]
            qe_body = a.flip(qe_body, "qe_body", a.field, ranges=rs)
        qe_sig = a.flip(m.qe_sig, "qe_sig")
        qe_auth = a.flip(m.qe_auth, "qe_auth")
        ders = {"pck": m.der["pck"], "pca": m.der["pca"], "root": m.der["root"]}
        for who in ("pck", "pca"):
            for reg in ("tbs", "sig"):
                site = "%s_%s" % (who, reg)
                if a.site == site:
                    r = certv2.der_regions(ders[who])
                    lo, hi = r[reg]
                    ders[who] = a.flip(ders[who], site, None, lo, hi)
        chain = pem_of(ders["pck"]) + pem_of(ders["pca"])
        if m.npem == 3:
            chain += pem_of(ders["root"])
        custom_env = m.custom
        if a.site in ("cm_fld", "cm_env"):
            sp = spans(SG_FIELDS, len(m.custom))
            custom_env = a.flip(m.custom, a.site, a.field, *sp[a.field])
        auth = q_sig + att_xy + qe_body + qe_sig
        tail = len(qe_auth).to_bytes(2, "little") + qe_auth + \
            int(m.cert_type).to_bytes(2, "little") + len(chain).to_bytes(4, "little") + chain
        sig_len = len(auth) + len(tail)
        envl = quote + sig_len.to_bytes(4, "little") + auth + tail + custom_env
        layout = {"quote": (0, 432), "sig_len": (432, 436), "auth": (436, 436 + ENV_AUTH),
                  "qe_auth": (436 + ENV_AUTH, 436 + ENV_AUTH + 2 + len(qe_auth)),
                  "qe_cert": (436 + ENV_AUTH + 2 + len(qe_auth), 436 + sig_len),
                  "custom": (436 + sig_len, len(envl))}
        return envl, layout

    def _handle_admin(self, apdu):
        if len(apdu) >= 3 and apdu[0] == CLA and apdu[1] == 0x50 and self.mode == MODE_SIGNER:
            return self._att(apdu[2], bytes(apdu[3:]))
        return super()._handle_admin(apdu)

    def _att(self, op, data):
        H = bytes([CLA, 0x50, op])
        a = self.alt
        self.att_log.append(("sgx", op, len(data)))
        if op == 0x01:
            self.ud_seen.append(bytes(data))
        if op == 0x01:
            if len(data) != 32:
                self.att = None
                return ERR_ATT_PROT_INVALID, b""
            m = self.material(data)
            envl, layout = self.build_envelope(m)
            msg = m.custom
            if a.site in ("cm_fld", "cm_msg"):
                sp = spans(SG_FIELDS, len(msg))
                msg = a.flip(msg, a.site, a.field, *sp[a.field])
            ep = self.case.get("e_pages", 99)
            esize = len(envl) if ep == 1 else (-(-len(envl) // 2) if ep == 2 else self.case["e_pagesize"])
            self.att = {"env": envl, "layout": layout,
                        "mp": _Paged(msg, self.case["s_pagesize"]), "ep": _Paged(envl, esize)}
            return 0x9000, H + fw_der_encode_signature(m.q_sig)      # as the enclave encodes it
        if self.att is None:
            return ERR_ATT_PROT_INVALID, b""
        if op in (0x02, 0x04):
            if len(data) != 1:
                return ERR_ATT_PROT_INVALID, b""
            ans = self.att["mp" if op == 0x02 else "ep"].answer(data[0])
            if ans is None:
                return ERR_ATT_PROT_INVALID, b""
            return 0x9000, H + ans
        if op == 0x03:
            return 0x9000, H + self.mat.q_body["mrenclave"]
        return ERR_ATT_PROT_INVALID, b""


# ------------------------------------------------------------------------------------------------
# projections
# ------------------------------------------------------------------------------------------------
PRINT_FIELDS = ("ui_ud", "ui_pub", "ui_shash", "ui_iter", "ui_hash", "ui_ver", "pkhash", "s_hash",
                "s_ver", "s_plat", "s_ud", "s_best", "s_ltx", "s_ts", "mrenclave", "mrsigner")
LABELS_UI = {"UD value": "ui_ud", "Authorized signer hash": "ui_shash",
             "Authorized signer iteration": "ui_iter", "Installed UI hash": "ui_hash",
             "Installed UI version": "ui_ver"}
LABELS_SG = {"Hash": "pkhash", "Installed Signer hash": "s_hash", "Installed Signer version": "s_ver",
             "Installed powHSM version": "s_ver", "Platform": "s_plat", "UD value": "s_ud",
             "Best block": "s_best", "Last transaction signed": "s_ltx", "Timestamp": "s_ts",
             "Installed powHSM MRENCLAVE": "mrenclave", "Installed powHSM MRSIGNER": "mrsigner"}
_LINE = re.compile(r"^(.*?):\s*(\S*)\s*$")


def empty_printed():
    p = {f: "" for f in PRINT_FIELDS}
    p["keys"] = []
    p["unknown"] = []
    return p


def parse_printed(text):
    """stdout of a verify command -> printed values (labels as documented in docs/attestation.md).
    Lines of the UI section and of the signer / powHSM section are told apart by the section title."""
    p = empty_printed()
    section = None
    for line in text.splitlines():
        if line.startswith("UI verified with"):
            section = "ui"
            continue
        if line.startswith("Signer verified with") or line.startswith("powHSM verified with"):
            section = "sg"
            continue
        if section is None or not line.strip() or set(line.strip()) <= set("-#*"):
            continue
        m = _LINE.match(line)
        if not m:
            p["unknown"].append(line)
            continue
        label, val = m.group(1).strip(), m.group(2)
        if section == "ui" and label.startswith("Derived public key"):
            p["ui_pub"] = val
        elif section == "ui" and label in LABELS_UI:
            p[LABELS_UI[label]] = val
        elif section == "sg" and label.startswith("m/"):
            p["keys"].append([label, val])
        elif section == "sg" and label in LABELS_SG:
            p[LABELS_SG[label]] = val
        else:
            p["unknown"].append(line)
    return p


def flat_certificate(path):
    """A certificate file as flat, order-preserving rows of strings (what `lossless` compares):
    ["version", v], ["target", t]..., [element index, key, value]..."""
    try:
        with open(path) as f:
            doc = json.load(f)
    except (OSError, ValueError) as e:
        return [["unreadable", type(e).__name__]]
    rows = [["version", json.dumps(doc.get("version"))]]
    for t in doc.get("targets", []):
        rows.append(["target", str(t)])
    for i, e in enumerate(doc.get("elements", [])):
        for k in sorted(e):
            v = e[k]
            if isinstance(v, str):
                v = "".join(v.split()) if k == "message" and e.get("type") == "x509_pem" else v
            else:
                v = json.dumps(v)
            if len(v) > 80:        # content-addressed: equal rows <=> equal values
                v = "sha256:%s:%d" % (hashlib.sha256(v.encode()).hexdigest(), len(v))
            rows.append(["e%d" % i, k, v])
    for k in sorted(doc):
        if k not in ("version", "targets", "elements"):
            rows.append(["extra", k])
    return rows


def file_faithful(path, expect):
    """Diagnostics only (model drift, never a verdict): {element name: {field: hex}} expected from the
    device's own answers vs. the file."""
    try:
        with open(path) as f:
            doc = json.load(f)
    except (OSError, ValueError):
        return ["unreadable"]
    diffs = []
    els = {e.get("name"): e for e in doc.get("elements", [])}
    for name, fields in expect.items():
        e = els.get(name)
        if e is None:
            diffs.append("%s missing" % name)
            continue
        for k, v in fields.items():
            got = e.get(k)
            if isinstance(got, str) and k == "message" and e.get("type") == "x509_pem":
                got = "".join(got.split())
            if got != v:
                diffs.append("%s.%s" % (name, k))
    return diffs


# ------------------------------------------------------------------------------------------------
# running the repository's commands
# ------------------------------------------------------------------------------------------------
def _call(world, fn, options, lines=(), pins=()):
    """Run one admin command with a scripted operator; returns (outcome, exception text, stdout)."""
    operator = Operator(world, list(lines), list(pins))
    rnd = Randomness(world)
    with Patched(world, operator, rnd) as patched:
        try:
            fn(options)
            outcome, exc = "ok", None
        except BaseException as e:     # noqa: AdminError, ValueError, SystemExit, ... all are "fails"
            if isinstance(e, (KeyboardInterrupt, MemoryError)):
                raise
            outcome = "fail"
            exc = "%s: %s" % (type(e).__name__, str(e)[:160])
            if not _expected_failure(e):
                exc += " @ " + traceback.format_exc().strip().splitlines()[-3].strip()[:120]
    return outcome, exc, patched.out.getvalue()


def _expected_failure(e):
    return type(e).__name__ in ("AdminError",)


def errkind(exc):
    """'none' | 'AdminError' | 'raw' (any other exception class) from the text _call returns."""
    if exc is None:
        return "none"
    return "AdminError" if exc.startswith("AdminError:") else "raw"


NODE_URLS = ("http://node.test:4444", "https://public-node.rsk.co", "http://127.0.0.1:4444/",
             "https://rsk.example.org/rpc?key=abcdef0123456789abcdef0123456789abcdef0123456789abcdef0123456789")
ROOT_URLS = ("https://certificates.trustedservices.intel.com/Intel_SGX_Provisioning_Certification_RootCA.pem",
             "http://certs.test/root.pem", "https://mirror.example.org/sgx/root%20ca.pem?v=2")


def make_node(case):
    """The Rootstock node of a case (None when the operator types the UD value). With a properly
    answering node the intended UD value case["ud"] IS the hash it reports for block n at the second
    call; `reorg`: the first hash of block n is another one."""
    if case.get("udsrc", "hex") != "node":
        return None
    ud = bytes.fromhex(case["ud"])
    other = hashlib.sha256(b"replaced:" + ud).digest()
    beh = case["node"]
    return fakehttp.FakeNode(case["node_number"], other if beh == "reorg" else ud, beh, case.get("node_at", 0),
                             hash_reorg=ud if beh == "reorg" else other,
                             status=case.get("node_status", 500), junk=case.get("node_junk", "<html>busy</html>").encode(),
                             upper=bool(case.get("ud_upper")))


def ud_sent(dev):
    seen = [u.hex() for u in dev.ud_seen]
    if not seen:
        return ""
    return seen[0] if all(u == seen[0] for u in seen) else "|".join(seen)


def _options(**kw):
    base = dict(verbose=False, any_pin=False, no_exec=False, no_unlock=False, pin=None, new_pin=None,
                output_file_path=None, attestation_certificate_file_path=None,
                attestation_ud_source=None, root_authority=None, pubkeys_file_path=None,
                signer_authorization_file_path=None, operation=None)
    base.update(kw)
    return SimpleNamespace(**base)


def _ud_text(case):
    """(intended UD value, what the operator passes as --attudsource: the value itself or a node URL)."""
    ud = bytes.fromhex(case["ud"])
    if case.get("udsrc", "hex") == "node":
        return ud, case["node_url"]
    s = ud.hex()
    if case.get("ud_upper"):
        s = s.upper()
    if case.get("ud_prefix"):
        s = "0x" + s
    return ud, s


def write_pubkeys(path, dev, style_rng):
    k = dev.keys65()
    doc = {}
    for p in style_rng.sample(SORTED_PATHS, len(SORTED_PATHS)):
        doc[p] = (compress(k[p]) if style_rng.random() < 0.7 else k[p]).hex()
    with open(path, "w") as f:
        json.dump(doc, f, indent=2)


def _reload(path, path2):
    """load -> save with the repository's own classes (the round trip the property talks about)."""
    from admin.certificate import HSMCertificate
    try:
        HSMCertificate.from_jsonfile(path).save_to_jsonfile(path2)
        return "ok", None
    except BaseException as e:     # noqa
        if isinstance(e, (KeyboardInterrupt, MemoryError)):
            raise
        return "fail", "%s: %s" % (type(e).__name__, str(e)[:160])


def run_case(case, scratch, tag="c"):
    env.setup()
    if case["plat"] == "ledger":
        return _run_ledger(case, scratch, tag)
    return _run_sgx(case, scratch, tag)


def _obs(case, truth):
    o = _obs0(case, truth)
    wh = case.get("when") or {}
    o["tz"] = case.get("tz") or "UTC0"
    o["when_who"], o["when_kind"] = wh.get("who", "none"), wh.get("kind", "far")
    if wh.get("kind") in WHEN_OUT and o["alt"] == "none":
        o["alt"] = "period"
    return o


def _obs0(case, truth):
    return {"udsrc": case.get("udsrc", "hex"), "node": case.get("node", "hex"), "node_at": case.get("node_at", 0),
            "node_n": "0x%x" % case.get("node_number", 0), "node_url": case.get("node_url", ""),
            "rootvia": case.get("rootvia", "file"), "root_url": case.get("root_url", ""),
            "http": [], "ud_sent": "", "att_file": "no", "contacted": "no", "g_err": "none", "v_err": "none",
            "hist": case.get("hist", "single"), "prev_ok": "na", "dev_prev": truth,
            "earlier_before": [], "earlier_after": [], "verify_prev": "na", "printed_prev": empty_printed(),
            "digsite": (case.get("digest") or {}).get("site", "none"),
            "digclass": (case.get("digest") or {}).get("cls", "ord"),
            "sigsite": (case.get("sigshape") or {}).get("site", "none"),
            "sigclass": (case.get("sigshape") or {}).get("cls", "any"),
            "plat": case["plat"], "framing": case["framing"], "alt": case["alt"]["site"],
            "altinfo": case["alt"], "dev": truth,
            "g_onboard": "na", "g_attest": "na", "gather": "fail",
            "file0": [], "reload0": [], "file": [], "reload": [], "reload_ok": "na",
            "verify": "na", "printed": empty_printed(), "verify2": "na", "printed2": empty_printed()}


def _run_ledger(case, scratch, tag):
    from comm.platform import Platform
    from admin.onboard import do_onboard
    from admin.ledger_attestation import do_attestation
    from admin.verify_ledger_attestation import do_verify_attestation
    Platform.set(Platform.LEDGER)
    dev = LedgerDevice(case)
    world = World(dev, "hid")
    ud, ud_text = _ud_text(case)
    o = _obs(case, dev.truth(ud))
    diag = {"exc": {}, "stdout": {}, "applied": dev.alt.applied, "faithful": []}
    http = fakehttp.FakeHttp(node=make_node(case), node_url=case.get("node_url"))
    with fakehttp.Patched(http):
        _run_ledger_commands(case, scratch, tag, dev, world, ud, ud_text, o, diag)
    o["http"] = http.calls
    o["ud_sent"] = ud_sent(dev)
    diag["shapes"] = _check_shapes(case, dev.sig_shapes)
    diag["digests"] = _check_digests(case, dev.digests(ud))
    diag["att_log"] = dev.att_log
    diag["admin_cmds"] = [c for (c, _d) in dev.admin_log]
    _unapplied(o, dev)
    return o, diag


def kept_rows(paths):
    """Earlier files as rows (flat content + digest of the raw bytes): what `EarlierKept` compares."""
    out = []
    for p in paths:
        try:
            with open(p, "rb") as f:
                raw = f.read()
            out.append([["sha256", hashlib.sha256(raw).hexdigest()]] + flat_certificate(p))
        except OSError as e:
            out.append([["missing", type(e).__name__]])
    return out


def _first_run_setup(case, dev):
    """Histories: the first run is a genuine one (the alteration, if any, belongs to the second run);
    returns the alteration to arm later."""
    armed = dev.alt
    if case.get("hist", "single") != "single":
        dev.alt = Alteration()
    return armed


def _run_ledger_commands(case, scratch, tag, dev, world, ud, ud_text, o, diag):
    from admin.onboard import do_onboard
    from admin.ledger_attestation import do_attestation
    from admin.verify_ledger_attestation import do_verify_attestation
    hist = case.get("hist", "single")
    f0 = os.path.join(scratch, "%s_att0.json" % tag)
    f1 = os.path.join(scratch, "%s_att1.json" % tag)
    f2 = os.path.join(scratch, "%s_att2.json" % tag)
    f0b = os.path.join(scratch, "%s_att0b.json" % tag)
    f1b = os.path.join(scratch, "%s_att1b.json" % tag)
    pk = os.path.join(scratch, "%s_pubkeys.json" % tag)
    for p in (f0, f1, f2, f0b, f1b, pk):
        if os.path.exists(p):
            os.unlink(p)
    armed = _first_run_setup(case, dev)

    def attest(in_path, out_path, ud_source):
        dev.replug()
        dev.ud_seen = []
        mark = len(world.log)
        r, exc, _out = _call(world, do_attestation,
                             _options(pin=case["pin"], output_file_path=out_path,
                                      attestation_certificate_file_path=in_path,
                                      attestation_ud_source=ud_source, verbose=case.get("verbose", False)))
        return r, exc, ("yes" if len(world.log) > mark else "no")

    # 1. onboarding + endorsement setup
    r, exc, out = _call(world, do_onboard,
                        _options(pin=case["pin"], output_file_path=f0, verbose=case.get("verbose", False)),
                        lines=[(case.get("yes", "yes"), "yes"), ("", "other")])
    o["g_onboard"], diag["exc"]["onboard"] = r, exc
    out_path = f1
    if r == "ok":
        o["file0"] = flat_certificate(f0)
        rr, e2 = _reload(f0, f0b)
        o["reload0"] = flat_certificate(f0b) if rr == "ok" else [["reload-failed", e2 or ""]]
        # 2. UI + signer attestation, after the operator re-plugged the device
        if hist != "single":
            # first run of a history: genuine, with the device's earlier state and another UD value
            ud1 = bytes.fromhex(case["ud1"])
            dev.set_state(case["state1"])
            o["dev_prev"] = dev.truth(ud1)
            r1, exc1, _c = attest(f0, f1, ud1.hex())
            o["prev_ok"], diag["exc"]["attest1"] = r1, exc1
            dev.set_state(None)                      # the device moves on
            dev.alt = armed
            in_path = f1 if hist in ("reattest", "inplace") else f0
            out_path = f1 if hist in ("inplace", "sameout") else f2
            earlier = [f0] + ([f1] if out_path != f1 else [])
            o["earlier_before"] = kept_rows(earlier)
        else:
            in_path = f0
        if hist == "single" or o["prev_ok"] == "ok":
            r, exc, o["contacted"] = attest(in_path, out_path, ud_text)
            o["g_attest"], diag["exc"]["attest"] = r, exc
            o["g_err"] = errkind(exc)
            o["att_file"] = "yes" if os.path.exists(out_path) else "no"
        if hist != "single":
            o["earlier_after"] = kept_rows(earlier)
    if o["g_onboard"] == "ok" and o["g_attest"] == "ok":
        o["gather"] = "ok"
        o["file"] = flat_certificate(out_path)
        diag["faithful"] = file_faithful(out_path, _ledger_expected(dev, ud)) if case["alt"]["site"] == "none" else []
        rr, e2 = _reload(out_path, f1b)
        o["reload_ok"] = rr
        o["reload"] = flat_certificate(f1b) if rr == "ok" else [["reload-failed", e2 or ""]]
        # 3. verification
        write_pubkeys(pk, dev, random.Random("pk:%d" % case["devseed"]))
        root = dev.root.pub65
        a = dev.alt
        if a.site == "root":
            root = dev.other_root.pub65 if a.how == "otherkey" else a.flip(root, "root", None, 1, 65)
        root_hex = root.hex()
        o["verify"], diag["exc"]["verify"], out = _call(
            world, do_verify_attestation,
            _options(attestation_certificate_file_path=out_path, pubkeys_file_path=pk, root_authority=root_hex))
        o["v_err"] = errkind(diag["exc"]["verify"])
        diag["stdout"]["verify"] = out
        if o["verify"] == "ok":
            o["printed"] = parse_printed(out)
        if rr == "ok":
            o["verify2"], diag["exc"]["verify2"], out2 = _call(
                world, do_verify_attestation,
                _options(attestation_certificate_file_path=f1b, pubkeys_file_path=pk,
                         root_authority=root_hex))
            if o["verify2"] == "ok":
                o["printed2"] = parse_printed(out2)
        if hist in ("reattest", "reuse0"):
            # the first run's file, once more, after the second run
            o["verify_prev"], diag["exc"]["verify_prev"], outp = _call(
                world, do_verify_attestation,
                _options(attestation_certificate_file_path=f1, pubkeys_file_path=pk, root_authority=root_hex))
            if o["verify_prev"] == "ok":
                o["printed_prev"] = parse_printed(outp)
        if hist != "single":
            o["earlier_after"] = kept_rows(earlier)


def _check_digests(case, measured):
    d = case.get("digest")
    if d and d.get("cls", "ord") != "ord" and measured.get(d["site"]) != d["cls"]:
        raise AssertionError("digest %s was to be of class %s, is %s" % (d["site"], d["cls"], measured.get(d["site"])))
    return measured


def _check_shapes(case, measured):
    """{site: '<r class>/<s class>'} as measured on the signatures really produced; a signature that
    was to be ground to a shape and came out otherwise is a failure of the harness."""
    sh = case.get("sigshape")
    if sh and sh.get("cls", "any") != "any":
        want = sh["cls"].split("/")
        for site, got in measured.items():
            if sh["site"] in (site, "all"):
                g = got.split("/")
                if any(w != "any" and w != x for w, x in zip(want, g)):
                    raise AssertionError("signature %s was to have shape %s, has %s" % (site, sh["cls"], got))
    return dict(measured)


def _unapplied(o, dev):
    """An alteration of an answer the host never asked for altered nothing that was transmitted: the
    run is a genuine one (and is judged as such)."""
    a = dev.alt
    if a.site not in ("none", "root") and not a.applied:
        o["alt"] = "none"
        o["unapplied"] = True


def _ledger_expected(dev, ud):
    ui, sg = dev.ui_message(ud), dev.signer_message(ud)
    return {"device": {"message": (b"\x02" + dev.cert_header + dev.devkey.pub65).hex(), "signed_by": "root"},
            "attestation": {"message": (b"\xff" + dev.attkey.pub65).hex(), "signed_by": "device"},
            "ui": {"message": ui.hex(), "tweak": dev.ui_hash.hex(), "signed_by": "attestation"},
            "signer": {"message": sg.hex(), "tweak": dev.signer_hash.hex(), "signed_by": "attestation"}}


def _run_sgx(case, scratch, tag):
    from comm.platform import Platform
    from admin.sgx_attestation import do_attestation
    from admin.verify_sgx_attestation import do_verify_attestation
    Platform.set(Platform.SGX, {"sgx_host": "127.0.0.1", "sgx_port": 7777})
    dev = SgxDevice(case)
    world = World(dev, "tcp")
    ud, ud_text = _ud_text(case)
    o = _obs(case, dev.truth(ud))
    diag = {"exc": {}, "stdout": {}, "applied": dev.alt.applied, "faithful": []}
    http = fakehttp.FakeHttp(node=make_node(case), node_url=case.get("node_url"))
    with fakehttp.Patched(http), Zone(case.get("tz")):
        _run_sgx_commands(case, scratch, tag, dev, world, ud, ud_text, o, diag, http)
    o["http"] = http.calls
    o["ud_sent"] = ud_sent(dev)
    diag["shapes"] = _check_shapes(case, dev.mat.sig_shapes if dev.mat is not None else {})
    diag["digests"] = _check_digests(case, dev.digests(ud))
    diag["att_log"] = dev.att_log
    if dev.att is not None:
        diag["env_len"] = len(dev.att["env"])
        diag["env_pages"] = len(dev.att["ep"].pages)
        diag["layout"] = dev.att["layout"]
    _unapplied(o, dev)
    return o, diag


GARBAGE = (b"", b"\xff\xfe\x00garbage", b"<html><body>502 Bad Gateway</body></html>",
           b"-----BEGIN CERTIFICATE-----\n!!!! not base64 !!!!\n-----END CERTIFICATE-----\n",
           b"-----BEGIN CERTIFICATE-----\nMIIB\n-----END CERTIFICATE-----\n", b"{}", b"0" * 4096)


def _run_sgx_commands(case, scratch, tag, dev, world, ud, ud_text, o, diag, http):
    from admin.sgx_attestation import do_attestation
    from admin.verify_sgx_attestation import do_verify_attestation
    hist = case.get("hist", "single")
    f1 = os.path.join(scratch, "%s_sgx1.json" % tag)
    f2 = os.path.join(scratch, "%s_sgx2.json" % tag)
    f1b = os.path.join(scratch, "%s_sgx1b.json" % tag)
    pk = os.path.join(scratch, "%s_pubkeys.json" % tag)
    rootp = os.path.join(scratch, "%s_root.pem" % tag)
    for p in (f1, f2, f1b, pk, rootp):
        if os.path.exists(p):
            os.unlink(p)
    armed = _first_run_setup(case, dev)

    def attest(out_path, ud_source):
        dev.ud_seen = []
        mark = len(world.log)
        r, exc, _out = _call(world, do_attestation,
                             _options(pin=case["pin"], output_file_path=out_path, attestation_ud_source=ud_source,
                                      no_unlock=dev.unlocked, any_pin=True, verbose=case.get("verbose", False)))
        return r, exc, ("yes" if len(world.log) > mark else "no")

    out_path, earlier, r = f1, [], "fail"
    if hist != "single":
        ud1 = bytes.fromhex(case["ud1"])
        dev.set_state(case["state1"])
        o["dev_prev"] = dev.truth(ud1)
        r1, exc1, _c = attest(f1, ud1.hex())
        o["prev_ok"], diag["exc"]["attest1"] = r1, exc1
        dev.set_state(None)
        dev.alt = armed
        if case.get("relock"):                  # the enclave was restarted in between: locked again
            dev.relock()
        out_path = f1 if hist == "sameout" else f2
        earlier = [f1] if out_path != f1 else []
        o["earlier_before"] = kept_rows(earlier)
    if hist == "single" or o["prev_ok"] == "ok":
        r, exc, o["contacted"] = attest(out_path, ud_text)
        o["g_attest"], diag["exc"]["attest"] = r, exc
        o["g_err"] = errkind(exc)
        o["att_file"] = "yes" if os.path.exists(out_path) else "no"
    if hist != "single":
        o["earlier_after"] = kept_rows(earlier)
    m = dev.mat
    if r == "ok":
        o["gather"] = "ok"
        o["file"] = flat_certificate(out_path)
        if case["alt"]["site"] == "none":
            diag["faithful"] = file_faithful(out_path, _sgx_expected(m))
        rr, e2 = _reload(out_path, f1b)
        o["reload_ok"] = rr
        o["reload"] = flat_certificate(f1b) if rr == "ok" else [["reload-failed", e2 or ""]]
        write_pubkeys(pk, dev, random.Random("pk:%d" % case["devseed"]))
        a = dev.alt
        der = m.der["root"]
        served = None                      # (status, body) of the root of trust
        if a.site == "root":
            if a.how == "otherkey":
                der = m.der["fresh_root"]
            elif a.how == "http404":
                served = (case.get("root_status", 404), b"<html>Not Found</html>")
            elif a.how == "garbage":
                served = (200, GARBAGE[a.off % len(GARBAGE)])
                a.applied.append({"site": "root", "field": None, "pos": a.off % len(GARBAGE), "len": 0})
            else:
                reg = certv2.der_regions(der)
                lo, hi = reg["tbs" if a.how == "tbs" else "sig"]
                der = a.flip(der, "root", None, lo, hi)
        if served is None:
            served = (200, pem_of(der))
        if case.get("rootvia", "file") == "url":
            rootp = case["root_url"]
            http.web = fakehttp.FakeWeb({rootp: served})
        else:
            with open(rootp, "wb") as f:
                f.write(served[1])
        o["verify"], diag["exc"]["verify"], out = _call(
            world, do_verify_attestation,
            _options(attestation_certificate_file_path=out_path, pubkeys_file_path=pk, root_authority=rootp))
        o["v_err"] = errkind(diag["exc"]["verify"])
        diag["stdout"]["verify"] = out
        if o["verify"] == "ok":
            o["printed"] = parse_printed(out)
        if rr == "ok":
            o["verify2"], diag["exc"]["verify2"], out2 = _call(
                world, do_verify_attestation,
                _options(attestation_certificate_file_path=f1b, pubkeys_file_path=pk,
                         root_authority=rootp))
            if o["verify2"] == "ok":
                o["printed2"] = parse_printed(out2)
        if hist == "two":
            o["verify_prev"], diag["exc"]["verify_prev"], outp = _call(
                world, do_verify_attestation,
                _options(attestation_certificate_file_path=f1, pubkeys_file_path=pk, root_authority=rootp))
            if o["verify_prev"] == "ok":
                o["printed_prev"] = parse_printed(outp)
        if hist != "single":
            o["earlier_after"] = kept_rows(earlier)


def _sgx_expected(m):
    import base64
    return {"quote": {"message": m.quote.hex(), "custom_data": m.custom.hex(), "signed_by": "attestation"},
            "attestation": {"message": m.qe_body.hex(), "key": (b"\x04" + m.att_xy).hex(),
                            "auth_data": m.qe_auth.hex(), "signed_by": "quoting_enclave"},
            "quoting_enclave": {"message": base64.b64encode(m.der["pck"]).decode(),
                                "signed_by": "platform_ca"},
            "platform_ca": {"message": base64.b64encode(m.der["pca"]).decode(), "signed_by": "sgx_root"}}


# ------------------------------------------------------------------------------------------------
# abstract behaviour (GenAttestFlow) -> concrete, replayable case
# ------------------------------------------------------------------------------------------------
UI_IDX = {i + 1: n for i, (n, _l) in enumerate(UI_FIELDS)}
SG_IDX = {i + 1: n for i, (n, _l) in enumerate(SG_FIELDS)}
LG_IDX = {i + 1: n for i, (n, _l) in enumerate(LG_FIELDS)}
QB_IDX = {2: "other", 3: "mrenclave", 4: "mrsigner", 5: "rdata"}
QE_IDX = {1: "other", 2: "rdata"}
ROOT_HOW = {"ledger": {1: "otherkey", 2: "flip"},
            "sgx": {1: "otherkey", 2: "tbs", 3: "sig", 4: "http404", 5: "garbage"}}
NODE_NUMBERS = (0, 1, 9, 10, 15, 16, 255, 256, 0x2a51, 6543210, 0xffffffff, 0x100000000, (1 << 53) + 1)
PINS = ("abcd1234", "1234567a", "Zz09Zz09", "a0000000")


def _mask(rng):
    return rng.choice((0x01, 0x80, 0xFF, rng.randrange(1, 256)))


def _off(rng):
    return rng.choice((0, -1, rng.randrange(1 << 16)))


def concretise(b, rng, profile=None, grind=False):
    """One model behaviour -> a case. Dimensions the model leaves open (keys, hashes, versions, UD
    value and its spelling, page sizes inside their class, byte and bit of the alteration, PIN,
    whether SGX is unlocked by the command, signing backend) get seeded members."""
    plat, cfg, a = b["plat"], b["cfg"], b["alt"]
    if profile is None:                  # half of the devices hold boundary-looking contents
        profile = rng.choice(PROFILES) if rng.random() < 0.5 else "random"
    case = {"plat": plat, "framing": b["framing"], "devseed": rng.randrange(1 << 30),
            "content": profile, "grind_pkh": bool(grind),
            "pin": rng.choice(PINS), "ud": content(rng, 32, profile).hex(), "ud_upper": rng.random() < 0.2,
            "ud_prefix": rng.random() < 0.3, "verbose": rng.random() < 0.2,
            "backend": rng.choice(("libsecp", "libsecp", "ecdsa")),
            "ui_pagesize": 255, "s_pagesize": 255, "e_pagesize": 255, "e_pages": 1,
            "qeauth": cfg["qeauth"], "npem": cfg["npem"], "model": {"cfg": cfg, "alt": a}}
    net = b.get("net") or {"ud": "hex", "at": 0, "rootvia": "file"}
    if net["ud"] != "hex":
        case.update({"udsrc": "node", "node": net["ud"], "node_at": net["at"],
                     "node_url": rng.choice(NODE_URLS),
                     "node_number": rng.choice(NODE_NUMBERS + (rng.getrandbits(24), rng.getrandbits(40))),
                     "node_status": rng.choice((500, 502, 503, 404, 401, 429, 301, 204, 201, 199)),
                     "node_junk": rng.choice(("<html>busy</html>", "", "{", "[1,2", "null x", "\ufeff{}"))})
    if net.get("rootvia", "file") == "url":
        case.update({"rootvia": "url", "root_url": rng.choice(ROOT_URLS),
                     "root_status": rng.choice((404, 403, 500, 503, 301, 204, 201))})
    case["model"]["net"] = net
    if b.get("hist", "single") != "single":
        p1 = rng.choice(PROFILES)
        case.update({"hist": b["hist"], "ud1": content(rng, 32, p1).hex(), "relock": rng.random() < 0.5,
                     "state1": {"best": content(rng, 32, p1).hex(), "ltx": content(rng, 8, p1).hex(),
                                "ts": rng.choice((0, 1, rng.getrandbits(40)))}})
    ck = b.get("clock")
    if ck and (ck.get("tz", "UTC0") != "UTC0" or ck.get("kind", "far") != "far"):
        case["tz"] = ck["tz"]
        if ck.get("kind", "far") != "far":
            case["when"] = {"who": ck["who"], "kind": ck["kind"], "minutes": rng.choice(EDGE_MINUTES)}
    dg = b.get("digest")
    if dg and dg.get("site", "none") != "none":
        case["digest"] = {"site": dg["site"], "cls": dg["cls"]}
        case["qeauth"] = max(case["qeauth"], 4) if dg["site"] == "ak" else case["qeauth"]
    sh = b.get("shape")
    if sh and sh.get("site", "none") != "none":
        case["sigshape"] = {"site": sh["site"], "cls": sh["cls"]}
    if plat == "ledger":
        case["ui_pagesize"] = pagesize_for(UI_LEN, cfg["uip"], rng)
        case["s_pagesize"] = pagesize_for(LG_LEN if b["framing"] == "legacy" else SG_LEN, cfg["sp"], rng)
    else:
        case["s_pagesize"] = pagesize_for(SG_LEN, cfg["sp"], rng)
        case["e_pages"] = cfg["ep"]
        case["e_pagesize"] = rng.choice((FW_PAGESIZE, FW_PAGESIZE, 80, 128, 200, 254, 255, rng.randint(60, 255)))
        case["no_unlock"] = rng.random() < 0.5
    site, idx = a["site"], a["idx"]
    alt = {"site": site}
    if site != "none":
        alt.update({"off": _off(rng), "mask": _mask(rng)})
        if site == "ui_fld":
            alt["field"] = UI_IDX[idx]
        elif site == "s_fld":
            alt["field"] = (LG_IDX if b["framing"] == "legacy" else SG_IDX)[idx]
        elif site in ("cm_fld", "cm_msg", "cm_env"):
            alt["field"] = SG_IDX[idx]
        elif site == "q_body":
            alt["field"] = QB_IDX[idx]
        elif site == "qe_body":
            alt["field"] = QE_IDX[idx]
        elif site in ("ui_page", "s_mpage", "s_epage"):
            alt["page"] = idx
        elif site == "root":
            alt["how"] = ROOT_HOW[plat][idx]
    case["alt"] = _safe(case, alt)
    return case


def _safe(case, alt):
    """Keep the alteration inside what the property speaks about (a byte of signed content):
    a legacy answer whose very first byte becomes 0x01 would read as the `more` flag of the current
    framing - still a failure, but an endless-looking one (256 requests); avoid that single mask."""
    if case["framing"] == "legacy" and alt.get("mask") == 0x49:
        alt["mask"] = 0x48
    return alt


def content_cases(rng):
    """Genuine devices whose free fields hold boundary-looking contents: every profile on every
    platform / framing, with few and with many pages, the public keys hash ground to match too.
    Deterministic in shape (only the random filler bytes depend on the seed)."""
    out = []
    shapes = [("ledger", "current", {"uip": 1, "sp": 1}), ("ledger", "current", {"uip": 4, "sp": 3}),
              ("ledger", "legacy", {"uip": 2, "sp": 1}),
              ("sgx", "current", {"sp": 1, "ep": 1, "qeauth": 32, "npem": 3}),
              ("sgx", "current", {"sp": 4, "ep": 99, "qeauth": 1, "npem": 2})]
    for plat, framing, part in shapes:
        cfg = {"uip": 0, "sp": 1, "ep": 0, "qeauth": 0, "npem": 0}
        cfg.update(part)
        b = {"plat": plat, "framing": framing, "cfg": cfg, "alt": {"site": "none", "idx": 0}}
        for prof in PROFILES[1:]:
            for grind in (False, True):
                c = concretise(b, rng, profile=prof, grind=grind)
                c["boundary"] = True
                out.append(c)
    return out


def history_cases(rng):
    """Genuine two-run histories of every kind on every platform / framing, with boundary-looking
    contents in both runs (deterministic in shape)."""
    out = []
    for plat, framing, hists in (("ledger", "current", ("reattest", "inplace", "sameout", "reuse0")),
                                 ("ledger", "legacy", ("reattest", "inplace", "sameout", "reuse0")),
                                 ("sgx", "current", ("sameout", "two"))):
        cfg = {"uip": 2, "sp": 2, "ep": 0, "qeauth": 0, "npem": 0} if plat == "ledger" else \
              {"uip": 0, "sp": 2, "ep": 99, "qeauth": 32, "npem": 3}
        if framing == "legacy":
            cfg["sp"] = 1
        for h in hists:
            for prof in ("random", "digits", "header"):
                b = {"plat": plat, "framing": framing, "cfg": cfg, "alt": {"site": "none", "idx": 0}, "hist": h}
                c = concretise(b, rng, profile=prof)
                c["boundary"] = True
                out.append(c)
    return out


def class_key(b):
    return (b["plat"], b["framing"], b["alt"]["site"], b["alt"]["idx"])


def signature(clause, case):
    """Stable abstract description of a violating run."""
    a = case["alt"]
    if case["plat"] == "sgx":
        q = case["qeauth"]
        s = "%s|plat=sgx qeauth=%s" % (clause, q if q in (0, 1, 1000) else "2..999")
        if a["site"] != "none" or clause != "GenuineGathers":
            s += " npem=%d" % case["npem"]
    else:
        s = "%s|plat=ledger framing=%s" % (clause, case["framing"])
    if a["site"] != "none":
        s += " alt=%s" % a["site"]
        for k in ("field", "page", "how"):
            if a.get(k) is not None:
                s += " %s=%s" % (k, a[k])
    if case.get("udsrc") == "node" and clause in ("NodeProtocol", "NodeBad", "UdDelivered", "GenuineGathers",
                                                  "GenuineVerifies", "AlteredFails"):
        s += " ud=node:%s%s" % (case["node"], "@%d" % case["node_at"] if case.get("node_at") else "")
    if case.get("rootvia") == "url":
        s += " root=url"
    if case.get("hist", "single") != "single":
        s += " hist=%s" % case["hist"]
    if case.get("tz") or case.get("when"):
        s += " tz=%s" % (case.get("tz") or "UTC0")
        if case.get("when"):
            s += " when=%s:%s" % (case["when"]["who"], case["when"]["kind"])
    if case.get("digest") and a["site"] == "none":
        s += " digest=%s:%s" % (case["digest"]["site"], case["digest"]["cls"])
    if case.get("sigshape") and a["site"] == "none":
        s += " sig=%s:%s" % (case["sigshape"]["site"], case["sigshape"]["cls"])
    if clause == "GenuineVerifies" and case.get("content", "random") != "random" and "sig=" not in s and "digest=" not in s:
        s += " content=%s%s" % (case["content"], "+keyshash" if case.get("grind_pkh") else "")
    return s


# ------------------------------------------------------------------------------------------------
# byte-position sweeps (thorough tier): one representative device per platform / framing, the
# alteration moved over every byte of every signed blob
# ------------------------------------------------------------------------------------------------
def sweep_cases(rng, plats=("ledger", "sgx"), stride=1):
    out = []

    def base(plat, framing):
        b = {"plat": plat, "framing": framing,
             "cfg": {"uip": 3, "sp": 2, "ep": 99, "qeauth": 32, "npem": 3} if plat == "sgx" else
                    {"uip": 3, "sp": 1 if framing == "legacy" else 2, "ep": 0, "qeauth": 0, "npem": 0},
             "alt": {"site": "none", "idx": 0}}
        c = concretise(b, rng)
        c["sweep"] = True
        return c

    def add(c0, site, n, **kw):
        for pos in range(0, n, stride):
            c = json.loads(json.dumps(c0))
            c["alt"] = dict(site=site, off=pos, mask=_mask(rng), **kw)
            c["alt"] = _safe(c, c["alt"])
            out.append(c)

    if "ledger" in plats:
        for framing in ("current", "legacy"):
            c0 = base("ledger", framing)
            hdr_len = len(LedgerDevice(c0).cert_header)
            if framing == "current":
                add(c0, "dc_hdr", hdr_len)
                add(c0, "dc_key", 65)
                add(c0, "dc_sig", 72)
                add(c0, "en_key", 65)
                add(c0, "en_sig", 72)
                add(c0, "ui_hash", 32)
                add(c0, "ui_sig", 72)
                for name, n in UI_FIELDS:
                    add(c0, "ui_fld", n, field=name)
                add(c0, "root", 64, how="flip")
            add(c0, "s_hash", 32)
            add(c0, "s_sig", 72)
            for name, n in (LG_FIELDS if framing == "legacy" else SG_FIELDS):
                add(c0, "s_fld", n, field=name)
    if "sgx" in plats:
        c0 = base("sgx", "current")
        m = SgxMaterial(c0, b"x")
        add(c0, "q_hdr", QB)
        add(c0, "q_body", 32, field="mrenclave")
        add(c0, "q_body", 32, field="mrsigner")
        add(c0, "q_body", 32, field="rdata")
        add(c0, "q_body", RB.size - 96, field="other")
        add(c0, "q_sig", 64)
        add(c0, "att_key", 64)
        add(c0, "qe_body", 32, field="rdata")
        add(c0, "qe_body", RB.size - 32, field="other")
        add(c0, "qe_sig", 64)
        add(c0, "qe_auth", 32)
        for who in ("pck", "pca"):
            r = certv2.der_regions(m.der[who])
            add(c0, who + "_tbs", r["tbs"][1] - r["tbs"][0])
            add(c0, who + "_sig", r["sig"][1] - r["sig"][0])
        r = certv2.der_regions(m.der["root"])
        add(c0, "root", r["tbs"][1] - r["tbs"][0], how="tbs")
        add(c0, "root", r["sig"][1] - r["sig"][0], how="sig")
        for name, n in SG_FIELDS:
            add(c0, "cm_fld", n, field=name)
    return out
