"""Independent encoders / hash functions used as oracles and as input generators. Nothing here imports
repo code, the bitcoin.core stand-in, `rlp` or pycryptodome: RLP, Keccak-256, SHA-256 with mid-state,
BTC transactions as structures (with every push encoding), RSK block headers as field lists."""
import hashlib
import struct

# ----------------------------------------------------------------------------- Keccak-256
_RC = [0x0000000000000001, 0x0000000000008082, 0x800000000000808A, 0x8000000080008000,
       0x000000000000808B, 0x0000000080000001, 0x8000000080008081, 0x8000000000008009,
       0x000000000000008A, 0x0000000000000088, 0x0000000080008009, 0x000000008000000A,
       0x000000008000808B, 0x800000000000008B, 0x8000000000008089, 0x8000000000008003,
       0x8000000000008002, 0x8000000000000080, 0x000000000000800A, 0x800000008000000A,
       0x8000000080008081, 0x8000000000008080, 0x0000000080000001, 0x8000000080008008]
_ROT = [[0, 36, 3, 41, 18], [1, 44, 10, 45, 2], [62, 6, 43, 15, 61], [28, 55, 25, 21, 56],
        [27, 20, 39, 8, 14]]
_M = (1 << 64) - 1


def _rol(x, n):
    n %= 64
    return ((x << n) | (x >> (64 - n))) & _M


def _keccak_f(A):
    for rnd in range(24):
        C = [A[x][0] ^ A[x][1] ^ A[x][2] ^ A[x][3] ^ A[x][4] for x in range(5)]
        D = [C[(x - 1) % 5] ^ _rol(C[(x + 1) % 5], 1) for x in range(5)]
        A = [[A[x][y] ^ D[x] for y in range(5)] for x in range(5)]
        B = [[0] * 5 for _ in range(5)]
        for x in range(5):
            for y in range(5):
                B[y][(2 * x + 3 * y) % 5] = _rol(A[x][y], _ROT[x][y])
        A = [[B[x][y] ^ ((~B[(x + 1) % 5][y]) & B[(x + 2) % 5][y]) for y in range(5)] for x in range(5)]
        A[0][0] ^= _RC[rnd]
    return A


def keccak256(data):
    rate = 136
    p = bytearray(data)
    p.append(0x01)
    while len(p) % rate:
        p.append(0)
    p[-1] |= 0x80
    A = [[0] * 5 for _ in range(5)]
    for off in range(0, len(p), rate):
        blk = p[off:off + rate]
        for i in range(rate // 8):
            x, y = i % 5, i // 5
            A[x][y] ^= int.from_bytes(blk[8 * i:8 * i + 8], "little")
        A = _keccak_f(A)
    out = b""
    for i in range(4):
        x, y = i % 5, i // 5
        out += A[x][y].to_bytes(8, "little")
    return out


assert keccak256(b"").hex() == "c5d2460186f7233c927e7db2dcc703c0e500b653ca82273b7bfad8045d85a470"

# ----------------------------------------------------------------------------- SHA-256 mid-state
_K = [0x428a2f98, 0x71374491, 0xb5c0fbcf, 0xe9b5dba5, 0x3956c25b, 0x59f111f1, 0x923f82a4, 0xab1c5ed5,
      0xd807aa98, 0x12835b01, 0x243185be, 0x550c7dc3, 0x72be5d74, 0x80deb1fe, 0x9bdc06a7, 0xc19bf174,
      0xe49b69c1, 0xefbe4786, 0x0fc19dc6, 0x240ca1cc, 0x2de92c6f, 0x4a7484aa, 0x5cb0a9dc, 0x76f988da,
      0x983e5152, 0xa831c66d, 0xb00327c8, 0xbf597fc7, 0xc6e00bf3, 0xd5a79147, 0x06ca6351, 0x14292967,
      0x27b70a85, 0x2e1b2138, 0x4d2c6dfc, 0x53380d13, 0x650a7354, 0x766a0abb, 0x81c2c92e, 0x92722c85,
      0xa2bfe8a1, 0xa81a664b, 0xc24b8b70, 0xc76c51a3, 0xd192e819, 0xd6990624, 0xf40e3585, 0x106aa070,
      0x19a4c116, 0x1e376c08, 0x2748774c, 0x34b0bcb5, 0x391c0cb3, 0x4ed8aa4a, 0x5b9cca4f, 0x682e6ff3,
      0x748f82ee, 0x78a5636f, 0x84c87814, 0x8cc70208, 0x90befffa, 0xa4506ceb, 0xbef9a3f7, 0xc67178f2]
_H0 = [0x6a09e667, 0xbb67ae85, 0x3c6ef372, 0xa54ff53a, 0x510e527f, 0x9b05688c, 0x1f83d9ab, 0x5be0cd19]


def _rr(x, n):
    return ((x >> n) | (x << (32 - n))) & 0xffffffff


def sha256_midstate(prefix):
    """State words after compressing `prefix` (length must be a multiple of 64), as 32 bytes."""
    assert len(prefix) % 64 == 0
    h = list(_H0)
    for off in range(0, len(prefix), 64):
        w = list(struct.unpack(">16I", prefix[off:off + 64]))
        for i in range(16, 64):
            s0 = _rr(w[i - 15], 7) ^ _rr(w[i - 15], 18) ^ (w[i - 15] >> 3)
            s1 = _rr(w[i - 2], 17) ^ _rr(w[i - 2], 19) ^ (w[i - 2] >> 10)
            w.append((w[i - 16] + s0 + w[i - 7] + s1) & 0xffffffff)
        a, b, c, d, e, f, g, hh = h
        for i in range(64):
            S1 = _rr(e, 6) ^ _rr(e, 11) ^ _rr(e, 25)
            ch = (e & f) ^ ((~e) & g)
            t1 = (hh + S1 + ch + _K[i] + w[i]) & 0xffffffff
            S0 = _rr(a, 2) ^ _rr(a, 13) ^ _rr(a, 22)
            mj = (a & b) ^ (a & c) ^ (b & c)
            t2 = (S0 + mj) & 0xffffffff
            hh, g, f, e, d, c, b, a = g, f, e, (d + t1) & 0xffffffff, c, b, a, (t1 + t2) & 0xffffffff
        h = [(x + y) & 0xffffffff for x, y in zip(h, [a, b, c, d, e, f, g, hh])]
    return struct.pack(">8I", *h)


assert sha256_midstate(b"") == struct.pack(">8I", *_H0)


def compress_coinbase(full_tx, split):
    """RSK 'compressed' coinbase transaction: BE64(bytes hashed) ‖ SHA-256 mid-state ‖ remaining tail."""
    assert split % 64 == 0 and split <= len(full_tx)
    return struct.pack(">Q", split) + sha256_midstate(full_tx[:split]) + full_tx[split:]


def coinbase_hash(full_tx):
    """What the device expects as coinbase tx hash: double SHA-256 of the full transaction, reversed."""
    return hashlib.sha256(hashlib.sha256(full_tx).digest()).digest()[::-1]


# ----------------------------------------------------------------------------- RLP
def rlp_len_prefix(n, base):
    if n <= 55:
        return bytes([base + n])
    lb = n.to_bytes((n.bit_length() + 7) // 8, "big")
    return bytes([base + 55 + len(lb)]) + lb


def rlp_encode(x):
    if isinstance(x, (bytes, bytearray)):
        x = bytes(x)
        if len(x) == 1 and x[0] < 0x80:
            return x
        return rlp_len_prefix(len(x), 0x80) + x
    payload = b"".join(rlp_encode(i) for i in x)
    return rlp_len_prefix(len(payload), 0xc0) + payload


def rlp_list_payload_len(items):
    return sum(len(rlp_encode(i)) for i in items)


# ----------------------------------------------------------------------------- RSK block headers
def header_fields(rng, n_fields=20, cb_full=None, cb_split=0, number=None, sizes=None, parent=None):
    """Field list of an RSK block header with 17..20 fields. Fields 1..16 are the base header; then
    [umm root] (18, 20), the BTC merge-mining header, and (19, 20) merkle proof + coinbase tx."""
    def rb(n):
        return bytes(rng.getrandbits(8) for _ in range(n))
    sizes = sizes or {}
    f = [
        parent if parent is not None else rb(32),   # parent hash
        rb(32),                                     # uncles hash
        rb(20),                                     # coinbase
        rb(32), rb(32), rb(32),                     # state / tx trie / receipt roots
        rb(sizes.get("bloom", 256)),                # logs bloom
        rb(sizes.get("difficulty", rng.randint(1, 8))),
        (number if number is not None else rng.randint(1, 2 ** 24)).to_bytes(4, "big").lstrip(b"\x00") or b"",
        rb(sizes.get("gaslimit", 3)), rb(sizes.get("gasused", rng.randint(0, 3))),
        rb(4),                                      # timestamp
        rb(sizes.get("extra", rng.randint(0, 40))),  # extra data
        rb(sizes.get("fees", rng.randint(0, 6))), rb(sizes.get("mingas", rng.randint(0, 4))),
        rb(sizes.get("uncles", rng.randint(0, 1))),
    ]
    if n_fields in (18, 20):
        f.append(rb(sizes.get("umm", rng.choice([0, 20]))))
    f.append(rb(80))                                # BTC merge mining header
    if n_fields in (19, 20):
        f.append(rb(32 * sizes.get("proof_hashes", rng.randint(0, 6))))
        if cb_full is None:
            cb_full = rb(sizes.get("cb", rng.randint(65, 300)))
        f.append(compress_coinbase(cb_full, cb_split))
    assert len(f) == n_fields, (len(f), n_fields)
    return f


def header_no_mm(fields, leave_btc_header):
    n = len(fields)
    if n in (19, 20):
        return fields[:-2] if leave_btc_header else fields[:-3]
    return fields if leave_btc_header else fields[:-1]


def block_hash(fields):
    return keccak256(rlp_encode(header_no_mm(fields, True)))


def mm_payload_len(fields):
    return rlp_list_payload_len(header_no_mm(fields, False))


# ----------------------------------------------------------------------------- BTC transactions
def varint(n):
    if n < 0xfd:
        return bytes([n])
    if n <= 0xffff:
        return b"\xfd" + struct.pack("<H", n)
    if n <= 0xffffffff:
        return b"\xfe" + struct.pack("<I", n)
    return b"\xff" + struct.pack("<Q", n)


def push_minimal(data):
    n = len(data)
    if n < 0x4c:
        return bytes([n]) + data
    if n <= 0xff:
        return b"\x4c" + bytes([n]) + data
    if n <= 0xffff:
        return b"\x4d" + struct.pack("<H", n) + data
    return b"\x4e" + struct.pack("<I", n) + data


def encode_op(op):
    """op: ('push', data, enc) enc in direct|pd1|pd2|pd4 ; ('op0',) ; ('small', n 1..16) ; ('neg1',) ;
    ('opcode', k) with k > 0x60 (or 0x50)."""
    k = op[0]
    if k == "push":
        data, enc = op[1], op[2]
        n = len(data)
        if enc == "direct":
            assert 1 <= n < 0x4c
            return bytes([n]) + data
        if enc == "pd1":
            assert n <= 0xff
            return b"\x4c" + bytes([n]) + data
        if enc == "pd2":
            assert n <= 0xffff
            return b"\x4d" + struct.pack("<H", n) + data
        if enc == "pd4":
            return b"\x4e" + struct.pack("<I", n) + data
        raise ValueError(enc)
    if k == "op0":
        return b"\x00"
    if k == "small":
        return bytes([0x50 + op[1]])
    if k == "neg1":
        return b"\x4f"
    if k == "opcode":
        return bytes([op[1]])
    raise ValueError(op)


def blank_op(op, final):
    """What the relayed form must hold in place of `op`: OP_0 for every non-final operation; the final
    operation unchanged in meaning, pushes re-encoded minimally (an empty push is OP_0)."""
    if not final:
        return b"\x00"
    if op[0] == "push":
        return push_minimal(op[1])
    return encode_op(op)


def script_bytes(ops):
    return b"".join(encode_op(o) for o in ops)


def blank_script(ops):
    return b"".join(blank_op(o, i == len(ops) - 1) for i, o in enumerate(ops))


def tx_bytes(tx, blank=False):
    """tx: dict(version, ins=[dict(prev, n, ops, seq)], outs=[dict(value, script)], lock)"""
    out = struct.pack("<i", tx["version"])
    out += varint(len(tx["ins"]))
    for i in tx["ins"]:
        s = blank_script(i["ops"]) if blank else script_bytes(i["ops"])
        out += i["prev"] + struct.pack("<I", i["n"]) + varint(len(s)) + s + struct.pack("<I", i["seq"])
    out += varint(len(tx["outs"]))
    for o in tx["outs"]:
        out += struct.pack("<q", o["value"]) + varint(len(o["script"])) + o["script"]
    out += struct.pack("<I", tx["lock"])
    return out


def random_ops(rng, n_ops, big=False):
    ops = []
    for j in range(n_ops):
        r = rng.random()
        if r < 0.45:
            n = rng.choice([1, 2, 20, 33, 71, 72, 73, 75])
            ops.append(("push", bytes(rng.getrandbits(8) for _ in range(n)), "direct"))
        elif r < 0.6:
            n = rng.choice([1, 75, 76, 105, 200, 255])
            ops.append(("push", bytes(rng.getrandbits(8) for _ in range(n)), "pd1"))
        elif r < 0.7:
            n = rng.choice([5, 255, 256, 300] + ([520, 1000] if big else []))
            ops.append(("push", bytes(rng.getrandbits(8) for _ in range(n)), "pd2"))
        elif r < 0.75:
            n = rng.choice([3, 80, 256])
            ops.append(("push", bytes(rng.getrandbits(8) for _ in range(n)), "pd4"))
        elif r < 0.85:
            ops.append(("op0",))
        elif r < 0.93:
            ops.append(("small", rng.randint(1, 16)))
        elif r < 0.96:
            ops.append(("neg1",))
        else:
            ops.append(("opcode", rng.choice([0x61, 0x76, 0x87, 0xa9, 0xac, 0xae])))
    return ops


def random_tx(rng, n_in=None, n_out=None, big=False):
    n_in = n_in if n_in is not None else rng.randint(1, 4)
    n_out = n_out if n_out is not None else rng.randint(0, 3)
    ins = []
    for _ in range(n_in):
        ops = random_ops(rng, rng.randint(1, 5), big)
        # typical p2sh multisig spend: last op is a push of the redeem script
        if rng.random() < 0.6:
            n = rng.choice([35, 71, 105, 173, 255, 300])
            enc = "direct" if n < 0x4c else ("pd1" if n <= 0xff else "pd2")
            ops[-1] = ("push", bytes(rng.getrandbits(8) for _ in range(n)), enc)
        ins.append({"prev": bytes(rng.getrandbits(8) for _ in range(32)), "n": rng.choice([0, 1, 7, 0xffffffff]),
                    "ops": ops, "seq": rng.choice([0xffffffff, 0xfffffffe, 0, rng.getrandbits(32)])})
    outs = []
    for _ in range(n_out):
        outs.append({"value": rng.choice([0, 1, 546, 10 ** 8, 21 * 10 ** 14, rng.getrandbits(50)]),
                     "script": bytes(rng.getrandbits(8) for _ in range(rng.choice([0, 22, 23, 25, 34])))})
    if n_out == 0 and rng.random() < 0.5:
        # zero outputs with >0 inputs is serialisable and unambiguous only if not mistaken for segwit marker
        pass
    return {"version": rng.choice([1, 2]), "ins": ins, "outs": outs,
            "lock": rng.choice([0, 1, 499999999, 500000000, 0xffffffff, rng.getrandbits(32)])}


HEX_SPELLINGS = ("upper", "mixed", "bytes_spaced", "grouped", "lines", "padded")


def respell(h, rng, how=None):
    """Another spelling of the same bytes that bytes.fromhex - hence every request validator of the middleware -
    accepts: letter case, blanks / tabs / line ends between bytes, blanks around."""
    how = how or rng.choice(HEX_SPELLINGS)
    pairs = [h[i:i + 2] for i in range(0, len(h), 2)]
    if how == "upper":
        return h.upper()
    if how == "mixed":
        return "".join(c.upper() if rng.random() < 0.5 else c for c in h)
    if how == "bytes_spaced":
        return " ".join(pairs)
    if how == "grouped":
        g = rng.choice([2, 4, 8, 16])
        return " ".join("".join(pairs[i:i + g]) for i in range(0, len(pairs), g))
    if how == "lines":
        return "\n".join("\t".join(pairs[i:i + 16]) for i in range(0, len(pairs), 16))
    return " " + h + " \n"


def respell_sign_request(req, rng, p=1.0):
    """Re-spell (in place) the hex-valued fields of a sign request, each with probability p."""
    def sp(v):
        return respell(v, rng) if (isinstance(v, str) and v and rng.random() < p) else v
    m = req.get("message")
    if isinstance(m, dict):
        for k in ("tx", "witnessScript", "hash"):
            if k in m:
                m[k] = sp(m[k])
    elif isinstance(m, str):
        req["message"] = sp(m)
    a = req.get("auth")
    if isinstance(a, dict):
        if "receipt" in a:
            a["receipt"] = sp(a["receipt"])
        if isinstance(a.get("receipt_merkle_proof"), list):
            a["receipt_merkle_proof"] = [sp(n) for n in a["receipt_merkle_proof"]]
    return req
