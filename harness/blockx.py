"""C05 harness: block lists as structures, what the device must receive (independent RLP / Keccak /
SHA-256 mid-state oracles), scripted and random device policies, projection into BlockExchangeProps traces."""
import json
import struct

from . import enc, mgr, reqs
from .simdev import FaithfulBlockPolicy, MODE_SIGNER
from .transport import install


def expected(blocks, advance):
    """blocks: list of dicts {fields, cb, raw, brothers:[{fields, cb, raw}]} (reqs.blocks / tiny_blocks)."""
    out = []
    for b in blocks:
        hdr = b["raw"] if advance else enc.rlp_encode(enc.header_no_mm(b["fields"], True))
        meta = struct.pack(">H", enc.mm_payload_len(b["fields"]))
        if advance:
            meta += enc.coinbase_hash(b["cb"])
        bros = []
        if advance:
            for x in sorted(b["brothers"], key=lambda x: enc.block_hash(x["fields"])):
                bros.append({"hdr": list(x["raw"]),
                             "meta": list(struct.pack(">H", enc.mm_payload_len(x["fields"])) + enc.coinbase_hash(x["cb"]))})
        out.append({"hdr": list(hdr), "meta": list(meta), "bros": bros})
    return out


def align_ties(exp, blocks, got):
    """Brothers are handed over in ascending order of block hash; among brothers of EQUAL hash no order is
    prescribed. Put each such group of the expectation in the order observed (where the observation matches a
    member at all), so that only what is prescribed is judged."""
    for j, b in enumerate(blocks):
        if j >= len(got["blocks"]) or len(b.get("brothers", [])) < 2:
            continue
        hs = sorted(enc.block_hash(x["fields"]) for x in b["brothers"])
        e, g = exp[j]["bros"], got["blocks"][j]["bros"]
        k = 0
        while k < len(hs):
            m = k
            while m + 1 < len(hs) and hs[m + 1] == hs[k]:
                m += 1
            if m > k:
                pool = e[k:m + 1]
                new = []
                for pos in range(k, m + 1):
                    pick = None
                    if pos < len(g):
                        for c in pool:
                            if c["meta"] == g[pos]["meta"] and c["hdr"][:len(g[pos]["data"])] == g[pos]["data"]:
                                pick = c
                                break
                    if pick is None:
                        pick = pool[0]
                    pool.remove(pick)
                    new.append(pick)
                e[k:m + 1] = new
            k = m + 1
    return exp


def tiny_header(rng, n_fields, target_len, relayed_target=False, measure=None):
    """A syntactically valid 19/20-field header of exactly `target_len` bytes (or, with relayed_target,
    whose form without proof/coinbase fields has that length), built from small fields."""
    cb = bytes(rng.getrandbits(8) for _ in range(70))
    ccb = enc.compress_coinbase(cb, 64)
    base = [bytes([rng.randrange(1, 0x7f)]) for _ in range(16)]
    tail = ([bytes([rng.randrange(1, 0x7f)])] if n_fields == 20 else []) + \
        [bytes(rng.getrandbits(8) for _ in range(3)), b"", ccb]

    def build(extra):
        f = list(base)
        f[12] = bytes((i * 7 + 1) & 0xff for i in range(extra))      # extra data absorbs the slack
        f = f + tail
        raw = enc.rlp_encode(f)
        rel = enc.rlp_encode(enc.header_no_mm(f, True))
        if measure is not None:
            return f, raw, measure(f, raw)
        return f, raw, len(rel if relayed_target else raw)
    extra = 0
    for _ in range(12):
        f, raw, n = build(extra)
        if n == target_len:
            return {"fields": f, "cb": cb, "raw": raw}
        extra += target_len - n
        if extra < 0:
            return None
    for extra in range(max(0, extra - 4), extra + 5):
        f, raw, n = build(extra)
        if n == target_len:
            return {"fields": f, "cb": cb, "raw": raw}
    return None


MEASURES = {
    # what the metadata announces: payload length of the header's list without the merge-mining fields
    "nomm_payload": lambda f, raw: enc.mm_payload_len(f),
    # the whole header as the client sent it
    "raw_len": lambda f, raw: len(raw),
    # the list the device is handed by updateAncestorBlock (merge-mining proof and coinbase removed)
    "relayed_len": lambda f, raw: len(enc.rlp_encode(enc.header_no_mm(f, True))),
}
# lengths at which RLP changes form (short / long list and string, 1 / 2 / 3 length bytes) or a length field
# of the wire protocol wraps
BOUNDARY_LENGTHS = [54, 55, 56, 57, 58, 254, 255, 256, 257, 258, 511, 512, 513]
BOUNDARY_LENGTHS_BIG = [65533, 65534, 65535]


def boundary_blocks(rng, what, target, advance, n_bros=1):
    """One block (and, for advance, brothers of the same kind) whose `what` is exactly `target`."""
    b = tiny_header(rng, rng.choice([19, 20]), target, measure=MEASURES[what])
    if b is None:
        return None
    b["brothers"] = []
    if advance:
        for _ in range(n_bros):
            x = tiny_header(rng, rng.choice([19, 20]), target, measure=MEASURES[what])
            if x is None:
                return None
            b["brothers"].append(x)
    return [b]


def tiny_blocks(rng, block_lens, bro_lens, unit, advance):
    out = []
    for i, L in enumerate(block_lens):
        b = tiny_header(rng, rng.choice([19, 20]), L * unit, relayed_target=not advance)
        if b is None:
            return None
        b["brothers"] = []
        if advance:
            for bl in bro_lens[i]:
                x = tiny_header(rng, rng.choice([19, 20]), bl * unit)
                if x is None:
                    return None
                b["brothers"].append(x)
        out.append(b)
    return out


def request_for(blocks, advance, rng=None):
    req = {"version": 5, "command": "advanceBlockchain" if advance else "updateAncestorBlock",
           "blocks": [b["raw"].hex() for b in blocks]}
    if advance:
        bros = [[x["raw"].hex() for x in b["brothers"]] for b in blocks]
        if rng is not None:
            for lst in bros:
                rng.shuffle(lst)       # the client's order is arbitrary; the device must see them sorted
        req["brothers"] = bros
    if rng is not None and rng.random() < 0.3:
        # the same bytes in other spellings the validators accept (letter case, blanks between bytes, ...)
        sp = lambda h: enc.respell(h, rng) if rng.random() < 0.5 else h    # noqa: E731
        req["blocks"] = [sp(h) for h in req["blocks"]]
        if advance:
            req["brothers"] = [[sp(h) for h in lst] for lst in req["brothers"]]
    return req


class ScriptedBlockPolicy:
    """Answers from a TLC behaviour; brother chunk sizes are in the same unit."""
    scripted = True

    def __init__(self, script, unit, rng):
        self.actions = []
        for st in script:
            if st[0] == "chunk":
                self.actions.append(("chunk", st[1] * unit))
            elif st[0] == "sw":
                self.actions.append(("sw", rng.choice([0x6B87, 0x6B88, 0x6B94, 0x6B9A, 0x6B9E, 0x6B9F, 0x6A99, 0x6D00])))
            elif st[0] == "op":
                self.actions.append(("op", rng.choice([0x7E, 0x01, 0x0A])))
            else:
                self.actions.append((st[0],))

    def next_action(self, dev):
        if self.actions:
            return self.actions.pop(0)
        return ("sw", 0x6B87)


class RandomBlockPolicy(FaithfulBlockPolicy):
    """Firmware-like random policy: chunk sizes 1..255, may be satisfied before the end of a block
    header, asks for brothers or not, stops after k blocks with partial/total success, rare faults."""

    def __init__(self, rng, n_blocks, advance, p_fault=0.0):
        self.rng = rng
        stop = None
        if advance and rng.random() < 0.4:
            stop = (rng.randint(1, n_blocks), rng.choice(["partial", "success"]))
        cons = {}

        def consume(kind, i, j, total):
            if kind == "brother":
                return total
            if (kind, i, j) not in cons:
                cons[(kind, i, j)] = total if rng.random() < 0.6 else rng.randint(1, total)
            return cons[(kind, i, j)]
        asks = {}

        def ask(i):
            if i not in asks:
                asks[i] = rng.random() < 0.7
            return asks[i]
        super().__init__(size=lambda kind, remaining: rng.randint(1, max(1, min(255, remaining))),
                         ask_brothers=ask, stop_after=stop, consume=consume)
        self.p_fault = p_fault
        self.faulted = False

    def on_step(self, dev, stage, obj):
        if self.p_fault and not self.faulted and self.rng.random() < self.p_fault:
            self.faulted = True
            return self.rng.choice([("sw", self.rng.choice([0x6B87, 0x6B88, 0x6B9A, 0x6B92, 0x6BA1, 0x6A99])),
                                    ("op", 0x7E)])
        return None


class Bench:
    def __init__(self):
        self.world, self.proto = mgr.serving_manager(version=2)

    def run(self, blocks, advance, policy, rng, coop, heal=True, lost_answer_at=None):
        """heal=False: whatever an earlier request left to repair is repaired by the manager itself;
        lost_answer_at=k: the answer to the k-th exchange of the block command (counted from 0, the exchanges of a
        repair not included) never arrives - the device did receive and act on what it was sent."""
        install(self.world)
        d = self.world.device
        d.mode = MODE_SIGNER
        d.blk = None
        d.block_policy = policy
        del d.blk_log[:]
        del self.world.log[:]
        if heal:
            self.proto._comm_issue = False
        self.world.fault_hook = None
        if lost_answer_at is not None:
            seen = {"n": 0}

            def hook(w, apdu, idx, k=lost_answer_at):
                if len(apdu) > 1 and apdu[1] in (0x10, 0x30):
                    seen["n"] += 1
                    if seen["n"] == k + 1:
                        return ("timeout",)
                return None
            self.world.fault_hook = hook
        req = request_for(blocks, advance, rng)
        o = mgr.handle_line(self.proto, json.dumps(req).encode())
        rep = o.reply() or {}
        code = rep.get("errorcode")
        has = isinstance(code, int) and not isinstance(code, bool)
        sess = d.blk if d.blk is not None else (d.blk_log[-1] if d.blk_log else None)
        dev = "abandoned"
        got = {"init": [], "blocks": []}
        if sess is not None:
            res = sess.get("result")
            if d.blk is None:
                dev = {"success": "total", "partial": "partial"}.get(res, "failure" if res else "abandoned")
            got["init"] = list(sess["init"])
            for blk in sess["blocks"]:
                got["blocks"].append({
                    "meta": list(blk["meta"]), "data": list(blk["data"]), "asked": bool(blk.get("asked_bros")),
                    "brocount": list(blk.get("bro_list_raw", b"")),
                    "bros": [{"meta": list(x["meta"]), "data": list(x["data"])} for x in blk["bros"]]})
        t = {"advance": advance, "count": list(struct.pack(">I", len(blocks))),
             "blocks": align_ties(expected(blocks, advance), blocks, got) if advance else expected(blocks, advance),
             "got": got, "dev": dev, "code": code if has else 99, "hascode": has, "coop": bool(coop),
             "lost": lost_answer_at is not None,
             "badblk": next((i + 1 for i, b in enumerate(blocks) if advance and len(b["fields"]) in (17, 18)), 0)}
        meta = {"code": code, "apdus": len([e for e in self.world.log if e["ev"] == "apdu"]),
                "shutdown": o.shutdown, "n_blocks": len(blocks)}
        self.world.fault_hook = None
        return t, meta
