"""C02: abstract request record (spec/Dispatch.tla) -> concrete JSON value, for both protocol modes."""
from . import enc, reqs
from .simdev import PATHS

NOAUTH = ["rsk", "mst", "trsk", "tmst"]


def _hex(rng, n):
    return bytes(rng.getrandbits(8) for _ in range(n)).hex()


class Sweep:
    """Stands in for the random source while one abstract request is concretised again and again: the j-th
    concretisation takes the j-th member (mod length) of every list a choice is made from, so that after
    `longest` rounds every member of every class the request touches has been used in this request's context.
    Everything else is delegated to the real source."""

    def __init__(self, rng):
        self.rng = rng
        self.j = 0
        self.longest = 1

    def choice(self, seq):
        seq = list(seq)
        self.longest = max(self.longest, len(seq))
        return seq[self.j % len(seq)]

    def __getattr__(self, name):
        return getattr(self.rng, name)


def key_id(cls, rng):
    return {
        "auth": lambda: PATHS[rng.choice(["btc", "tbtc"])],
        "noauth": lambda: PATHS[rng.choice(NOAUTH)],
        "otherWF": lambda: rng.choice(["m/44'/5'/0'/0/0", "m/0/0/0/0/0", "m/44'/137'/0'/0/1", "m/2147483647'/0/0/0/0"]),
        "nonstr": lambda: rng.choice([44, None, ["m/44'/0'/0'/0/0"], {"p": 1}, True]),
        "noprefix": lambda: rng.choice(["44'/0'/0'/0/0", "M/44'/0'/0'/0/0", "m44'/0'/0'/0/0", " m/44'/0'/0'/0/0"]),
        "four": lambda: "m/44'/0'/0'/0",
        "six": lambda: "m/44'/0'/0'/0/0/0",
        "nondec": lambda: rng.choice(["m/44'/0'/x/0/0", "m/44'/0'/0''/0/0", "m/44'/-1/0'/0/0", "m/44'/0x1/0'/0/0",
                                      "m/44'/ 1/0'/0/0", "m/44'/1.0/0'/0/0", "m/44\'\'/0'/0'/0/0", "m/44'/0'/0'/0/0\'\'",
                                      "m/44'/0'/0'/0/0\'\'\'", "m/'44/0'/0'/0/0", "m/4'4/0'/0'/0/0", "m/44'/0'/0'/0/0 ",
                                      "m/44'/0'/0'/0/+0", "m/44'/0'/0'/0/0\n",
                                      "m/44'/0'/0'/0/1_0", "m/44'//0'/0/0", "m/44'/0'/0'/0/0'/"]),
        "big": lambda: rng.choice(["m/44'/0'/0'/0/2147483648", "m/44'/0'/0'/0/4294967296", "m/44'/0'/0'/0/2147483648'",
                                   "m/44'/0'/0'/0/" + "9" * 30]),
        "empty": lambda: "",
        "trailing": lambda: "m/44'/0'/0'/0/",
    }[cls]()


def auth(cls, rng):
    rc = reqs.receipt(rng).hex()
    mp = [n.hex() for n in reqs.merkle_proof(rng)]
    ok = {"receipt": rc, "receipt_merkle_proof": mp}
    return {
        "ok": lambda: ok,
        "nonobj": lambda: rng.choice(["aabb", [rc], 5, None, True]),
        "rcpt_absent": lambda: {"receipt_merkle_proof": mp},
        "rcpt_nonstr": lambda: dict(ok, receipt=rng.choice([5, None, [rc], {"a": 1}])),
        "rcpt_odd": lambda: dict(ok, receipt=rc[:-1]),
        "rcpt_nonhex": lambda: dict(ok, receipt=rng.choice(["zz", "0x" + rc, rc[:-2] + "g0"])),
        "rcpt_empty": lambda: dict(ok, receipt=""),
        "proof_absent": lambda: {"receipt": rc},
        "proof_nonlist": lambda: dict(ok, receipt_merkle_proof=rng.choice(["aabb", 5, None, {"0": "aa"}])),
        "proof_emptylist": lambda: dict(ok, receipt_merkle_proof=[]),
        "proof_nonstr": lambda: dict(ok, receipt_merkle_proof=mp + [rng.choice([5, None, ["aa"]])]),
        "proof_nonhex": lambda: dict(ok, receipt_merkle_proof=mp + [rng.choice(["zz", "abc", "0xaa"])]),
        "proof_emptyelem": lambda: dict(ok, receipt_merkle_proof=mp + [""]),
    }[cls]()


def nonhex_same_length(h):
    """Strings of exactly the length of the well-formed hex value `h` that are not that many bytes of hex:
    what a length-first check followed by a lenient decoder (bytes.fromhex skips blanks) lets through."""
    n = len(h)
    return ["zz" * (n // 2), h[:n - 2] + "  ", "  " + h[2:], h[:2] + " " + h[3:], h[:n // 2 - 1] + " \t" + h[n // 2 + 1:],
            h[:n - 4] + " \r\n ", " " * (n - 2) + h[:2], "0x" + h[:n - 2], "0X" + h[:n - 2], h[:n - 1] + "g", "-" + h[1:],
            h[:n - 1] + "\u0661", h[:4] + "_" + h[5:], h[:n - 1] + "\n", "\n" + h[1:]]


def message(r, rng):
    kind = r["kind"]
    h32 = _hex(rng, 32)
    hashv = {"ok": h32, "31": _hex(rng, 31), "33": _hex(rng, 33), "nonhex": rng.choice(nonhex_same_length(h32)), "nonstr": 5,
             "extra": h32}[r["hash"]]
    tx = enc.random_tx(rng)
    txhex = enc.tx_bytes(tx).hex()
    txv = {"ok": txhex, "nonstr": rng.choice([5, None, [txhex]]), "odd": txhex[:-1], "nonhex": "zz" + txhex[2:],
           "empty": "", "undecodable": rng.choice(["deadbeef", txhex[:-8], txhex + "00", "00"])}
    inp = {"zero": 0, "k": rng.randrange(len(tx["ins"])), "max": 2 ** 32 - 1, "neg": rng.choice([-1, -2 ** 31]),
           "over": rng.choice([2 ** 32, 2 ** 64, 10 ** 30]), "bool": rng.choice([True, False]), "float": rng.choice([0.0, 1.5]),
           "str": "0"}
    mode = {"legacy": "legacy", "segwit": "segwit", "other": rng.choice(["taproot", "LEGACY", "", "segwit "]),
            "nonstr": rng.choice([0, None, ["legacy"]])}
    ws = {"ok": _hex(rng, rng.choice([1, 35, 105, 300])), "empty": "", "nonhex": "zz", "nonstr": 5, "huge": "ab" * 70000}
    ov = {"one": rng.choice([1, 5000, 2 ** 40]), "max": 2 ** 64 - 1, "zero": 0, "over": rng.choice([2 ** 64, 10 ** 25]),
          "neg": -1, "bool": True, "float": 1.0, "str": "1"}
    if kind == "absent":
        return None
    if kind == "nonobj":
        return rng.choice([h32, [h32], 5, None, True])
    if kind == "neither":
        return rng.choice([{}, {"foo": 1}, {"Hash": h32}])
    m = {}
    if kind in ("hash", "both"):
        m["hash"] = hashv
        if r["hash"] == "extra":
            m["foo"] = "bar"
    if kind in ("tx", "both"):
        if r["tx"] != "absent":
            m["tx"] = txv[r["tx"]]
        if r["inp"] != "absent":
            m["input"] = inp[r["inp"]]
        if r["mode"] != "absent":
            m["sighashComputationMode"] = mode[r["mode"]]
        if r["ws"] != "absent":
            m["witnessScript"] = ws[r["ws"]]
        if r["ov"] != "absent":
            m["outpointValue"] = ov[r["ov"]]
        if r["extra"] == "yes":
            m["extraKey"] = rng.choice([1, "x", None])
    return m


def lines_deep(rng, depth):
    from . import lines
    return lines.deep_field_header(rng, depth).hex()


def nested_rlp(depth):
    """RLP of a list nested `depth` levels deep (decodable only by a decoder that can recurse that far)."""
    inner = b"\xc0"
    for _ in range(depth):
        if len(inner) <= 55:
            inner = bytes([0xc0 + len(inner)]) + inner
        else:
            lb = len(inner).to_bytes((len(inner).bit_length() + 7) // 8, "big")
            inner = bytes([0xf7 + len(lb)]) + lb + inner
    return inner


BLOCK_COUNTS = [1, 2, 3, 255, 256, 257, 300]


def blocks_and_brothers(r, advance, rng):
    # how many blocks a well-formed request carries is a dimension of its own when the request is swept
    # (the documents set no upper bound; 255 / 256 / 257 are where small-integer representations change)
    n = rng.choice(BLOCK_COUNTS) if (isinstance(rng, Sweep) and r["blocks"] == "ok") else rng.randint(1, 2)
    bl = reqs.blocks(rng, n, advance, bro_counts=[0] * n if (advance and n > 3) else None)
    raw = [b["raw"].hex() for b in bl]
    bros_ok = [[x["raw"].hex() for x in b["brothers"]] for b in bl] if advance else None
    out = {}
    bc = r["blocks"]
    blocks = {"ok": raw, "nonlist": rng.choice([raw[0], 5, None, {"0": raw[0]}]), "empty": [],
              "nonstr_elem": raw + [rng.choice([5, None, [raw[0]]])],
              "nonhex": [rng.choice(["zz", raw[0][:-1], "0x" + raw[0]])],
              "notheader": [rng.choice(["abcdef", "83616263", enc.rlp_encode([b"a"] * 5).hex(), "c0",
                                        nested_rlp(60).hex(), nested_rlp(600).hex(), nested_rlp(1100).hex(),
                                        nested_rlp(3000).hex(), lines_deep(rng, 1100), lines_deep(rng, 400)])]}
    if bc != "absent":
        out["blocks"] = blocks[bc]
    if not advance:
        return out
    n = len(out["blocks"]) if isinstance(out.get("blocks"), list) else 1
    base = bros_ok if (bc == "ok") else [[] for _ in range(n)]
    hdr = raw[0]
    first = lambda v: [v] + base[1:]   # noqa: E731
    brc = r["brothers"]
    bros = {"ok": base, "nonlist": rng.choice(["ab", 5, None, {"0": []}]),
            "lenmismatch": rng.choice([base + [[]], base[:-1]]),
            "elem_nonlist": first(rng.choice([hdr, 5, None])), "bro_nonstr": first([rng.choice([5, None, [hdr]])]),
            "bro_empty": first([""]), "bro_odd": first(["abc"]), "bro_nonhex": first([rng.choice(["zz", "0xab"])]),
            "bro_notheader": first([rng.choice(["abcdef", "83616263", enc.rlp_encode([b"a"] * 3).hex(),
                                                nested_rlp(600).hex(), nested_rlp(1100).hex(), nested_rlp(3000).hex(),
                                                lines_deep(rng, 1100)])]),
            "over255": first([hdr] * 256)}
    if brc != "absent":
        out["brothers"] = bros[brc]
    return out


def ud_value(cls, size, rng):
    other = 32 if size == 16 else 16
    return {"ok": _hex(rng, size), "nonstr": rng.choice([5, None, [_hex(rng, size)]]),
            "nonhex": rng.choice(nonhex_same_length(_hex(rng, size))),
            "short": _hex(rng, size - 1), "long": _hex(rng, size + 1), "swapped": _hex(rng, other)}[cls]


def concretise(r, v1, rng):
    """-> JSON-able value for the abstract request r."""
    right = 1 if v1 else 5
    d = {}
    cmd = r["cmd"]
    if cmd == "unknown":
        d["command"] = rng.choice(["fooBar", "Version", "sign ", "", "getpubkey"])
    elif cmd == "nonstr":
        d["command"] = rng.choice([7, None, True, ["version"], {"a": 1}, 1.5])
    elif cmd != "missing":
        d["command"] = cmd
    ver = r["ver"]
    if ver != "absent":
        d["version"] = {"right": right, "otherint": rng.choice([v for v in (0, 1, 2, 3, 4, 5, 6, -5, 10 ** 20) if v != right]),
                        "string": str(right), "float": float(right) if not (v1 and rng.random() < 0.5) else True,
                        "bool": (False if v1 else rng.choice([True, False])), "null": None, "list": [right]}[ver]
    if cmd in ("getPubKey", "sign"):
        if r["keyId"] != "absent":
            d["keyId"] = key_id(r["keyId"], rng)
    if cmd == "sign":
        if v1:
            h = _hex(rng, 32)
            v = {"ok": h, "nonstr": rng.choice([5, None, [h]]), "nonhex": rng.choice(nonhex_same_length(h)), "short": _hex(rng, 31),
                 "long": _hex(rng, 33), "object": {"hash": h}}
            if r["v1msg"] != "absent":
                d["message"] = v[r["v1msg"]]
        else:
            if r["auth"] != "absent":
                d["auth"] = auth(r["auth"], rng)
            m = message(r, rng)
            if r["kind"] != "absent":
                d["message"] = m
    if cmd in ("advanceBlockchain", "updateAncestorBlock"):
        d.update(blocks_and_brothers(r, cmd == "advanceBlockchain", rng))
    if cmd in ("signerHeartbeat", "uiHeartbeat"):
        if r["ud"] != "absent":
            d["udValue"] = ud_value(r["ud"], 16 if cmd == "signerHeartbeat" else 32, rng)
    if rng.random() < 0.3:
        d["someUnknownKey"] = rng.choice([1, "x", [1, 2], {"a": None}])
    if rng.random() < 0.5:
        items = list(d.items())
        rng.shuffle(items)
        d = dict(items)
    shape = r["shape"]
    if shape == "object":
        return d
    return {"list": [d], "string": "version", "number": rng.choice([5, -1, 2.5]), "null": None}[shape]
