"""A scripted HTTP layer for the admin tools (C15): stands in for `requests` inside admin.rsk_client
(JSON-RPC POSTs to a Rootstock node) and admin.attestation_utils (GET of the SGX root of trust).
Nothing leaves the process; every call is recorded (verb, url, JSON-RPC method / params / id kind,
content type) so that the trace carries what the tool really asked for.

    node = FakeNode(number=0x2a51, hash_n=..., behaviour="ok", at=2)
    web  = FakeWeb({url: (200, pem_bytes)})
    with Patched(FakeHttp(node=node, web=web)) as http:  ...  http.calls

Node behaviours (what the environment may do; `at` = which of the two calls misbehaves):
  proper      ok        both calls answered as a node does
              grew      the chain grew between the calls (best is n+1 at the second call; block n as before)
              reorg     block n was replaced between the calls (the second call reports another hash for n)
  either call status    HTTP status != 200 (body fine)   badid     JSON-RPC id is not the request's
              notjson   body is not JSON            noresult  an `error` member instead of `result`
  call 1      nothex    block number is not a hexadecimal string
  call 2      nohash    block object without `hash`      nullblock  `result` is null (unknown block)
              hashlen   hash of 31 bytes                 hashnothex hash with non-hex characters
              hashnoprefix  64 hex digits without the 0x prefix
"""
import json

PROPER = ("ok", "grew", "reorg")
BAD_ANY = ("status", "badid", "notjson", "noresult")
BAD_1 = ("nothex",)
BAD_2 = ("nohash", "nullblock", "hashlen", "hashnothex", "hashnoprefix")


def node_behaviours():
    """Every (behaviour, at) the environment may choose."""
    out = [(b, 0) for b in PROPER]
    out += [(b, k) for b in BAD_ANY for k in (1, 2)]
    out += [(b, 1) for b in BAD_1] + [(b, 2) for b in BAD_2]
    return out


class Response:
    def __init__(self, status, body):
        self.status_code = status
        self.content = body if isinstance(body, bytes) else body.encode()

    @property
    def text(self):
        return self.content.decode("utf-8", "replace")

    def json(self):
        return json.loads(self.text)


class FakeNode:
    """The Rootstock node as the environment: best block number `number`, hash of block n `hash_n`
    (bytes), and - for `reorg` - the hash that replaces it before the second call."""

    def __init__(self, number, hash_n, behaviour="ok", at=0, hash_reorg=None, status=500,
                 junk=b"<html>busy</html>", upper=False):
        self.number = number
        self.hash_n = hash_n
        self.hash_reorg = hash_reorg or bytes(b ^ 0x5A for b in hash_n)
        self.behaviour = behaviour
        self.at = at
        self.status = status
        self.junk = junk
        self.upper = upper          # hash digits in upper case
        self.calls_seen = 0

    def expected_ud(self):
        """What a properly answering node obliges the tool to use: the hash it reports for block n at
        the second call (None when it misbehaves)."""
        if self.behaviour not in PROPER:
            return None
        return self.hash_reorg if self.behaviour == "reorg" else self.hash_n

    def handle(self, req):
        """req: decoded JSON-RPC request (or None if the body was not JSON). Returns Response."""
        self.calls_seen += 1
        k = self.calls_seen
        bad = self.behaviour if (self.behaviour not in PROPER and self.at == k) else None
        rid = req.get("id") if isinstance(req, dict) else None
        method = req.get("method") if isinstance(req, dict) else None
        if bad == "notjson":
            return Response(200, self.junk)
        if bad == "badid":
            rid = (rid + 1) % 65536 if isinstance(rid, int) else 7
        if bad == "noresult":
            return Response(200, json.dumps({"jsonrpc": "2.0", "id": rid,
                                             "error": {"code": -32603, "message": "internal error"}}))
        if method == "eth_blockNumber":
            result = "0x%x" % (self.number + (1 if self.behaviour == "grew" and k > 1 else 0))
            if bad == "nothex":
                result = "%dz" % self.number
        elif method == "eth_getBlockByNumber":
            params = req.get("params") or [None]
            try:
                asked = int(params[0], 16)
            except (TypeError, ValueError):
                asked = None
            if asked != self.number:
                result = None                     # a block this node does not have
            else:
                h = self.hash_reorg if self.behaviour == "reorg" else self.hash_n
                hx = h.hex().upper() if self.upper else h.hex()
                block = {"number": "0x%x" % self.number, "hash": "0x" + hx,
                         "parentHash": "0x" + bytes(32).hex(), "transactions": []}
                if bad == "nohash":
                    del block["hash"]
                elif bad == "hashlen":
                    block["hash"] = "0x" + hx[:62]
                elif bad == "hashnothex":
                    block["hash"] = "0x" + hx[:60] + "zz" + hx[62:]
                elif bad == "hashnoprefix":
                    block["hash"] = hx
                result = None if bad == "nullblock" else block
        else:
            return Response(200, json.dumps({"jsonrpc": "2.0", "id": rid,
                                             "error": {"code": -32601, "message": "method not found"}}))
        # a status other than 200 comes with an otherwise perfect answer (a sloppy gateway)
        return Response(self.status if bad == "status" else 200,
                        json.dumps({"jsonrpc": "2.0", "id": rid, "result": result}))


class FakeWeb:
    """Static GET answers: {url: (status, body bytes)}; anything else is a 404."""

    def __init__(self, pages=None):
        self.pages = dict(pages or {})

    def handle(self, url):
        status, body = self.pages.get(url, (404, b"not found"))
        return Response(status, body)


class FakeHttp:
    def __init__(self, node=None, node_url=None, web=None):
        self.node = node
        self.node_url = node_url
        self.web = web or FakeWeb()
        self.calls = []

    # -- the part of the `requests` API the tools use
    def post(self, url, headers=None, data=None, **kw):
        try:
            req = json.loads(data)
        except (TypeError, ValueError):
            req = None
        ctype = ""
        for k, v in (headers or {}).items():
            if k.lower() == "content-type":
                ctype = str(v)
        rec = {"verb": "post", "url": str(url), "ctype": ctype,
               "method": str(req.get("method")) if isinstance(req, dict) else "",
               "params": [p if isinstance(p, str) else json.dumps(p) for p in
                          (req.get("params") if isinstance(req, dict) and isinstance(req.get("params"), list)
                           else [])],
               "version": str(req.get("jsonrpc")) if isinstance(req, dict) else "",
               "idkind": type(req.get("id")).__name__ if isinstance(req, dict) else "none",
               "extra": sorted(kw)}
        self.calls.append(rec)
        if self.node is None or (self.node_url is not None and url != self.node_url):
            raise ConnectionError("no route to %s" % url)
        return self.node.handle(req)

    def get(self, url, **kw):
        self.calls.append({"verb": "get", "url": str(url), "ctype": "", "method": "", "params": [],
                           "version": "", "idkind": "none", "extra": sorted(kw)})
        return self.web.handle(url)


class _Proxy:
    def __init__(self, real, http):
        self.__dict__["_real"] = real
        self.__dict__["post"] = http.post
        self.__dict__["get"] = http.get

    def __getattr__(self, k):
        return getattr(self.__dict__["_real"], k)


class Patched:
    """`requests` as seen by admin.rsk_client and admin.attestation_utils is the fake layer."""

    def __init__(self, http):
        self.http = http
        self.saved = []

    def __enter__(self):
        import admin.rsk_client as rc
        import admin.attestation_utils as au
        for mod in (rc, au):
            self.saved.append((mod, mod.requests))
            mod.requests = _Proxy(mod.requests, self.http)
        return self.http

    def __exit__(self, *a):
        for mod, real in self.saved:
            mod.requests = real
        return False
