"""C10 harness: manager lifetimes as child processes (fork), real FileBasedPin over a real file, a
device whose PIN is durable (journal file), per-operation file-system faults, crash = os._exit(77) at a
chosen point. Events are written unbuffered to a pipe, so a crash loses nothing already observed."""
import builtins
import json
import os

from . import env
from .simdev import SimDevice, MODE_BOOT, MODE_SIGNER
from .transport import World, install
from . import bringup

DEFAULT_PIN = b"dflt0000"
ALNUM = set(b"abcdefghijklmnopqrstuvwxyzABCDEFGHIJKLMNOPQRSTUVWXYZ0123456789")
LETTERS = set(b"abcdefghijklmnopqrstuvwxyzABCDEFGHIJKLMNOPQRSTUVWXYZ")


def looks_valid(p):
    return len(p) == 8 and all(c in ALNUM for c in p) and any(c in LETTERS for c in p)


def read_file(path):
    try:
        fd = os.open(path, os.O_RDONLY)
    except FileNotFoundError:
        return None
    try:
        return os.read(fd, 4096)
    finally:
        os.close(fd)


class _Crash:
    def __init__(self, point, phase=0):
        self.point = point
        self.count = {}
        self.phase = phase      # the point is armed only in this phase (0: start-up, 1: after a reboot)
        self.now = 0

    def at(self, name):
        """name like 'apdu:unlock' ; plan point 'apdu:unlock#2' = second occurrence."""
        if self.point is None or self.now != self.phase:
            return
        self.count[name] = self.count.get(name, 0) + 1
        if self.point == name or self.point == "%s#%d" % (name, self.count[name]):
            os._exit(77)


class _FaultyFile:
    """Buffered writer with Python's real durability semantics made explicit: data reach the file at
    close; a failing write/close leaves what the truncating open left."""

    def __init__(self, real, owner):
        self.real = real
        self.o = owner
        self.buf = b""

    def write(self, data):
        if self.o.fault == "write":
            self.o.emit({"k": "fs", "op": "write", "ok": "f"})
            self.o.crash.at("fs:write:fail")
            raise OSError(28, "No space left on device (injected)")
        self.buf += bytes(data)
        self.o.emit({"k": "fs", "op": "write", "ok": "t"})
        self.o.crash.at("fs:write:post")
        return len(data)

    def close(self):
        if self.o.fault == "close":
            try:
                os.close(self.real)
            except OSError:
                pass
            self.o.emit({"k": "fs", "op": "close", "ok": "f"})
            self.o.crash.at("fs:close:fail")
            raise OSError(5, "Input/output error (injected)")
        os.write(self.real, self.buf)
        os.fsync(self.real)
        os.close(self.real)
        self.o.emit({"k": "fs", "op": "close", "ok": "t"})
        self.o.crash.at("fs:close:post")

    def __enter__(self):
        return self

    def __exit__(self, et, ev, tb):
        if et is None:
            self.close()
        else:
            try:
                os.close(self.real)
            except OSError:
                pass
        return False


class _Life:
    def __init__(self, plan, wfd):
        self.plan = plan
        self.wfd = wfd
        self.fault = plan.get("fs_fault")
        self.crash = _Crash(plan.get("crash"), plan.get("crash_phase", 0))
        self.dev = None

    def emit(self, ev):
        ev = dict(ev)
        f = read_file(self.plan["pin_path"])
        ev["file_bytes"] = None if f is None else f.hex()
        ev["dev_bytes"] = (self.dev.pin if self.dev is not None else bytes.fromhex(self.plan["devpin"])).hex()
        os.write(self.wfd, (json.dumps(ev) + "\n").encode())

    def open(self, path, mode="r", *a, **k):
        if path != self.plan["pin_path"] or "w" not in mode:
            return builtins.open(path, mode, *a, **k)
        self.crash.at("fs:open:pre")
        if self.fault == "open":
            self.emit({"k": "fs", "op": "open", "ok": "f"})
            self.crash.at("fs:open:fail")
            raise PermissionError(13, "Permission denied (injected)")
        fd = os.open(path, os.O_WRONLY | os.O_CREAT | os.O_TRUNC, 0o600)
        self.emit({"k": "fs", "op": "open", "ok": "t"})
        self.crash.at("fs:open:post")
        return _FaultyFile(fd, self)

    def run(self):
        p = self.plan
        plat = p["plat"]
        from comm.platform import Platform
        Platform.set(Platform.LEDGER if plat == "ledger" else Platform.SGX)
        d = SimDevice(platform="sgx" if plat == "sgx" else "ledger",
                      mode=MODE_SIGNER if p.get("start_mode") == "signer" else MODE_BOOT, seed=p["seed"])
        d.pin = bytes.fromhex(p["devpin"])
        d.retries = p.get("retries", 3)
        d.newpin_answer = p["newpin_answer"]
        d.journal = p["journal"]
        d.exit_modes = [MODE_SIGNER]
        self.dev = d
        world = World(d, "hid" if plat == "ledger" else "tcp")
        install(world)
        if p["newpin_answer"] == "cut":
            # the transfer of the new PIN is cut short by a time-out before the device is told to take it: one of
            # the PIN bytes sent after the unlock (Ledger), the command itself never reaching the device (SGX)
            d.newpin_answer = "ack"
            import zlib
            cut = {"k": zlib.crc32(p["seed"].encode()) % 9, "n": 0, "after_unlock": False}

            def cut_hook(w, apdu, idx):
                cls = bringup.classify(apdu)
                if cls == "unlock":
                    cut["after_unlock"] = True
                    return None
                if plat == "sgx":
                    return ("timeout_before",) if cls == "change_pin" else None
                if cls == "pin_byte" and cut["after_unlock"]:
                    cut["n"] += 1
                    if cut["n"] == cut["k"] + 1:
                        return ("timeout",)
                return None
            world.fault_hook = cut_hook
        import ledger.pin as lpin
        lpin.open = self.open
        self.emit({"k": "start", "force": bool(p["force"])})
        self.crash.at("started")
        from ledger.pin import PinError
        import types
        # the PIN is loaded the way the manager's entry point for this platform loads it
        if plat == "sgx":
            import manager_sgx as entry
        else:
            import manager_ledger as entry
        os.environ["PIN"] = DEFAULT_PIN.decode()
        try:
            pin = entry.load_pin(types.SimpleNamespace(pin_file=p["pin_path"], force_pin_change=p["force"]))
        except PinError:
            self.emit({"k": "load", "ok": "f"})
            self.emit({"k": "end", "outcome": "stop"})     # no PIN object: no PIN in use
            return
        self.emit({"k": "load", "ok": "t", "pin_bytes": pin.get_pin().hex()})
        self.crash.at("loaded")
        buf = bytearray(16)
        state = {"unlocked": False}

        def on_event(ev):
            if ev["ev"] != "apdu":
                return
            cls = bringup.classify(ev["apdu"])
            mode = bringup.mode_name(ev["truth"]["mode"])
            if cls == "cmd02":
                cls = "echo" if mode == "boot" else "sign"
            resp = ev.get("resp")
            if cls == "pin_byte" and state["unlocked"] and len(ev["apdu"]) >= 4:
                buf[ev["apdu"][2]] = ev["apdu"][3]
            if cls == "unlock":
                ok = ev.get("sw") == 0x9000 and resp is not None and len(resp) > 2 and resp[2] != 0
                state["unlocked"] = ok
                # the PIN the device was asked to unlock with (its own buffer on Ledger, the APDU's on SGX)
                try:
                    shown = bytes(d.pinbuf).split(b"\x00")[0] if plat != "sgx" else bytes(ev["apdu"][3:])
                except Exception:
                    shown = b""
                self.emit({"k": "unlock", "ok": "t" if ok else "f", "pin_bytes": shown.hex()})
            if cls == "change_pin":
                if ev["apdu"][1] == 0xA5:
                    newpin = bytes(ev["apdu"][3:])
                    ok = ev.get("sw") == 0x9000 and resp is not None and len(resp) > 2 and resp[2] == 1
                else:
                    newpin = bytes(buf[1:1 + buf[0]])
                    ok = ev.get("sw") == 0x9000
                self.emit({"k": "newpin", "ok": "t" if ok else "f", "pin_bytes": newpin.hex()})
            self.crash.at("apdu:" + cls)
        world.on_event = on_event
        from ledger.hsm2dongle import HSM2Dongle
        from sgx.hsm2dongle import HSM2DongleSGX
        from ledger.protocol import HSM2ProtocolLedger
        dongle = HSM2Dongle(False) if plat == "ledger" else HSM2DongleSGX("127.0.0.1", 1, False)
        proto = HSM2ProtocolLedger(pin, dongle)
        try:
            proto.initialize_device()
            outcome = "serve"
        except BaseException:   # noqa
            outcome = "stop"
        self.crash.at("ending")
        self.emit({"k": "end", "outcome": outcome, "mem_bytes": bytes(pin.get_pin()).hex()})
        if outcome != "serve" or not p.get("reboot"):
            return
        # serving: a request meets a dead link, the device comes back in the bootloader (power cycle), the
        # next request's ensure_connection runs the bring-up again in this same process
        from comm.protocol import HSM2ProtocolInterrupt
        if p.get("warmup"):
            # the manager has been serving for a while: hundreds of ordinary requests through the same handler first
            self.crash.point, armed0 = None, self.crash.point
            for k in range(p["warmup"]):
                self.serve_over_socket(proto, {"command": "version"} if k % 3 else
                                       {"version": 5, "command": "getPubKey", "keyId": "m/44'/0'/0'/0/0"}, "wait", world,
                                       settle=False)
            self.crash.point = armed0
        self.crash.now = 1
        self.crash.count = {}
        req = {"version": 5, "command": "getPubKey", "keyId": "m/44'/0'/0'/0/0"}
        world.reset_counters()
        world.faults = {0: ("write",)}
        self.crash.point, armed = None, self.crash.point
        try:
            proto.handle_request(dict(req))
        except BaseException:   # noqa
            pass
        self.crash.point = armed
        world.faults = {}
        d.mode = MODE_BOOT
        d.exit_modes = [MODE_SIGNER]
        if p.get("reboot") == "cut":
            # the first repair is cut short by a time-out in the middle of the PIN transfer; the next request repairs again
            world.reset_counters()
            # (Ledger: one of the PIN byte transfers, exchanges 5..13 of the bring-up; SGX: the echo or retries query)
            world.faults = {p.get("cut_at", 8 if plat != "sgx" else 4): ("timeout",)}
            self.crash.point, armed2 = None, self.crash.point
            try:
                proto.handle_request(dict(req))
            except BaseException:   # noqa
                # anything escaping a request ends the manager
                self.crash.point = armed2
                self.crash.at("ending")
                self.emit({"k": "end", "outcome": "stop", "mem_bytes": bytes(pin.get_pin()).hex()})
                return
            self.crash.point = armed2
            world.faults = {}
            world.reset_counters()
        self.crash.at("reboot")
        client = p.get("client", "direct")
        if client != "direct":
            # through the server's own per-connection handler over a real loopback connection, with a client that
            # waits for the reply / has closed / has reset the connection by the time the reply is written
            outcome = self.serve_over_socket(proto, req, client, world)
        else:
            try:
                proto.handle_request(dict(req))
                outcome = "serve"
            except HSM2ProtocolInterrupt:
                outcome = "stop"
            except BaseException:   # noqa
                outcome = "stop"
        self.crash.at("ending")
        self.emit({"k": "end", "outcome": outcome, "mem_bytes": bytes(pin.get_pin()).hex()})


def _serve_over_socket(self, proto, req, client, world, settle=True):
    """One request handled by comm.server's connection handler exactly as socketserver would run it. The manager
    stops iff the handler asks the server to shut down; an exception the handler lets out is logged by socketserver
    and the manager carries on."""
    import logging
    import socket
    import struct
    import threading
    import time
    import comm.server as cs
    lst = socket.socket()
    lst.bind(("127.0.0.1", 0))
    lst.listen(1)
    c = socket.create_connection(lst.getsockname(), timeout=10)
    conn, addr = lst.accept()
    c.sendall(json.dumps(req).encode() + b"\n")
    stopped = threading.Event()

    class Srv:
        protocol = proto
        logger = logging.getLogger("srver")

        def shutdown(self):
            stopped.set()
    gone = {"done": False}
    prev = world.on_event

    def on_event(ev):
        # the client goes away while the device is being talked to (first exchange of the request)
        if not gone["done"] and ev["ev"] in ("apdu", "open", "close") and client in ("fin", "rst"):
            gone["done"] = True
            if client == "rst":
                c.setsockopt(socket.SOL_SOCKET, socket.SO_LINGER, struct.pack("ii", 1, 0))
            c.close()
            time.sleep(0.05)
        if prev is not None:
            prev(ev)
    world.on_event = on_event
    try:
        cs._TCPServerRequestHandler(conn, addr, Srv())
    except BaseException:   # noqa
        pass                # socketserver.BaseServer.handle_error: printed, the server goes on
    finally:
        world.on_event = prev
    for _ in range(40 if settle else 0):
        if stopped.is_set():
            break
        time.sleep(0.005)
    for x in (c, conn, lst):
        try:
            x.close()
        except OSError:
            pass
    return "stop" if stopped.is_set() else "serve"


_Life.serve_over_socket = _serve_over_socket


def preload():
    """Import everything a lifetime needs in the parent, so that forked children start warm."""
    env.setup()
    install(World(SimDevice()))
    import ledger.pin, ledger.protocol, ledger.hsm2dongle, sgx.hsm2dongle, comm.platform  # noqa
    import manager_ledger, manager_sgx  # noqa


def run_lifetime(plan):
    """Fork one manager lifetime. Returns (events, crashed)."""
    env.setup()
    r, w = os.pipe()
    pid = os.fork()
    if pid == 0:
        code = 0
        try:
            os.close(r)
            _Life(plan, w).run()
        except BaseException:   # noqa
            import traceback
            traceback.print_exc()
            code = 3
        finally:
            os._exit(code)
    os.close(w)
    chunks = []
    while True:
        b = os.read(r, 65536)
        if not b:
            break
        chunks.append(b)
    os.close(r)
    _, status = os.waitpid(pid, 0)
    code = os.waitstatus_to_exitcode(status)
    if code not in (0, 77):
        raise RuntimeError("lifetime child failed with exit code %s" % code)
    evs = [json.loads(ln) for ln in b"".join(chunks).decode().splitlines() if ln]
    return evs, code == 77


class History:
    """Runs a sequence of lifetimes over one pin file + one device, projecting to PinStoreProps events."""

    def __init__(self, scratch, tag, plat, init_file, seed):
        self.plat = plat
        self.pin_path = os.path.join(scratch, "pin_%s.txt" % tag)
        self.journal = os.path.join(scratch, "dev_%s.pin" % tag)
        for p in (self.pin_path, self.journal):
            if os.path.exists(p):
                os.unlink(p)
        self.ids = {DEFAULT_PIN: 0}
        self.devpin = DEFAULT_PIN
        self.seed = seed
        self.events = []
        self.newpins = []
        content = {100: None, 0: DEFAULT_PIN, 101: b"", 102: b"!! not a pin !!\n"}[init_file]
        if content is not None:
            with open(self.pin_path, "wb") as f:
                f.write(content)
        self.file0 = self.file_class(read_file(self.pin_path))
        self.dev0 = 0
        self.lives = 0

    def pin_id(self, b):
        if b not in self.ids:
            self.ids[b] = len(self.ids)
        return self.ids[b]

    def file_class(self, content):
        if content is None:
            return 100
        if len(content) == 0:
            return 101
        s = content.strip()
        if looks_valid(s):
            return self.pin_id(s)
        return 102

    def lifetime(self, force, newpin_answer, fs_fault=None, crash=None, retries=3, start_mode="boot",
                 reboot=False, crash_phase=0):
        self.lives += 1
        plan = {"plat": self.plat, "force": force, "newpin_answer": newpin_answer, "fs_fault": fs_fault,
                "crash": crash, "start_mode": start_mode, "reboot": reboot, "crash_phase": crash_phase,
                "pin_path": self.pin_path, "journal": self.journal,
                "devpin": self.devpin.hex(), "seed": "%s:%d" % (self.seed, self.lives), "retries": retries}
        if reboot:
            # how the request that repairs the link reaches the manager, and what its client does meanwhile
            import zlib
            plan["client"] = ["direct", "wait", "fin", "rst"][zlib.crc32(plan["seed"].encode()) % 4]
            if plan["client"] != "direct" and zlib.crc32(plan["seed"].encode()) % 8 < 4:
                plan["warmup"] = 230
        evs, crashed = run_lifetime(plan)
        j = read_file(self.journal)
        if j is not None:
            self.devpin = j
        for e in evs:
            self.events.append(self._project(e))
        if crashed:
            f = read_file(self.pin_path)
            self.events.append(self._project({"k": "end", "outcome": "crash",
                                              "file_bytes": None if f is None else f.hex(),
                                              "dev_bytes": self.devpin.hex()}))
        return crashed, [e["k"] for e in evs]

    def _project(self, e):
        f = e["file_bytes"]
        out = {"k": e["k"], "file": self.file_class(None if f is None else bytes.fromhex(f)),
               "dev": self.pin_id(bytes.fromhex(e["dev_bytes"])), "ok": e.get("ok", "na"),
               "pin": 99, "op": e.get("op", "na"), "outcome": e.get("outcome", "na"),
               "force": bool(e.get("force", False)), "mem": 99}
        if "mem_bytes" in e:
            out["mem"] = self.pin_id(bytes.fromhex(e["mem_bytes"]))
        if "pin_bytes" in e:
            pb = bytes.fromhex(e["pin_bytes"])
            out["pin"] = self.pin_id(pb)
            if e["k"] == "newpin":
                self.newpins.append(pb)
        return out

    def trace(self, tid):
        return {"id": tid, "kind": "life", "file0": self.file0, "dev0": self.dev0, "ev": self.events,
                "pins": []}
