"""The real manager server loop (comm.server.TCPServer.run after a real bring-up) on an ephemeral loopback
port, in a thread of the harness process, with a raw-socket client."""
import json
import socket
import threading

from . import core, mgr
from .simdev import SimDevice, MODE_SIGNER
from .transport import World, install


class LiveManager:
    """The real server loop on an ephemeral loopback port, in a thread of this process."""

    def __init__(self, version, host="127.0.0.1"):
        self.version = version
        self.device = SimDevice(mode=MODE_SIGNER, seed="c03")
        self.world = World(self.device, "hid")
        self.proto = mgr.make_protocol(self.world, version)
        from comm.server import TCPServer
        import comm.server as cs
        self.shutdown_calls = 0
        outer = self
        if not getattr(cs._TCPServerRequestHandler, "_verif_wrapped", False):
            orig = cs._TCPServerRequestHandler.shutdown

            def shutdown(handler):
                rec = getattr(handler.server, "_verif_owner", None)
                if rec is not None:
                    rec.shutdown_calls += 1
                return orig(handler)
            cs._TCPServerRequestHandler.shutdown = shutdown
            cs._TCPServerRequestHandler._verif_wrapped = True
        self.srv = TCPServer(host, 0, self.proto)
        self.exc = None
        self.thread = threading.Thread(target=self._run, daemon=True)
        self.thread.start()
        for _ in range(60000):
            if self.srv.server is not None or not self.thread.is_alive():
                break
            threading.Event().wait(0.001)
        if self.srv.server is None:
            raise core.MachineryError("manager did not start: %s" % self.exc)
        self.srv.server._verif_owner = self
        self.addr = self.srv.server.server_address
        if host in ("0.0.0.0", ""):
            # bound to every interface: clients reach it over IPv4 loopback, and try IPv6 loopback as well
            self.addr = ("127.0.0.1", self.addr[1])
            self.alt_addrs = [("::1", self.addr[1]), self.addr]

    def _run(self):
        try:
            self.srv.run()
        except BaseException as e:   # noqa
            self.exc = e

    DELIVERIES = ("whole", "pieces", "eof", "open", "two")

    def request(self, line, timeout=60, delivery="whole"):
        """One connection: send a line, read to EOF. Returns the conn event. `delivery`: the line and its
        terminator in one write then the write side closed (whole); in small pieces (pieces); without a
        terminator, ended by closing the write side (eof); terminated, write side left open (open); followed by a
        second line (two)."""
        install(self.world)
        before = self.shutdown_calls
        # keep the well-behaved device in a sane state between independent requests
        try:
            s = socket.create_connection(self.addr, timeout=5)
        except OSError:
            return {"connected": False, "nlines": 0, "isobj": False, "hascode": False, "shutdown": False}, b""
        data = b""
        try:
            s.settimeout(timeout)
            try:
                if delivery == "pieces":
                    data_out = line + b"\n"
                    step = max(1, len(data_out) // 7)
                    for i in range(0, len(data_out), step):
                        s.sendall(data_out[i:i + step])
                        threading.Event().wait(0.002)
                    s.shutdown(socket.SHUT_WR)
                elif delivery == "eof" and b"\n" not in line and line.strip() == line:
                    s.sendall(line)
                    s.shutdown(socket.SHUT_WR)
                elif delivery == "open":
                    s.sendall(line + b"\n")
                elif delivery == "two":
                    s.sendall(line + b"\n" + b'{"command":"version"}\n')
                    s.shutdown(socket.SHUT_WR)
                else:
                    s.sendall(line + b"\n")
                    s.shutdown(socket.SHUT_WR)
            except OSError:
                pass        # a manager that is gone resets the connection: an observation (no reply), not a failure
            timed_out = False
            while True:
                try:
                    b = s.recv(65536)
                except socket.timeout:
                    timed_out = True
                    break
                except ConnectionError:
                    break
                if not b:
                    break
                data += b
        finally:
            s.close()
        ev = {"connected": True, "nlines": 0, "isobj": False, "hascode": False,
              "shutdown": self.shutdown_calls > before}
        if timed_out and not data:
            # nothing came back in time: the (single-threaded) manager is still busy with this request and will serve
            # nobody else meanwhile - the caller abandons this manager (stop() would wait for it for ever)
            self.stuck = True
        if data:
            parts = data.split(b"\n")
            complete, rest = parts[:-1], parts[-1]
            ev["nlines"] = len(complete) + (1 if rest else 0)
            if len(complete) == 1 and not rest:
                try:
                    v = json.loads(complete[0].decode("utf-8"))
                    ev["isobj"] = isinstance(v, dict)
                    c = v.get("errorcode") if isinstance(v, dict) else None
                    ev["hascode"] = isinstance(c, int) and not isinstance(c, bool)
                except Exception:
                    pass
        return ev, data

    stuck = False

    def alive(self):
        return self.thread.is_alive() and self.shutdown_calls == 0 and not self.stuck

    def stop(self):
        if self.stuck:
            return
        try:
            if self.srv.server is not None:
                self.srv.server.shutdown()
        except Exception:
            pass
        self.thread.join(5)


