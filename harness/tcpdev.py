"""A simulated device behind a real loopback TCP socket speaking ledgerblue's commTCP framing
(request: 4-byte big-endian length + APDU; answer: 4-byte length + data + 2-byte status word), so that the
middleware's TCP transport (ledgerblue.commTCP.DongleServer through HSM2DongleTCP / HSM2DongleSGX) runs unpatched:
what is left in the byte stream by one exchange is what the next one reads."""
import socket
import struct
import threading


def _recvall(conn, n):
    data = b""
    while len(data) < n:
        b = conn.recv(n - len(data))
        if not b:
            return None
        data += b
    return data


class TcpDevice:
    def __init__(self, device):
        self.device = device
        self.stall = None           # callable(apdu) -> seconds to wait before answering
        self.log = []
        self.lock = threading.Lock()
        self.srv = socket.socket(socket.AF_INET, socket.SOCK_STREAM)
        self.srv.setsockopt(socket.SOL_SOCKET, socket.SO_REUSEADDR, 1)
        self.srv.bind(("127.0.0.1", 0))
        self.srv.listen(8)
        self.port = self.srv.getsockname()[1]
        from . import transport
        transport.REAL_TCP_PORTS.add(self.port)
        import ledger.hsm2dongle_tcp as ht
        prev = ht.getDongle

        def tcp_dongle(host=None, port=None, debug=False, *a, **k):
            if port in transport.REAL_TCP_PORTS:
                import ledgerblue.commTCP as commTCP
                return commTCP.getDongle(host, port, debug)
            return prev(host, port, debug, *a, **k)
        ht.getDongle = tcp_dongle
        self.closed = False
        self.thread = threading.Thread(target=self._accept, daemon=True)
        self.thread.start()

    def _accept(self):
        while not self.closed:
            try:
                conn, _ = self.srv.accept()
            except OSError:
                return
            threading.Thread(target=self._serve, args=(conn,), daemon=True).start()

    def _serve(self, conn):
        try:
            self.device.on_connect()
            while True:
                hdr = _recvall(conn, 4)
                if hdr is None:
                    return
                apdu = _recvall(conn, struct.unpack(">I", hdr)[0])
                if apdu is None:
                    return
                with self.lock:       # the device handles one command at a time
                    sw, resp = self.device.handle(bytes(apdu))
                    self.log.append((bytes(apdu), sw, bytes(resp)))
                wait = self.stall(bytes(apdu)) if self.stall is not None else 0
                if wait:
                    threading.Event().wait(wait)
                conn.sendall(struct.pack(">I", len(resp)) + bytes(resp) + struct.pack(">H", sw))
        except OSError:
            pass
        finally:
            try:
                conn.close()
            except OSError:
                pass

    def close(self):
        self.closed = True
        try:
            self.srv.close()
        except OSError:
            pass
