"""C16 helper: abstract attestation documents -> concrete JSON text (version-1 and version-2 renderings
with REAL payloads) -> the real loaders under a watchdog -> one observation record per document for
spec/TraceCertLoad.tla.

Abstract document (behaviours of spec/CertLoad.tla, completed with seeded random choices, or drawn at
random; JSON-serialisable, the replay artefact):
    {"flavour": "v1" | "v2", "seed": int,
     "ver":  "ok" | "swapped" | "unsupported" | "missing" | "mistyped",
     "tgtc": "list" | "missing" | "nonlist",   "targets": [pool name | "ghost", ...],
     "elsc": "list" | "missing" | "noniter" | "emptyiter" | "baditer",
     "items": [{"name": pool name | "missing" | "bad" | "nondict",
                "fld":  "ok" | "extra" | "long" | "short" | "odd"            (loadable)
                            | "spell_same"  one hex field written in another ACCEPTED spelling of its bytes
                | "spell_refused" (one hex field in a spelling the loader refuses: see certv1.SPELL_*;
                                   optional "spell": [field, member] pins the choice)
                | "by_missing" | "pay_missing" | "pay_invalid" | "tweak_invalid"
                      | "type_missing" | "type_unknown",                      (defects)
                "by":   pool name | "root" | "ghost",
                "ok":   bool   (should the link verify)}, ...]}
Pool names are "a".."h" plus "root": a rendering maps them to real element names; the pool name
"root" is the RESERVED name of the root of trust carried by an element ("sgx_root" in a version-2
rendering - accepted by the loader; "root" in a version-1 rendering - not a valid version-1 element
name, so the document must be refused).  `by: "root"` always means "signed by the root of trust".

Independent of repository code: version-1 payloads come from harness/certv1.py; version-2 payloads
(X.509 certificates, SGX report bodies / quotes with their report_data bindings, ECDSA P-256
signatures) are produced here with `cryptography` from the OpenEnclave struct layouts."""
import base64
import datetime
import hashlib
import json
import os
import random

from . import certv1

POOL = ["a", "b", "c", "d", "e", "f", "g", "h"]
V2_NAMES = ["quote", "attkey", "qe_cert", "pck_ca", "platform", "proc_ca", "tcb", "extra_ca"]
LOADABLE = ("ok", "extra", "long", "short", "odd", "spell_same")
V1_HEX = ("message", "signature", "tweak")
V2_HEX = {"sgx_quote": ("message", "custom_data", "signature"),
          "sgx_attestation_key": ("message", "key", "auth_data", "signature")}


def _pick_spelling(it, fields, rng):
    """(field, member) of the single re-spelt hex field of an item of class spell_same / spell_refused."""
    if it.get("spell"):
        return tuple(it["spell"])
    members = certv1.SPELL_ACCEPTED[1:] if it["fld"] == "spell_same" else certv1.SPELL_REFUSED
    return rng.choice(list(fields)), rng.choice(list(members))


# ------------------------------------------------------------------------------------------------
# JSON text with duplicate keys
# ------------------------------------------------------------------------------------------------
class Obj(list):
    """A JSON object as a list of (key, value) pairs: keys may repeat (json.loads keeps the last)."""


def jdump(x):
    if isinstance(x, Obj):
        return "{" + ", ".join(json.dumps(str(k)) + ": " + jdump(v) for k, v in x) + "}"
    if isinstance(x, dict):
        return "{" + ", ".join(json.dumps(str(k)) + ": " + jdump(v) for k, v in x.items()) + "}"
    if isinstance(x, (list, tuple)):
        return "[" + ", ".join(jdump(v) for v in x) + "]"
    return json.dumps(x)


GARBAGE = [None, 5, "zz", "", [1], {"a": 1}, True, 1.5]
BAD_HEX = ["", "zz", "abc", 5, None, [1], {"a": 1}, True, "0x00"]
BAD_B64 = [None, 5, "éé", "abc", [1], {"m": 1}]


def _obj(pairs, rng, dup_rate=0.12):
    """Render an element / document: shuffle keys, sometimes add a shadowed duplicate key (garbage first,
    the real value last)."""
    pairs = list(pairs)
    rng.shuffle(pairs)
    out = Obj()
    for k, v in pairs:
        if rng.random() < dup_rate:
            out.append((k, rng.choice(GARBAGE)))
        out.append((k, v))
    # keep relative order of equal keys: garbage was inserted right before the real one
    return out


def _set_last(obj, key, value, rng):
    """Make `key` evaluate to `value`: either replace it, or append a duplicate key that wins."""
    if rng.random() < 0.3 and any(k == key for k, _ in obj):
        obj.append((key, value))
        return obj
    return Obj([(k, (value if k == key else v)) for k, v in obj])


def _drop(obj, key):
    return Obj([(k, v) for k, v in obj if k != key])


def _odd_hex(h, rng):
    r = rng.randrange(3)
    if r == 0:
        return h.upper()
    if r == 1:
        return " ".join(h[i:i + 2] for i in range(0, len(h), 2))
    return h[:len(h) // 2 * 1].upper() + h[len(h) // 2 * 1:]


N_GHOSTS = 10


def ghost_value(rng, other_root, pick=None):
    """A `signed_by` / target that names no element: a seeded member, or member `pick`."""
    vals = ["ghost", "", other_root, 5, None, ["x"], {"n": 1}, 1.5, "Root", "ROOT"]
    return rng.choice(vals) if pick is None else vals[pick % len(vals)]


# ------------------------------------------------------------------------------------------------
# version 1 rendering
# ------------------------------------------------------------------------------------------------
def render_v1(doc):
    rng = random.Random(doc["seed"])
    names = list(certv1.NAMES)
    rng.shuffle(names)
    pmap = {p: names[i % 4] for i, p in enumerate(POOL)}
    # pool names beyond the four valid ones fold onto them (more duplicates), ghost stays a ghost
    items = doc["items"]
    spec_items, meta = [], []
    for j, it in enumerate(items):
        nm = rng.choice(names) if it["name"] == "root" else pmap.get(it["name"], rng.choice(names))
        by = it["by"]
        rby = "root" if by == "root" else pmap[by] if by in pmap else ghost_value(rng, "sgx_root", it.get("ghostv"))
        e = {"name": nm, "signed_by": rby, "compressed": rng.random() < 0.4}
        if rng.random() < 0.5 or (it.get("spell") and it["spell"][0] == "tweak"):
            e["tweak"] = "random"
        fld = it["fld"]
        sub = ""
        if fld == "long":
            if nm == "device":
                e["prefix"] = bytes(rng.randrange(256) for _ in range(rng.choice([200, 1000])))
                sub = "device prefix"
            else:
                e["message"] = bytes(rng.randrange(256) for _ in range(rng.choice([300, 2000])))
                sub = "long message without key"
        elif fld == "short":
            e["message"] = bytes([rng.randrange(256)])
            sub = "1-byte message"
        spec_items.append(e)
        meta.append(sub)
    ch = certv1.build({"targets": [], "elements": spec_items}, rng)
    els = []
    for j, it in enumerate(items):
        e = ch.cert["elements"][j]
        if it["name"] in pmap and it["fld"] in LOADABLE and not it["ok"]:
            kinds = ["sig_flip", "msg_flip", "sig_other_key"] + (["tweak_flip", "tweak_remove"] if "tweak" in e
                                                                 else ["tweak_add"])
            ch.corrupt(rng.choice(kinds), j, rng)
    for j, it in enumerate(items):
        e = ch.cert["elements"][j]
        pairs = [("name", "root" if it["name"] == "root" else e["name"]), ("message", e["message"]),
                 ("signature", e["signature"]), ("signed_by", e["signed_by"])]
        if "tweak" in e:
            pairs.append(("tweak", e["tweak"]))
        fld = it["fld"]
        if fld == "extra":
            pairs += rng.sample([("comment", "x"), ("type", "x509_pem"), ("version", 1), ("key", "00"),
                                 ("custom_data", None)], 2)
        if fld == "odd":
            k = rng.choice(["message", "signature"] + (["tweak"] if "tweak" in e else []))
            pairs = [(a, (_odd_hex(b, rng) if a == k else b)) for a, b in pairs]
            meta[j] = "hex of %s in upper case / with spaces" % k
        if fld in ("spell_same", "spell_refused"):
            k, member = _pick_spelling(it, [f for f in V1_HEX if f in e], rng)
            pairs = [(a, (certv1.respell(b, member, rng) if a == k else b)) for a, b in pairs]
            meta[j] = "spelling %s of %s" % (member, k)
        o = _obj(pairs, rng, dup_rate=0.0 if fld.startswith("spell") else 0.12)
        if fld == "by_missing":
            o = _drop(o, "signed_by")
        elif fld == "pay_missing":
            o = _drop(o, rng.choice(["message", "signature"]))
        elif fld == "pay_invalid":
            o = _set_last(o, rng.choice(["message", "signature"]), rng.choice(BAD_HEX), rng)
        elif fld == "tweak_invalid":
            o = _drop(o, "tweak")
            o.append(("tweak", rng.choice(["", "xyz", None, 5, "abc", [], {"t": 1}])))
        elif fld in ("type_missing", "type_unknown"):
            pass        # version-2 defects: not a defect of a version-1 element
        if it["name"] == "missing":
            o = _drop(o, "name")
        elif it["name"] == "bad":
            o = _set_last(o, "name", rng.choice(["Device", "", 5, None, ["ui"], {"n": 1}, "root", "UI",
                                                 "quote", " ui"]), rng)
        elif it["name"] == "nondict":
            o = rng.choice(["ui", 5, None, ["name"], [["name", "ui"]], True, "name", 1.5])
        els.append(o)
    target_names = ["root" if t == "root" else pmap[t] if t in pmap else ghost_value(rng, "root")
                    for t in doc["targets"]]
    text = _top(doc, rng, 1, 2, target_names, els)
    return {"text": text, "root": ch.root_hex, "pmap": pmap, "sub": meta,
            "names": ["root" if it["name"] == "root" else pmap.get(it["name"], "") for it in items]}


def _top(doc, rng, version, other_version, target_names, els):
    pairs = []
    v = doc["ver"]
    if v == "ok":
        pairs.append(("version", rng.choice([version, version, version, float(version)])))
    elif v == "swapped":
        pairs.append(("version", other_version))
    elif v == "unsupported":
        pairs.append(("version", rng.choice([0, 3, -1, str(version), version + 0.5, 10 ** 20, "v%d" % version])))
    elif v == "mistyped":
        pairs.append(("version", rng.choice([None, [version], {"v": version}, "one", "", [], False])))
    if doc["tgtc"] == "list":
        pairs.append(("targets", target_names))
    elif doc["tgtc"] == "nonlist":
        pairs.append(("targets", rng.choice([None, "ui", {"ui": 1}, 5, True, "quote", {}])))
    c = doc["elsc"]
    if c == "list":
        pairs.append(("elements", els))
    elif c == "noniter":
        pairs.append(("elements", rng.choice([None, 5, True, 1.5])))
    elif c == "emptyiter":
        pairs.append(("elements", rng.choice([Obj(), ""])))
    elif c == "baditer":
        pairs.append(("elements", rng.choice([Obj([("name", "ui")]), "elements", Obj([("0", Obj([("name", "ui")]))]),
                                             "name"])))
    top = _obj(pairs, rng, dup_rate=0.08)
    if v == "mistyped" and rng.random() < 0.3:
        return jdump(rng.choice([[top], "certificate", 5, None]))
    text = jdump(top)
    if v == "mistyped" and rng.random() < 0.1:
        text = text[:len(text) // 2]          # not even JSON
    return text


# ------------------------------------------------------------------------------------------------
# version 2 rendering (own encoders)
# ------------------------------------------------------------------------------------------------
P256_N = 0xFFFFFFFF00000000FFFFFFFFFFFFFFFFBCE6FAADA7179E84F3B9CAC2FC632551
REPORT_BODY_LEN = 384          # sgx_report_body_t
REPORT_DATA_OFF = 320          # cpusvn 16, miscselect 4, reserved1 12, isvextprodid 16, attributes 16,
#                                mrenclave 32, reserved2 32, mrsigner 32, reserved3 32, configid 64,
#                                isvprodid 2, isvsvn 2, configsvn 2, reserved4 42, isvfamilyid 16 = 320
QUOTE_HEADER_LEN = 48          # version 2, sign_type 2, tee_type 4, qe_svn 2, pce_svn 2, uuid 16, user_data 20


def _p256(rng):
    from cryptography.hazmat.primitives.asymmetric import ec
    return ec.derive_private_key(rng.randrange(1, P256_N), ec.SECP256R1())


def _raw64(key):
    n = key.public_key().public_numbers()
    return n.x.to_bytes(32, "big") + n.y.to_bytes(32, "big")


def _sign(key, msg):
    from cryptography.hazmat.primitives import hashes
    from cryptography.hazmat.primitives.asymmetric import ec
    return key.sign(msg, ec.ECDSA(hashes.SHA256()))


def _x509(subject_key, issuer_key, subject, issuer, rng, expired=False):
    from cryptography import x509
    from cryptography.hazmat.primitives import hashes, serialization
    from cryptography.x509.oid import NameOID
    now = datetime.datetime.now(datetime.UTC)
    nb = now - datetime.timedelta(days=30)
    na = now - datetime.timedelta(days=2) if expired else now + datetime.timedelta(days=3650)
    c = (x509.CertificateBuilder()
         .subject_name(x509.Name([x509.NameAttribute(NameOID.COMMON_NAME, str(subject)[:60] or "x")]))
         .issuer_name(x509.Name([x509.NameAttribute(NameOID.COMMON_NAME, str(issuer)[:60] or "x")]))
         .public_key(subject_key.public_key()).serial_number(rng.randrange(1, 1 << 60))
         .not_valid_before(nb).not_valid_after(na).sign(issuer_key, hashes.SHA256()))
    return c.public_bytes(serialization.Encoding.DER)


def _report_body(rng, report_data32):
    b = bytearray(rng.randrange(256) for _ in range(REPORT_BODY_LEN))
    b[REPORT_DATA_OFF:REPORT_DATA_OFF + 32] = report_data32
    return bytes(b)


def _flip(b, rng, lo=0, hi=None):
    b = bytearray(b)
    hi = len(b) if hi is None else hi
    b[rng.randrange(lo, hi)] ^= 1 << rng.randrange(8)
    return bytes(b)


def V2_HEX_TYPE(it, rng):
    if it.get("spell"):
        f = it["spell"][0]
        return "sgx_quote" if f == "custom_data" else "sgx_attestation_key" if f in ("key", "auth_data") \
            else rng.choice(["sgx_quote", "sgx_attestation_key"])
    return rng.choice(["sgx_quote", "sgx_attestation_key"])


def render_v2(doc):
    rng = random.Random(doc["seed"])
    names = list(V2_NAMES)
    rng.shuffle(names)
    pmap = {p: names[i] for i, p in enumerate(POOL)}
    pmap["root"] = "sgx_root"          # an ELEMENT that carries the reserved name of the root of trust
    # element names are JSON values, not necessarily strings: doc["rawnames"] renders pool names as numbers,
    # booleans or null - as `name`, as `signed_by` and in `targets` alike
    for p_, v_ in (doc.get("rawnames") or {}).items():
        pmap[p_] = v_
    items = doc["items"]
    n = len(items)
    root_key = _p256(rng)
    stranger = _p256(rng)
    keys = [_p256(rng) for _ in range(n)]
    last = {}
    for j, it in enumerate(items):
        if it["name"] in pmap and it["fld"] in LOADABLE:
            last[it["name"]] = j
    certifies = {it["by"] for it in items}
    types = []
    for j, it in enumerate(items):
        if it.get("type"):
            types.append(it["type"])
        elif it["fld"] in ("spell_same", "spell_refused"):
            # only these element types have hex-valued fields
            types.append(V2_HEX_TYPE(it, rng))
        elif it["name"] in certifies:
            types.append(rng.choice(["x509_pem"] * 4 + ["sgx_attestation_key"]))
        else:
            types.append(rng.choice(["sgx_quote"] * 3 + ["sgx_attestation_key"] * 3 + ["x509_pem"] * 2))
    els, meta, extra_els = [], [], []
    for j, it in enumerate(items):
        by = it["by"]
        rby = "sgx_root" if by == "root" else pmap[by] if by in pmap else ghost_value(rng, "root", it.get("ghostv"))
        # `signed_by: sgx_root` is signed by the root of trust, also when an element has that name
        pkey = root_key if by == "root" else keys[last[by]] if by in last else stranger
        nm = pmap.get(it["name"], rng.choice(names))
        st = it.get("stretch")
        if st and by in pmap and by != "root":
            # the edge item -> certifier stands for a run of st["len"] further x509 elements
            run_key = _p256(rng)
            rn = ["run%05d" % i for i in range(st["len"])]
            first = _x509(run_key, pkey, rn[0], rby, rng)
            same = _x509(run_key, run_key, "run", "run", rng)
            wrong = _x509(run_key, stranger, "run", "run", rng)
            badat = {"top": min(1, st["len"] - 1), "middle": st["len"] // 2, "bottom": st["len"] - 1}.get(st.get("pos"), -1) \
                if st["cls"] == "bad" else -1
            for i, r in enumerate(rn):
                der = wrong if i == badat else first if i == 0 else same
                sb = (nm if st["cls"] == "cycle" else rby) if i == 0 else rn[i - 1]
                extra_els.append(Obj([("name", r), ("type", "x509_pem"), ("message", base64.b64encode(der).decode()),
                                      ("signed_by", sb)]))
            rby, pkey = rn[-1], run_key
        fld, typ, ok = it["fld"], types[j], it["ok"]
        bad = "" if ok else rng.choice(["sig", "key", "bind"])
        skey = stranger if bad == "key" else pkey
        sub = ""
        spelt = None
        if fld in ("spell_same", "spell_refused") and typ in V2_HEX:
            spelt = _pick_spelling(it, V2_HEX[typ], rng)
            if spelt == ("auth_data", "empty"):
                spelt = ("auth_data", "ws_only")      # (an empty auth_data is a legitimate value)
        if typ == "x509_pem":
            der = _x509(keys[j], skey, nm, rby, rng, expired=(bad == "bind"))
            if bad == "sig":
                der = _flip(der, rng, len(der) - 20)
            msg = base64.b64encode(der).decode()
            if fld == "long":
                msg = msg + "\n" * rng.randrange(1, 4) + " "
                sub = "x509: base64 followed by white space"
            elif fld == "short":
                msg = rng.choice(["AAAA", "", "QUJD"])
                sub = "x509: base64 of a few bytes, not a certificate"
            elif fld == "odd":
                k = rng.randrange(4, len(msg) - 4)
                msg = msg[:k] + rng.choice(["\n", " ", "\r\n", "!", "*-*"]) + msg[k:]
                sub = "x509: base64 with line breaks / characters outside the alphabet"
            pairs = [("name", nm), ("type", typ), ("message", msg), ("signed_by", rby)]
            payload = ["message"]
        elif typ == "sgx_attestation_key":
            auth = bytes(rng.randrange(256) for _ in range(rng.choice([32, 32, 1, 100, 0] if not spelt else [32, 1])))
            raw = _raw64(keys[j])
            rd = hashlib.sha256(raw + auth).digest()
            body = _report_body(rng, rd)
            if bad == "bind":
                body = _flip(body, rng, REPORT_DATA_OFF, REPORT_DATA_OFF + 32)
            keyhex = raw.hex()
            if fld == "long":
                body = body + bytes(rng.randrange(256) for _ in range(rng.choice([1, 16, 384])))
                sub = "sgx_attestation_key: message longer than the 384-byte report body (signed as such)"
            elif fld == "short":
                body = body[:rng.choice([383, 100, 1])]
                sub = "sgx_attestation_key: message shorter than the 384-byte report body (signed as such)"
            elif fld == "odd":
                r = rng.randrange(4)
                if r == 0:
                    keyhex = "04" + keyhex
                    sub = "sgx_attestation_key: key as uncompressed point"
                elif r == 1:
                    keyhex = ("03" if raw[-1] & 1 else "02") + raw[:32].hex()
                    sub = "sgx_attestation_key: key as compressed point"
                elif r == 2:
                    keyhex = _flip(raw, rng, 40).hex()
                    sub = "sgx_attestation_key: key is not a curve point"
                else:
                    keyhex = keyhex.upper()
                    sub = "sgx_attestation_key: key hex in upper case"
            sig = _sign(skey, body)
            if bad == "sig":
                sig = _flip(sig, rng)
            pairs = [("name", nm), ("type", typ), ("message", body.hex()), ("key", keyhex),
                     ("auth_data", auth.hex()), ("signature", sig.hex()), ("signed_by", rby)]
            payload = ["message", "key", "auth_data", "signature"]
        else:
            custom = bytes(rng.randrange(256) for _ in range(rng.choice([32, 40, 1, 200])))
            if spelt and spelt[0] == "custom_data" and spelt[1] in ("ws_only", "empty"):
                custom = b""        # the quote genuinely attests EMPTY custom data; the field is blank(s)
            rd = hashlib.sha256(custom).digest()
            hdr = bytes(rng.randrange(256) for _ in range(QUOTE_HEADER_LEN))
            body = _report_body(rng, rd)
            if bad == "bind":
                body = _flip(body, rng, REPORT_DATA_OFF, REPORT_DATA_OFF + 32)
            msg = hdr + body
            if fld == "long":
                msg = msg + bytes(rng.randrange(256) for _ in range(rng.choice([1, 64, 500])))
                sub = "sgx_quote: message longer than header + report body (signed as such)"
            elif fld == "short":
                msg = msg[:rng.choice([431, 100, 1])]
                sub = "sgx_quote: message shorter than header + report body (signed as such)"
            sig = _sign(skey, msg)
            if bad == "sig":
                sig = _flip(sig, rng)
            mh, ch_, sh = msg.hex(), custom.hex(), sig.hex()
            if fld == "odd":
                r = rng.randrange(3)
                if r == 0:
                    mh = _odd_hex(mh, rng)
                elif r == 1:
                    ch_ = _odd_hex(ch_, rng)
                else:
                    sh = _odd_hex(sh, rng)
                sub = "sgx_quote: hex in upper case / with spaces"
            pairs = [("name", nm), ("type", typ), ("message", mh), ("custom_data", ch_),
                     ("signature", sh), ("signed_by", rby)]
            payload = ["message", "custom_data", "signature"]
        if spelt:
            pairs = [(a, (certv1.respell(b, spelt[1], rng) if a == spelt[0] else b)) for a, b in pairs]
            sub = "%s: spelling %s of %s" % (typ, spelt[1], spelt[0])
        if fld == "extra":
            pairs += rng.sample([("comment", "x"), ("tweak", "zz"), ("version", 2), ("targets", []),
                                 ("key", None) if typ != "sgx_attestation_key" else ("custom_data", None)], 2)
        o = _obj(pairs, rng, dup_rate=0.0 if spelt else 0.12)
        if fld == "by_missing":
            o = _drop(o, "signed_by")
        elif fld == "pay_missing":
            o = _drop(o, rng.choice(payload))
        elif fld == "pay_invalid":
            if typ == "x509_pem":
                o = _set_last(o, "message", rng.choice(BAD_B64), rng)
            else:
                f = rng.choice(payload)
                # an empty auth_data is a legitimate value (zero-length QE authentication data)
                o = _set_last(o, f, rng.choice([b for b in BAD_HEX if not (f == "auth_data" and b == "")]), rng)
        elif fld == "type_missing":
            o = _drop(o, "type")
        elif fld == "type_unknown":
            o = _set_last(o, "type", rng.choice(["x509", "sgx", 5, None, ["sgx_quote"], "", "SGX_QUOTE",
                                                 {"t": "sgx_quote"}]), rng)
        if it["name"] == "missing":
            o = _drop(o, "name")
        elif it["name"] == "bad":
            o = _set_last(o, "name", rng.choice([["quote"], {"n": "quote"}, [], {}]), rng)
        elif it["name"] == "nondict":
            o = rng.choice(["quote", 5, None, ["name"], [["type", "x509_pem"]], True, "type", 1.5])
        els.append(o)
        meta.append(typ + (": " + sub if sub else ""))
    # (a target spelt like the root of trust is a ghost only while no element carries that name)
    rootnamed = any(it["name"] == "root" for it in items)
    target_names = [pmap[t] if t in pmap else ghost_value(rng, "root" if rootnamed else "sgx_root")
                    for t in doc["targets"]]
    if extra_els:
        k = rng.randrange(len(els) + 1)
        els = els[:k] + extra_els + els[k:]
        meta = meta[:k] + ["x509_pem"] * len(extra_els) + meta[k:]
    text = _top(doc, rng, 2, 1, target_names, els)
    root_der = _x509(root_key, root_key, "sgx_root", "sgx_root", rng)
    return {"text": text, "root": base64.b64encode(root_der).decode(), "pmap": pmap, "sub": meta,
            "names": [(dict(o).get("name") if isinstance(o, Obj) and isinstance(dict(o).get("name"), str) else "")
                      for o in els]}


SCALE_LENGTHS = (5, 50, 255, 256, 257, 300, 999, 1000, 1001, 1500, 3000)


def render_scale(doc):
    """A version-2 document whose single target path has doc["scale"]["len"] elements: a quote under a chain
    of x509_pem elements up to sgx_root.  Built iteratively; one self-signed certificate serves for every
    element of the chain (each then verifies against the one above it), another one marks the bad link.
        scale = {"len": L, "bad": None | "top" | "middle" | "bottom", "cycle": bool}"""
    rng = random.Random(doc["seed"])
    sc = doc["scale"]
    n = sc["len"] - 1                               # x509 elements above the quote
    key, other = _p256(rng), _p256(rng)
    good = base64.b64encode(_x509(key, key, "ca", "ca", rng)).decode()
    wrong = base64.b64encode(_x509(other, other, "ca", "ca", rng)).decode()
    names = ["ca%05d" % i for i in range(n)]        # ca00000 is the topmost
    badat = {"top": min(1, n - 1), "middle": n // 2, "bottom": n - 1}.get(sc.get("bad"), -1)
    els = []
    for i, nm in enumerate(names):
        sb = "sgx_root" if i == 0 else names[i - 1]
        if i == 0 and sc.get("cycle"):
            sb = names[-1]
        els.append({"name": nm, "type": "x509_pem", "message": wrong if i == badat else good, "signed_by": sb})
    custom = bytes(rng.randrange(256) for _ in range(32))
    msg = bytes(rng.randrange(256) for _ in range(QUOTE_HEADER_LEN)) + _report_body(rng, hashlib.sha256(custom).digest())
    els.append({"name": "quote", "type": "sgx_quote", "message": msg.hex(), "custom_data": custom.hex(),
                "signature": _sign(key, msg).hex(), "signed_by": names[-1] if names else "sgx_root"})
    rng.shuffle(els)
    targets = ["quote"]
    if badat >= 0 and badat + 1 < n:
        targets.append(names[badat + 1])            # an x509 target below the bad link (never valid)
    text = json.dumps({"version": 2, "targets": targets, "elements": els})
    return {"text": text, "root": good, "pmap": {}, "sub": ["path of %d elements" % sc["len"]], "names": []}


def scale_docs(rng, lengths=SCALE_LENGTHS, variants=("ok", "top", "middle", "bottom", "cycle")):
    docs = []
    for n in lengths:
        for v in variants:
            docs.append({"flavour": "v2", "seed": rng.randrange(1 << 62), "ver": "ok", "tgtc": "list", "elsc": "list",
                         "targets": [], "items": [], "src": "scale",
                         "scale": {"len": n, "bad": v if v in ("top", "middle", "bottom") else None,
                                   "cycle": v == "cycle"}})
    return docs


def render(doc):
    if doc.get("scale"):
        return render_scale(doc)
    return render_v1(doc) if doc["flavour"] == "v1" else render_v2(doc)


# ------------------------------------------------------------------------------------------------
# abstract documents
# ------------------------------------------------------------------------------------------------
DEFECTS_COMMON = ["by_missing", "pay_missing", "pay_invalid", "spell_refused"]


def docs_from_behaviour(b, rng):
    """Complete one behaviour of GenCertLoad (what the model's loader never read is filled with seeded
    random content) and return its renderable documents: both flavours unless the behaviour contains a
    flavour-specific defect."""
    flavours = ["v1", "v2"] if b["flavour"] == "any" else [b["flavour"]]
    st = b.get("stretch") or {"edge": 0, "cls": "?"}
    if st["cls"] in ("ok", "bad", "cycle"):
        # a long run of elements needs many names: only a version-2 document can have it
        flavours = [f for f in flavours if f == "v2"]
    docs = []
    for fl in flavours:
        pool = POOL[:4] + ["root"]          # the model's pool: four names and the reserved root name
        items = []
        for j, it in enumerate(b["items"]):
            by = b["by"][j]
            ok = b["ok"][j]
            items.append({"name": it["name"], "fld": it["fld"],
                          "by": by if by != "?" else rng.choice(pool + ["root", "ghost"]),
                          "ok": (ok == "t") if ok != "?" else rng.random() < 0.6})
            if st["edge"] == j + 1 and st["cls"] in ("ok", "bad", "cycle"):
                items[-1]["stretch"] = {"cls": st["cls"], "len": rng.choice([5, 50, 120, 300]),
                                        "pos": rng.choice(["top", "middle", "bottom"])}
        defect = b["phase"] == "error" and items and (items[-1]["name"] not in pool or items[-1]["fld"] not in LOADABLE
                                                      or b["ver"] == "swapped")
        if defect or b["elsc"] in ("?",):
            # the loader stopped reading here: anything may follow
            for _ in range(rng.randrange(0, 3)):
                items.append(_random_item(rng, pool, 0.2, fl))
        doc = {"flavour": fl, "seed": rng.randrange(1 << 62),
               "ver": b["ver"] if b["ver"] != "?" else "ok",
               "tgtc": b["tgtc"] if b["tgtc"] != "?" else rng.choice(["list", "list", "missing", "nonlist"]),
               "elsc": b["elsc"] if b["elsc"] != "?" else rng.choice(["list", "list", "missing", "noniter"]),
               "targets": list(b["targets"]) if b["tgtc"] == "list" else [rng.choice(pool)],
               "items": items, "src": "model-behaviour"}
        docs.append(doc)
    return docs


def directed_docs(rng):
    """Version-2 documents shaped like the real ones (quote <- attestation key <- x509 <- x509 <- root),
    every payload class on every element type, every element type as a target; and the version-1
    counterpart (signer, ui <- attestation <- device <- root) with every payload class."""
    docs = []
    v2 = [("a", "sgx_quote", "b"), ("b", "sgx_attestation_key", "c"), ("c", "x509_pem", "d"), ("d", "x509_pem", "root")]
    for j in range(4):
        for fld in ("ok", "long", "short", "odd", "odd", "odd", "odd", "extra"):
            for tgt in ("a", "b", "c"):
                items = [{"name": n, "type": t, "by": by, "fld": (fld if i == j else "ok"), "ok": True}
                         for i, (n, t, by) in enumerate(v2)]
                docs.append({"flavour": "v2", "seed": rng.randrange(1 << 62), "ver": "ok", "tgtc": "list",
                             "elsc": "list", "targets": [tgt], "items": items, "src": "directed"})
    # an element that carries the reserved name of the root of trust: self-signed, mutually signed with an
    # element on the target's path, signed by a normal element (on / off the path), dangling; as a
    # bystander and as a target; every element type
    chain = [("a", "sgx_quote", "b"), ("b", "sgx_attestation_key", "c"), ("c", "x509_pem", "root")]
    shapes = [("self-signed", chain, "root"),
              ("mutual-with-path-top", chain, "c"),
              ("signed-by-path-element", chain, "b"),
              ("signed-by-leaf", chain, "a"),
              ("dangling", chain, "ghost"),
              ("mutual-with-target", [("a", "sgx_quote", "root")], "a"),
              ("mutual-two", [("a", "sgx_attestation_key", "root"), ("b", "sgx_quote", "a")], "b")]
    for fl in ("v2", "v1"):
        for _, base, rby in shapes:
            for rtype in ("x509_pem", "sgx_attestation_key", "sgx_quote"):
                for pos in (0, len(base)):
                    for tgts in (["a"], ["root"], [base[-1][0], "root"]):
                        items = [{"name": n, "type": t, "by": by, "fld": "ok", "ok": True} for n, t, by in base]
                        items.insert(pos, {"name": "root", "type": rtype, "by": rby, "fld": "ok", "ok": True})
                        docs.append({"flavour": fl, "seed": rng.randrange(1 << 62), "ver": "ok", "tgtc": "list",
                                     "elsc": "list", "targets": tgts, "items": items, "src": "directed"})
                if fl == "v1":
                    break
    # a bystander element (on no target's path) whose `signed_by` names nothing, in every JSON form: the
    # document loads, and must still load after it was saved
    for fl in ("v1", "v2"):
        for k in range(N_GHOSTS):
            items = [{"name": n2, "type": t2, "by": ("root" if n2 == "c" else b2), "fld": "ok", "ok": True}
                     for n2, t2, b2 in v2[:3]]
            items.insert(rng.randrange(4), {"name": "d", "type": rng.choice(["x509_pem", "sgx_quote"]), "by": "ghost",
                                            "ghostv": k, "fld": "ok", "ok": True})
            docs.append({"flavour": fl, "seed": rng.randrange(1 << 62), "ver": "ok", "tgtc": "list",
                         "elsc": "list", "targets": ["a", "b"], "items": items, "src": "directed"})
    # spelling: every member on every hex field of every element type, one deviation per document
    for m in certv1.SPELLINGS:
        cls = "spell_same" if m in certv1.SPELL_ACCEPTED else "spell_refused"
        for j, (n, t, by) in enumerate(v2[:2]):
            for f in V2_HEX[t]:
                if (f, m) == ("auth_data", "empty"):
                    continue
                items = [{"name": n2, "type": t2, "by": b2, "fld": (cls if i == j else "ok"), "ok": True}
                         for i, (n2, t2, b2) in enumerate(v2)]
                items[j]["spell"] = [f, m]
                docs.append({"flavour": "v2", "seed": rng.randrange(1 << 62), "ver": "ok", "tgtc": "list",
                             "elsc": "list", "targets": ["a"], "items": items, "src": "directed"})
        for j in (0, 1):
            for f in V1_HEX:
                items = [{"name": n2, "by": b2, "fld": (cls if i == j else "ok"), "ok": True}
                         for i, (n2, b2) in enumerate([("a", "b"), ("b", "c"), ("c", "d"), ("d", "root")])]
                items[j]["spell"] = [f, m]
                docs.append({"flavour": "v1", "seed": rng.randrange(1 << 62), "ver": "ok", "tgtc": "list",
                             "elsc": "list", "targets": ["a", "c"], "items": items, "src": "directed"})
    v1 = [("a", "b"), ("b", "c"), ("c", "d"), ("d", "root")]
    for j in range(4):
        for fld in ("ok", "long", "short", "odd", "extra"):
            items = [{"name": n, "by": by, "fld": (fld if i == j else "ok"), "ok": True}
                     for i, (n, by) in enumerate(v1)]
            docs.append({"flavour": "v1", "seed": rng.randrange(1 << 62), "ver": "ok", "tgtc": "list",
                         "elsc": "list", "targets": ["a", "c"], "items": items, "src": "directed"})
    return docs


RAW_NAMES = [7, 7.0, True, None, 0, -1, 1.5, "7", "True", "None"]


def rawname_docs(rng):
    """Version-2 documents (quote <- attestation key <- x509 <- root) in which element names are not strings:
    int, float, bool, null - as the target, as a certifier (so that `signed_by` is the number), and a string
    and a number that print the same side by side; plus the version-1 rendering (non-string names are not
    valid there: the document must be refused)."""
    chain = [("a", "sgx_quote", "b"), ("b", "sgx_attestation_key", "c"), ("c", "x509_pem", "root")]
    docs = []
    combos = [{"a": v} for v in (7, 7.0, True, None, 0, 1.5)] + [{"b": v} for v in (7, 7.0, True, None)] + \
             [{"c": v} for v in (7, None, False)] + \
             [{"a": 7, "b": "7"}, {"a": "7", "b": 7}, {"b": 7, "c": "7"}, {"a": True, "b": "True"}, {"a": None, "b": "None"},
              {"a": 1, "b": True}, {"a": 7, "b": 7.0}, {"a": 7, "b": 8, "c": 9}]
    for raw in combos:
        for tgts in (["a"], ["a", "a"]):
            items = [{"name": n, "type": t, "by": by, "fld": "ok", "ok": True} for n, t, by in chain]
            docs.append({"flavour": "v2", "seed": rng.randrange(1 << 62), "ver": "ok", "tgtc": "list", "elsc": "list",
                         "targets": tgts, "items": items, "rawnames": raw, "src": "directed"})
    return docs


def _random_item(rng, pool, p_defect, flavour):
    r = rng.random()
    if r < p_defect:
        name = rng.choice(pool + ["missing", "bad", "nondict"])
        fld = rng.choice(DEFECTS_COMMON + (["tweak_invalid"] if flavour == "v1" else ["type_missing", "type_unknown"]))
        if name not in pool:
            fld = "ok"
    else:
        name = rng.choice(pool)
        fld = rng.choice(["ok"] * 8 + ["extra", "long", "short", "odd", "spell_same", "spell_same"])
    return {"name": name, "fld": fld, "by": rng.choice(pool + ["root", "root", "ghost"]),
            "ok": rng.random() < 0.7}


def random_doc(rng):
    """Binding B: a random document with up to 12 elements over a pool of up to 8 names.  Three styles:
    chain-like (mostly signed by an earlier element: deep valid chains, duplicates shadowing earlier
    items), free (any present name signs any: self-signed, mutually signed, longer cycles), and messy
    (defective items, dangling signers)."""
    fl = rng.choice(["v1", "v2"])
    pool = POOL[:rng.choice([2, 3, 4, 4, 6, 8])]
    if rng.random() < 0.3:
        pool = pool + ["root"]             # some element may carry the reserved name of the root of trust
    n = rng.choice([1, 2, 3, 4, 5, 6, 8, 10, 12, 12])
    style = rng.choice(["chain", "chain", "chain", "free", "free", "messy"])
    items = [_random_item(rng, pool, {"chain": 0.0, "free": 0.01, "messy": 0.12}[style], fl) for _ in range(n)]
    present = [it["name"] for it in items if it["name"] in pool] or pool
    for j, it in enumerate(items):
        r = rng.random()
        if style == "chain":
            it["by"] = "root" if j == 0 or r < 0.1 else items[rng.randrange(j)]["name"] if r < 0.97 else "ghost"
            it["ok"] = rng.random() < 0.93
        elif style == "free":
            it["by"] = rng.choice(present) if r < 0.75 else "root" if r < 0.97 else "ghost"
            it["ok"] = rng.random() < 0.85
        if it["by"] not in pool and it["by"] not in ("root", "ghost"):
            it["by"] = "root"
    nt = rng.choice([0, 1, 1, 2, 2, 3, 4])
    targets = [rng.choice(present) if rng.random() < 0.95 else "ghost" for _ in range(nt)]
    r = rng.random()
    raw = {}
    if fl == "v2" and rng.random() < 0.2:
        for p_ in rng.sample(pool, min(len(pool), rng.choice([1, 1, 2]))):
            if p_ != "root":
                raw[p_] = rng.choice(RAW_NAMES)
    return {"flavour": fl, "seed": rng.randrange(1 << 62), "rawnames": raw,
            "ver": "ok" if r < 0.95 else rng.choice(["swapped", "unsupported", "missing", "mistyped"]),
            "tgtc": "list" if rng.random() < 0.97 else rng.choice(["missing", "nonlist"]),
            "elsc": "list" if rng.random() < 0.96 else rng.choice(["missing", "noniter", "emptyiter", "baditer"]),
            "targets": targets, "items": items, "src": "random"}


# ------------------------------------------------------------------------------------------------
# the code under test, observed
# ------------------------------------------------------------------------------------------------
def pname(x):
    """Equality-preserving projection of a JSON scalar used as a name (Python dict-key equality)."""
    if isinstance(x, str):
        return "s:" + x
    if isinstance(x, (bool, int, float)):
        try:
            return "n:%r" % float(x)
        except OverflowError:
            return "n:%d" % x
    if x is None:
        return "null"
    return "o:" + repr(x)[:80]


def _digest(v):
    return hashlib.sha256(v.encode()).hexdigest()[:24]


def _pvalue(v):
    if isinstance(v, str):
        return v.lower()
    if isinstance(v, dict):
        out = {}
        for k, x in v.items():
            if hasattr(x, "get_raw_data"):
                out[k] = x.get_raw_data().hex()
            else:
                out[k] = _pvalue(x)
        return json.dumps(out, sort_keys=True)
    return repr(v)


def _stage(path, s):
    with open(path, "w") as f:
        f.write(s)


def _observe(cert, root, stage_path, tag):
    o = {"outcome": "loaded", "root": pname(cert.ROOT_ELEMENT), "targets": [], "graph": [], "val": "none",
         "res": [], "err": "", "cls": type(cert).__name__}
    try:
        o["targets"] = [pname(t) for t in cert._targets]
        o["graph"] = [{"name": pname(k), "by": pname(e.signed_by)} for k, e in cert._elements.items()]
    except Exception as e:           # the loaded object does not look like a certificate
        o["err"] = "cannot observe the loaded graph: %s" % e
    _stage(stage_path, tag + ":validate")
    try:
        res = cert.validate_and_get_values(root)
    except Exception as e:
        o["val"] = "raise"
        o["err"] = "validate_and_get_values raised %s: %s" % (type(e).__name__, str(e)[:100])
        return o
    o["val"] = "map"
    try:
        for t, v in res.items():
            if v[0]:
                full = _pvalue(v[1]) + "|tweak=" + repr(v[2] if len(v) > 2 else None)
                o["res"].append({"target": pname(t), "valid": True, "what": "v:" + _digest(full)})
            else:
                o["res"].append({"target": pname(t), "valid": False, "what": "e:" + pname(v[1])})
    except Exception as e:
        o["val"] = "raise"
        o["err"] = "result map is not usable: %s" % e
    return o


NONE_OBS = {"outcome": "none", "root": "", "targets": [], "graph": [], "val": "none", "res": [], "err": "",
            "cls": ""}


_limited = False


def _limit_memory():
    """A walk that never ends may also grow a list without bound: cap the worker's address space so that
    the machine is not exhausted before the watchdog fires (the MemoryError is then the observation)."""
    global _limited
    if not _limited:
        _limited = True
        try:
            import resource
            resource.setrlimit(resource.RLIMIT_AS, (3 << 30, 3 << 30))
        except Exception:
            pass


def execute(job):
    """Worker entry: job = (doc, scratch dir) -> observation record."""
    doc, scratch = job
    _limit_memory()
    pid = os.getpid()
    stage_path = os.path.join(scratch, "stage_%d" % pid)
    _stage(stage_path, "render")
    r = render(doc)
    p1 = os.path.join(scratch, "c16_%d_a.json" % pid)
    p2 = os.path.join(scratch, "c16_%d_b.json" % pid)
    with open(p1, "w") as f:
        f.write(r["text"])
    from admin.certificate import HSMCertificate, HSMCertificateRoot, HSMCertificateV2, \
        HSMCertificateV2ElementX509
    loader = HSMCertificate if doc["flavour"] == "v1" else HSMCertificateV2
    out = {"o1": dict(NONE_OBS), "save": "none", "o2": dict(NONE_OBS), "sub": r["sub"], "len": len(r["text"]),
           "names": r["names"]}
    _stage(stage_path, "load1")
    try:
        cert = loader.from_jsonfile(p1)
    except Exception as e:              # any exception = "reports an error"
        out["o1"] = dict(NONE_OBS, outcome="error", err="%s: %s" % (type(e).__name__, str(e)[:160]))
        return out

    def root_for(c):
        if type(c).__name__ == "HSMCertificateV2":
            return HSMCertificateV2ElementX509({"name": "sgx_root", "message": r["root"] if doc["flavour"] == "v2"
                                                else "AAAA", "signed_by": "sgx_root"})
        return HSMCertificateRoot(r["root"] if doc["flavour"] == "v1" else certv1.Key(7).hex)
    out["o1"] = _observe(cert, root_for(cert), stage_path, "1")
    _stage(stage_path, "save")
    try:
        cert.save_to_jsonfile(p2)
        out["save"] = "ok"
    except Exception as e:
        out["save"] = "raise"
        out["o2"] = dict(NONE_OBS, err="save_to_jsonfile raised %s: %s" % (type(e).__name__, str(e)[:160]))
        return out
    _stage(stage_path, "load2")
    try:
        cert2 = loader.from_jsonfile(p2)
    except Exception as e:
        out["o2"] = dict(NONE_OBS, outcome="error", err="%s: %s" % (type(e).__name__, str(e)[:160]))
        return out
    out["o2"] = _observe(cert2, root_for(cert2), stage_path, "2")
    return out


def hang_observation(stage):
    """What a job that never answered is recorded as; `stage` = the last stage marker written."""
    out = {"o1": dict(NONE_OBS), "save": "none", "o2": dict(NONE_OBS), "sub": [], "len": 0, "names": []}
    if stage in ("render", "load1", ""):
        out["o1"] = dict(NONE_OBS, outcome="hang", err="no answer from from_jsonfile within the budget")
    elif stage == "1:validate":
        out["o1"] = dict(NONE_OBS, outcome="loaded", val="hang", err="validate_and_get_values did not return",
                         unobserved_graph=True)
    else:
        out["o1"] = dict(NONE_OBS, outcome="loaded", val="map", unobserved_graph=True)
        out["save"] = "hang" if stage == "save" else "ok"
        out["o2"] = dict(NONE_OBS, outcome="hang" if stage == "load2" else "loaded",
                         val="hang" if stage == "2:validate" else "none")
    out["stage"] = stage
    return out
