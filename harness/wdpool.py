"""Watchdog-ed worker pool: run `fn(job)` for many jobs in forked worker processes, give every job a
wall-clock budget, and turn an overrun into an *observation* ("hang") instead of a hung check.

    results = run_jobs(fn, jobs, nproc=4, budget=2.0, retry_budget=10.0)
    results[i] = {"status": "ok", "value": fn(jobs[i])}
               | {"status": "hang", "budget": seconds, "pid": worker pid}   # exceeded budget AND retry_budget
               | {"status": "crash", "detail": "..."}          # worker died / fn raised
               | {"status": "skipped"}                          # not run: max_hangs hangs were already seen
    stats = results.stats   # {"slow": jobs that needed the retry budget, "hangs": n, "workers_killed": n,
                            #  "skipped": n}

A job that exceeds `budget` is re-run alone in a fresh worker with `retry_budget` (so that a loaded
machine does not turn a slow job into a false "hang"); only a second overrun is reported as a hang.
Workers are forked, so they see the repository modules the parent imported (harness.env.setup()).
After `max_hangs` confirmed hangs the remaining jobs are not started (status "skipped"): the point is
made, and a code base that loops on a whole class of inputs would otherwise cost budget x jobs.
`scale` (optional, one factor per job) multiplies both budgets of that job: a job that is legitimately
N times bigger than the others (a 3000-element document, a long run of many certificates in one
process) gets N times the time.
Results come back in job order; everything is deterministic given the jobs."""
import multiprocessing as mp
import multiprocessing.connection as mpc
import time
import traceback


def _worker(fn, conn):
    try:
        while True:
            msg = conn.recv()
            if msg is None:
                break
            idx, job = msg
            try:
                conn.send((idx, "ok", fn(job)))
            except BaseException as e:      # noqa: the verdict belongs to the caller
                conn.send((idx, "crash", "%s: %s\n%s" % (type(e).__name__, e, traceback.format_exc()[-1500:])))
    except (EOFError, KeyboardInterrupt):
        pass


class _W:
    def __init__(self, ctx, fn):
        self.parent, child = ctx.Pipe()
        self.proc = ctx.Process(target=_worker, args=(fn, child), daemon=True)
        self.proc.start()
        child.close()
        self.job = None
        self.deadline = None

    def give(self, idx, job, budget):
        self.job = idx
        self.deadline = time.monotonic() + budget
        self.parent.send((idx, job))

    def kill(self):
        try:
            self.proc.kill()
            self.proc.join(2)
        except Exception:
            pass
        try:
            self.parent.close()
        except Exception:
            pass

    def stop(self):
        try:
            self.parent.send(None)
        except Exception:
            pass
        self.proc.join(2)
        if self.proc.is_alive():
            self.kill()


class Results(list):
    stats = None


def run_jobs(fn, jobs, nproc=4, budget=2.0, retry_budget=10.0, max_hangs=8, scale=None):
    ctx = mp.get_context("fork")
    n = len(jobs)
    out = Results([None] * n)
    out.stats = {"slow": 0, "hangs": 0, "workers_killed": 0, "skipped": 0}
    if n == 0:
        return out
    pending = list(range(n - 1, -1, -1))     # pop() gives job order
    retry = []                               # jobs that overran once
    workers = [_W(ctx, fn) for _ in range(max(1, min(nproc, n)))]
    second = set()
    try:
        def feed(w):
            if retry:
                i = retry.pop()
                second.add(i)
                w.give(i, jobs[i], retry_budget * (scale[i] if scale else 1))
            elif pending and out.stats["hangs"] >= max_hangs:
                while pending:
                    out[pending.pop()] = {"status": "skipped"}
                    out.stats["skipped"] += 1
                w.job = None
            elif pending:
                i = pending.pop()
                w.give(i, jobs[i], budget * (scale[i] if scale else 1))
            else:
                w.job = None
        for w in workers:
            feed(w)
        while any(w.job is not None for w in workers):
            busy = [w for w in workers if w.job is not None]
            now = time.monotonic()
            timeout = max(0.0, min(w.deadline for w in busy) - now)
            ready = mpc.wait([w.parent for w in busy], timeout)
            for w in busy:
                if w.parent in ready:
                    try:
                        idx, status, val = w.parent.recv()
                    except (EOFError, OSError):
                        idx, status, val = w.job, "crash", "worker died"
                        w.kill()
                        workers[workers.index(w)] = w = _W(ctx, fn)
                    if status == "ok":
                        out[idx] = {"status": "ok", "value": val}
                        if idx in second:
                            out.stats["slow"] += 1
                    else:
                        out[idx] = {"status": "crash", "detail": val}
                    feed(w)
            now = time.monotonic()
            for k, w in enumerate(workers):
                if w.job is not None and w.parent not in ready and now >= w.deadline:
                    idx = w.job
                    pid = w.proc.pid
                    w.kill()
                    out.stats["workers_killed"] += 1
                    if idx in second:
                        out[idx] = {"status": "hang", "budget": retry_budget, "pid": pid}
                        out.stats["hangs"] += 1
                    else:
                        retry.append(idx)
                    workers[k] = nw = _W(ctx, fn)
                    feed(nw)
            # idle workers pick up retries queued by the timeout branch
            for w in workers:
                if w.job is None and (retry or pending):
                    feed(w)
    finally:
        for w in workers:
            w.stop()
    return out
