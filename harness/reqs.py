"""Well-formed client requests for every command, built from the harness's own encoders, together with
the structure they were built from (so that oracles never go through repo code)."""
from . import enc
from .simdev import PATHS, AUTH_PATHS

V5_COMMANDS = ["version", "getPubKey", "sign_hash", "sign_legacy", "sign_segwit", "advanceBlockchain",
               "updateAncestorBlock", "resetAdvanceBlockchain", "blockchainState", "blockchainParameters",
               "signerHeartbeat", "uiHeartbeat"]
V1_COMMANDS = ["version", "getPubKey", "sign_v1"]


def rb(rng, n):
    return bytes(rng.getrandbits(8) for _ in range(n))


def receipt(rng, size=None):
    """An RLP-shaped receipt (a list item, so that its total length is declared up front)."""
    body = [rb(rng, 1), rb(rng, rng.randint(1, 8)), rb(rng, size if size is not None else rng.randint(10, 300)),
            [[rb(rng, 20), [rb(rng, 32), rb(rng, 32)], rb(rng, rng.randint(0, 64))]]]
    return enc.rlp_encode(body)


def merkle_proof(rng, n=None, maxlen=120):
    n = n if n is not None else rng.randint(1, 5)
    return [rb(rng, rng.randint(1, maxlen)) for _ in range(n)]


def blocks(rng, n, advance, bro_counts=None, n_fields=None, dup=True):
    """n headers (+ brothers) as field lists and hex; not a valid chain (the simulator does not validate
    content, the property is about what is relayed)."""
    out = []
    for i in range(n):
        nf = n_fields or (rng.choice([19, 20]) if advance else rng.choice([17, 18, 19, 20]))
        cb = rb(rng, rng.randint(65, 260))
        split = 64 * rng.randint(0, len(cb) // 64)
        f = enc.header_fields(rng, nf, cb_full=cb, cb_split=split)
        bros = []
        if advance:
            k = bro_counts[i] if bro_counts is not None else rng.choice([0, 0, 1, 2])
            for _ in range(k):
                bcb = rb(rng, rng.randint(65, 200))
                bf = enc.header_fields(rng, rng.choice([19, 20]), cb_full=bcb,
                                       cb_split=64 * rng.randint(0, len(bcb) // 64))
                bros.append({"fields": bf, "cb": bcb, "raw": enc.rlp_encode(bf)})
            if dup and bros and rng.random() < 0.2:
                # brothers with EQUAL block hash: the same header listed twice, or a header differing only in
                # the fields the hash does not cover (merkle proof, coinbase transaction)
                x = rng.choice(bros)
                if rng.random() < 0.5:
                    bros.append(dict(x))
                else:
                    cb2 = rb(rng, rng.randint(65, 200))
                    f2 = list(x["fields"][:-2]) + [rb(rng, 32 * rng.randint(0, 4)),
                                                  enc.compress_coinbase(cb2, 64 * rng.randint(0, len(cb2) // 64))]
                    bros.append({"fields": f2, "cb": cb2, "raw": enc.rlp_encode(f2)})
        out.append({"fields": f, "cb": cb, "raw": enc.rlp_encode(f), "brothers": bros})
    return out


def make(cmd, rng, version=5):
    """-> (request dict, structure dict)"""
    st = {"cmd": cmd}
    if cmd == "version":
        return {"command": "version"}, st
    base = {"version": version}
    if cmd == "getPubKey":
        k = rng.choice(sorted(PATHS))
        st["key"] = k
        return dict(base, command="getPubKey", keyId=PATHS[k]), st
    if cmd == "sign_v1":
        k = rng.choice([p for p in sorted(PATHS) if p not in AUTH_PATHS])
        h = rb(rng, 32)
        st.update(key=k, hash=h)
        return dict(base, command="sign", keyId=PATHS[k], message=h.hex()), st
    if cmd == "sign_hash":
        k = rng.choice([p for p in sorted(PATHS) if p not in AUTH_PATHS])
        h = rb(rng, 32)
        st.update(key=k, hash=h)
        return dict(base, command="sign", keyId=PATHS[k], message={"hash": h.hex()}), st
    if cmd in ("sign_legacy", "sign_segwit"):
        k = rng.choice(list(AUTH_PATHS))
        tx = enc.random_tx(rng)
        idx = rng.randrange(len(tx["ins"]))
        rc = receipt(rng)
        mp = merkle_proof(rng)
        msg = {"tx": enc.tx_bytes(tx).hex(), "input": idx,
               "sighashComputationMode": "legacy" if cmd == "sign_legacy" else "segwit"}
        st.update(key=k, tx=tx, input=idx, receipt=rc, proof=mp, mode=msg["sighashComputationMode"])
        if cmd == "sign_segwit":
            ws = rb(rng, rng.choice([1, 35, 105, 252, 253, 300]))
            ov = rng.choice([1, 2 ** 64 - 1, rng.getrandbits(40) + 1])
            msg["witnessScript"] = ws.hex()
            msg["outpointValue"] = ov
            st.update(ws=ws, ov=ov)
        return dict(base, command="sign", keyId=PATHS[k], message=msg,
                    auth={"receipt": rc.hex(), "receipt_merkle_proof": [n.hex() for n in mp]}), st
    if cmd == "advanceBlockchain":
        bl = blocks(rng, rng.randint(1, 3), True)
        st["blocks"] = bl
        return dict(base, command=cmd, blocks=[b["raw"].hex() for b in bl],
                    brothers=[[x["raw"].hex() for x in b["brothers"]] for b in bl]), st
    if cmd == "updateAncestorBlock":
        bl = blocks(rng, rng.randint(1, 3), False)
        st["blocks"] = bl
        return dict(base, command=cmd, blocks=[b["raw"].hex() for b in bl]), st
    if cmd in ("resetAdvanceBlockchain", "blockchainState", "blockchainParameters"):
        return dict(base, command=cmd), st
    if cmd == "signerHeartbeat":
        ud = rb(rng, 16)
        st["ud"] = ud
        return dict(base, command=cmd, udValue=ud.hex()), st
    if cmd == "uiHeartbeat":
        ud = rb(rng, 32)
        st["ud"] = ud
        return dict(base, command=cmd, udValue=ud.hex()), st
    raise ValueError(cmd)
