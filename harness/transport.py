"""The device link as the middleware sees it: a ledgerblue-like dongle object whose failure
objects are exactly the ones `HSM2Dongle._send_command` classifies in production, in front of a
simulated device. Everything that crosses the link is appended to `World.log`."""
import os
import types

from . import env


class World:
    """One device + one link + the log of everything the manager did to them."""
    _created = 0

    def __init__(self, device, flavour="hid"):
        self.device = device
        self.flavour = flavour          # "hid" (Ledger) | "tcp" (SGX / TCPSigner)
        self.log = []                   # events: dicts with "ev"
        self.exchange_count = 0         # exchanges since last reset_counters()
        self.faults = {}                # exchange index (per counter) -> fault spec
        self.fault_hook = None          # callable(world, apdu) -> fault spec | None
        self.connect_failures = 0       # next N getDongle calls fail
        self.connect_count = 0
        self.on_event = None            # callable(event) (used by C12 for global ordering)
        self.dongles = []
        self.crash_at = None            # callable(event) -> bool : os._exit(77) when true
        # how a time-out is realised: False = the answer is lost; True = the answer arrives after the host gave
        # up and stays queued on the open handle (ledgerblue's HID and TCP transports do not drain on a
        # time-out), so whoever goes on using the SAME handle reads its predecessor's answer; closing drops it
        # The serving manager does not re-open the link after a time-out (C11 says so explicitly), so with late
        # answers every later exchange of that manager is one answer behind: a device that no longer keeps to its
        # protocol as the host sees it, outside the premise of the serving properties (recorded as an observation
        # in DESIGN.md). Harnesses of code that gives up or re-opens after a time-out (bring-up, admin tools) opt
        # in with late_every_second(); VERIF_LATE_ANSWERS=1 forces it everywhere (for experiments).
        World._created += 1
        self.late_answers = os.environ.get("VERIF_LATE_ANSWERS", "") == "1"

    def late_every_second(self):
        """Every second world of a run realises time-outs as late answers."""
        if os.environ.get("VERIF_LATE_ANSWERS", "") != "0":
            self.late_answers = self.late_answers or World._created % 2 == 0
        return self

    # ---- logging
    def emit(self, ev):
        self.log.append(ev)
        if self.on_event is not None:
            self.on_event(ev)

    def reset_counters(self):
        self.exchange_count = 0
        self.faults = {}

    def apdus(self, since=0):
        return [e for e in self.log[since:] if e["ev"] == "apdu"]

    # ---- getDongle replacements
    def get_dongle_hid(self, debug=False, *a, **k):
        return self._get_dongle()

    def get_dongle_tcp(self, host=None, port=None, debug=False, *a, **k):
        return self._get_dongle()

    def _get_dongle(self):
        from ledgerblue.commException import CommException
        self.connect_count += 1
        if self.connect_failures > 0:
            self.connect_failures -= 1
            self.emit({"ev": "open", "ok": False})
            if self.flavour == "hid":
                raise CommException("No dongle found")
            raise CommException("Proxy connection failed")
        self.emit({"ev": "open", "ok": True})
        self.device.on_connect()
        d = FakeDongle(self)
        self.dongles.append(d)
        return d


class FakeDongle:
    def __init__(self, world):
        self.world = world
        self.opened = True
        self.queued = []                # answers that arrived after the host stopped waiting

    def close(self):
        self.opened = False
        self.world.emit({"ev": "close"})

    def exchange(self, apdu, timeout=None):
        from ledgerblue.commException import CommException
        w = self.world
        apdu = bytes(apdu)
        idx = w.exchange_count
        w.exchange_count += 1
        fault = w.faults.get(idx)
        if fault is None and w.fault_hook is not None:
            fault = w.fault_hook(w, apdu, idx)
        ev = {"ev": "apdu", "i": idx, "apdu": apdu}
        snap = getattr(w.device, "snapshot", None)
        if snap is not None:
            ev["truth"] = snap()
        if not self.opened:
            ev["closed_dongle"] = True
        if fault is not None and fault[0] == "write":
            # nothing reaches the device
            ev["fault"] = "write"
            w.emit(ev)
            raise BaseException("Error while writing")
        if fault is not None and fault[0] == "timeout_before":
            ev["fault"] = "timeout"
            w.emit(ev)
            raise CommException("Timeout")
        rejected = False
        if fault is not None and fault[0] == "sw":
            nsw = fault[1]
            passes = nsw == 0x9000 or (w.flavour == "hid" and (nsw & 0xFF00) in (0x6100, 0x6C00)) \
                or (w.flavour == "tcp" and (nsw & 0xFF00) == 0x6100)
            rejected = not passes    # an error status: the device refused the command, nothing happened
        if rejected:
            sw, data = fault[1], (fault[2] if len(fault) > 2 else b"")
            fault = None
        else:
            try:
                sw, data = w.device.handle(apdu)
            except DeviceDropsLink as d:
                if fault is not None and fault[0] == "timeout":
                    ev["fault"] = "timeout"
                    w.emit(ev)
                    raise CommException("Timeout")
                ev["fault"] = "drop"
                ev["drop"] = d.kind
                w.emit(ev)
                self._raise_link(d.kind)
        if fault is not None:
            kind = fault[0]
            if kind == "read":
                ev["fault"] = "read"
                w.emit(ev)
                raise OSError("read error")
            if kind == "timeout":
                ev["fault"] = "timeout"
                if w.late_answers:
                    ev["late"] = True
                    self.queued.append((sw, bytes(data)))
                w.emit(ev)
                raise CommException("Timeout")
            if kind == "sw":
                # a status word the transport treats as success carries the device's ordinary answer;
                # an error status carries no data
                nsw = fault[1]
                passes = nsw == 0x9000 or (w.flavour == "hid" and (nsw & 0xFF00) in (0x6100, 0x6C00)) \
                    or (w.flavour == "tcp" and (nsw & 0xFF00) == 0x6100)
                if len(fault) > 2:
                    data = fault[2]
                elif not (passes and sw == 0x9000):
                    data = b""
                sw = nsw
            elif kind == "op":       # replace the OP byte of a successful answer
                data = bytes(data[:2]) + bytes([fault[1]]) + bytes(data[3:]) if len(data) >= 3 \
                    else bytes([apdu[0], apdu[1], fault[1]])
                sw = 0x9000
            elif kind == "data":     # replace the whole answer
                sw, data = 0x9000, fault[1]
            elif kind == "exc":      # arbitrary exception object from the transport
                ev["fault"] = "exc"
                w.emit(ev)
                raise fault[1]
        if self.queued:
            # the host reads the oldest answer still queued, not the one to this command
            self.queued.append((sw, bytes(data)))
            sw, data = self.queued.pop(0)
            ev["stale"] = True
        ev["sw"] = sw
        ev["resp"] = bytes(data)
        w.emit(ev)
        if w.crash_at is not None and w.crash_at(ev):
            import os
            os._exit(77)
        ok = sw == 0x9000
        if w.flavour == "hid":
            ok = ok or (sw & 0xFF00) in (0x6100, 0x6C00)
        if ok:
            return bytearray(data)
        if w.flavour == "hid":
            raise CommException("Invalid status %04x (%s)" % (sw, "Unknown reason"), sw, bytearray(data))
        raise CommException("Invalid status %04x" % sw, sw, data=bytearray(data))

    def _raise_link(self, kind):
        from ledgerblue.commException import CommException
        if kind == "write":
            raise BaseException("Error while writing")
        if kind == "read":
            raise OSError("read error")
        raise CommException("Timeout")


class DeviceDropsLink(Exception):
    """Raised by a simulated device whose answer to an APDU is to drop off the bus (app exit)."""

    def __init__(self, kind="read"):
        self.kind = kind


class _NoSleep:
    def __init__(self, real):
        self._real = real
        self.slept = 0.0

    def sleep(self, s):
        self.slept += s

    def __getattr__(self, k):
        return getattr(self._real, k)


REAL_TCP_PORTS = set()


def install(world):
    """Patch the names the middleware uses to reach the outside world (no file under the repository is
    touched): getDongle for both transports, the hidapi reset hack, the app-open wait."""
    env.setup()
    import time as _time
    import ledger.hsm2dongle as h
    import ledger.hsm2dongle_tcp as ht
    import ledger.protocol as lp
    h.getDongle = world.get_dongle_hid

    def tcp_dongle(host=None, port=None, debug=False, *a, **k):
        # devices served by harness/tcpdev.py on a real loopback socket are reached through the unpatched transport
        if port in REAL_TCP_PORTS:
            import ledgerblue.commTCP as commTCP
            return commTCP.getDongle(host, port, debug)
        return world.get_dongle_tcp(host, port, debug)
    ht.getDongle = tcp_dongle
    h.hid = types.SimpleNamespace(hidapi_exit=lambda: None)
    lp.time = _NoSleep(_time)
    try:
        import admin.dongle_admin as da
        da.getDongle = world.get_dongle_hid
    except Exception:
        pass
    try:
        import admin.dongle_eth as de
        de.getDongle = world.get_dongle_hid
    except Exception:
        pass
    try:
        import admin.misc as am
        am.time = _NoSleep(_time)
    except Exception:
        pass
    return world
