"""Build the real manager stack (protocol + ledger layer + APDU layer) on top of a simulated world."""
import io
import json

from . import env
from .transport import World, install
from .simdev import SimDevice, MODE_SIGNER


def make_protocol(world, version=2, platform="ledger", pin=None):
    install(world)
    from ledger.hsm2dongle import HSM2Dongle
    from ledger.protocol import HSM2ProtocolLedger
    from ledger.protocol_v1 import HSM1ProtocolLedger
    if platform == "ledger":
        dongle = HSM2Dongle(False)
    elif platform == "sgx":
        from sgx.hsm2dongle import HSM2DongleSGX
        dongle = HSM2DongleSGX("127.0.0.1", 1, False)
    else:
        from ledger.hsm2dongle_tcp import HSM2DongleTCP
        dongle = HSM2DongleTCP("127.0.0.1", 1, False)
    cls = HSM2ProtocolLedger if version == 2 else HSM1ProtocolLedger
    return cls(pin, dongle)


def serving_manager(device=None, version=2, platform="ledger", flavour=None, pin=None):
    """A manager that went through a real bring-up against a device already in signer mode (or, given a PIN
    object, through the bootloader)."""
    device = device or SimDevice(platform=platform, mode=MODE_SIGNER)
    world = World(device, flavour or ("hid" if platform == "ledger" else "tcp"))
    proto = make_protocol(world, version, platform, pin=pin)
    proto.initialize_device()
    world.bringup_len = len(world.log)
    return world, proto


class HandlerOutcome:
    def __init__(self, raw, shutdown, exc):
        self.raw = raw            # bytes written to the client
        self.shutdown = shutdown  # the server would shut down after this request
        self.exc = exc            # exception class name escaping _RequestHandler.handle (or None)

    @property
    def lines(self):
        return [ln for ln in self.raw.split(b"\n") if ln != b""] if self.raw else []

    def reply(self):
        """The single JSON reply object, or None if the output is not exactly one JSON object line."""
        if not self.raw.endswith(b"\n"):
            return None
        ls = self.raw[:-1].split(b"\n")
        if len(ls) != 1:
            return None
        try:
            v = json.loads(ls[0].decode("utf-8"))
        except Exception:
            return None
        return v if isinstance(v, dict) else None


def handle_line(proto, line):
    """Run one request line through comm.server's handler pair in-process, with the same
    exception -> shutdown mapping as `_TCPServerRequestHandler.handle` (re-stated here from the
    class, whose `handle` needs a socket): RequestHandlerError / RequestHandlerShutdown => shutdown."""
    env.setup()
    import logging
    from comm.server import _RequestHandler, RequestHandlerError, RequestHandlerShutdown
    rfile = io.BytesIO(line if line.endswith(b"\n") else line + b"\n")
    wfile = io.BytesIO()
    h = _RequestHandler(proto, logging.getLogger("srver"))
    shutdown, exc = False, None
    try:
        h.handle("127.0.0.1", rfile, wfile)
    except (RequestHandlerError, RequestHandlerShutdown) as e:
        shutdown, exc = True, type(e).__name__
    except ConnectionError as e:
        exc = type(e).__name__
    except Exception as e:
        exc = type(e).__name__
    except BaseException as e:   # noqa
        # not caught by socketserver's `except Exception` either: it leaves serve_forever, the manager ends
        shutdown, exc = True, type(e).__name__
    return HandlerOutcome(wfile.getvalue(), shutdown, exc)
