"""C06 helper: from abstract certificates (behaviours of spec/CertChain.tla, random plans, byte sweeps)
to REAL version-1 certificates (harness/certv1.py), through the real
HSMCertificate.from_jsonfile(...).validate_and_get_values(HSMCertificateRoot(root)), to one trace
record per certificate for spec/TraceCertChain.tla.

A *plan* is the JSON-serialisable recipe of one certificate (also the replay artefact):
    {"seed": int, "targets": [...],
     "elements": [{"name", "signed_by", "signer"?, "tweak": bool, "compressed": bool, "leafmsg": int,
                   "shape": one of certv1.SHAPES}],
     "corrs": [[kind, where, opt], ...], "src": "...", "desc": {...}}
"""
import json
import os
import random

from . import certv1

NAMES = certv1.NAMES
GHOSTS = ["ghost", "", "Signer", "UI", "device ", "0", "r00t", "sgx_root"]
GHOST_TARGETS = GHOSTS + ["root"]

CORR_OP = {"sigOtherKey": "sig_other_key", "sigFlip": "sig_flip", "msgFlipKey": "msg_flip_key",
           "msgFlipOther": "msg_flip_other", "keySubst": "key_subst", "tweakFlip": "tweak_flip",
           "tweakRemove": "tweak_remove", "tweakAdd": "tweak_add"}
ORDER = ["key_subst", "sig_other_key", "tweak_add", "tweak_remove", "tweak_flip", "msg_flip_key",
         "msg_flip_other", "msg_flip", "sig_flip", "sig_swap", "reparent", "wrong_root", "respell"]
HEXFIELDS = ("message", "signature", "tweak")
FLIPS = ("sig_flip", "msg_flip_key", "msg_flip_other", "msg_flip", "tweak_flip")
LOCAL_FILL = ["sig_flip", "msg_flip", "sig_other_key", "tweak_any"]


def _dict(x):
    return x if isinstance(x, dict) else {}


def _respell(rng, elements, members, decided=False, tweak_touched=False):
    """One hex field of one element (on or off any path) written in a seeded member of `members`."""
    i = rng.randrange(len(elements))
    fields = ["message", "signature"] + (["tweak"] if elements[i].get("tweak") and not tweak_touched else [])
    return ["respell", i, {"field": rng.choice(fields), "member": rng.choice(list(members)),
                           "decided": decided}]


def spelling_plans(rng):
    """Every member of every spelling class on every hex field of every element of a Ledger-like chain
    (one deviation per certificate), with targets above, at and below the respelt element."""
    seed = rng.randrange(1 << 62)
    plans = []
    for i, e in enumerate(LEDGER_LIKE):
        for f in HEXFIELDS:
            if f == "tweak" and not e["tweak"]:
                continue
            for m in certv1.SPELLINGS:
                plans.append({"seed": seed, "targets": ["signer", "device", "ui"], "elements": LEDGER_LIKE,
                              "corrs": [["respell", i, {"field": f, "member": m}]], "src": "spelling"})
    return plans


def plans_from_behaviour(b, rng, positions=("rand",), expand_shapes=True, spell_rate=0.3):
    """Concretise one behaviour of GenCertChain.  What the model decided is honoured exactly; what
    it left open (elements / links never read) is filled with seeded random content, corrupted or
    not.  Returns one plan per requested flip position class when the behaviour contains a
    bit-flip corruption, else a single plan."""
    by = _dict(b["by"])
    link = _dict(b["link"])
    shapes = _dict(b.get("shape"))       # decided for elements whose key was read (certifiers)
    swap = list(b["swap"]) if b["swap"] else []
    partner = swap[1] if swap else None
    present = {n: p for n, p in by.items() if n != "ghost" and p != "absent"}
    filler = set()
    for n in NAMES:
        if n not in by and (n == partner or rng.random() < 0.6):
            present[n] = rng.choice(list(NAMES) + ["root", "root", "ghost"])
            filler.add(n)
    order = list(present)
    rng.shuffle(order)
    idx = {n: i for i, n in enumerate(order)}
    certifies = set(present.values())
    signers = {l["signer"] for l in link.values()}
    elements, corrs, has_flip = [], [], False
    for n in order:
        p = present[n]
        l = link.get(n)
        e = {"name": n, "signed_by": rng.choice(GHOSTS) if p == "ghost" else p,
             "compressed": False, "leafmsg": 0, "shape": "canon"}
        corr = "ok"
        if l is not None:
            if l["signer"] != p:
                e["signer"] = l["signer"]
            e["tweak"] = l["tw"] != "none"
            corr = l["corr"]
        else:
            e["tweak"] = rng.random() < 0.5
            if n != partner and rng.random() < 0.3:
                k = rng.choice(LOCAL_FILL)
                if k == "tweak_any":
                    k = "tweak_flip" if e["tweak"] else "tweak_add"
                corrs.append([k, idx[n], {}])
        if n in shapes:
            e["shape"] = shapes[n]
        elif b.get("shapeson", True) and corr not in ("keySubst", "msgFlipOther", "msgFlipKey") \
                and rng.random() < 0.4:
            # its key is never read by the model's program: any shape will do (a target still has to
            # report its whole value).  In a configuration without shapes every message is canonical.
            e["shape"] = rng.choice(certv1.SHAPES)
        if e["shape"] == "canon":
            e["compressed"] = rng.random() < 0.4
        if n in ("ui", "signer") and n not in certifies and n not in signers and e["shape"] == "canon" \
                and corr != "keySubst" and rng.random() < 0.5:
            e["leafmsg"] = rng.choice([1, 32, 33, 65, 66, rng.randrange(1, 160)])
        if corr in CORR_OP:
            corrs.append([CORR_OP[corr], idx[n], {"decided": True}])
            has_flip = has_flip or CORR_OP[corr] in FLIPS
        elif corr == "sigSwap":
            corrs.append(["sig_swap", [idx[n], idx[l["partner"]]], {"decided": True}])
        elements.append(e)
    if b["rootkey"] == "k_x":
        corrs.append(["wrong_root", None, {}])
    if not elements:
        # (a refused spelling needs a field to sit in; nothing about this element was ever read)
        n = rng.choice([x for x in NAMES if by.get(x) != "absent"])
        elements.append({"name": n, "signed_by": "root", "compressed": False, "leafmsg": 0, "shape": "canon",
                         "tweak": True})
    tt = any(c[0] in ("tweak_remove", "tweak_add") for c in corrs)
    if b.get("spell") == "refused":
        corrs.append(_respell(rng, elements, certv1.SPELL_REFUSED, decided=True, tweak_touched=tt))
    elif rng.random() < spell_rate:
        # any accepted spelling of the same bytes must change nothing
        corrs.append(_respell(rng, elements, certv1.SPELL_ACCEPTED[1:], tweak_touched=tt))
    corrs.sort(key=lambda c: ORDER.index(c[0]))
    targets = [rng.choice(GHOST_TARGETS) if t == "ghost" else t for t in b["targets"]]
    plans = []
    for at in (positions if has_flip else positions[:1]):
        cs = [[k, w, dict(o, at=at) if (k in FLIPS and at != "rand") else dict(o)] for k, w, o in corrs]
        plans.append({"seed": rng.randrange(1 << 62), "targets": targets, "elements": elements,
                      "corrs": cs, "src": "model-behaviour"})
    # "longHead", "short" and "sliced" are one abstract class (the whole value is not a key, for every
    # element name): where the model decided one of them, the two others are run as well
    same = ("longHead", "short", "sliced")
    if expand_shapes and any(e["shape"] in same and e["name"] in shapes for e in elements):
        for k in (1, 2):
            els = [dict(e, shape=same[(same.index(e["shape"]) + k) % 3])
                   if (e["shape"] in same and e["name"] in shapes) else e for e in elements]
            plans.append({"seed": rng.randrange(1 << 62), "targets": targets, "elements": els,
                          "corrs": [[k2, w, dict(o)] for k2, w, o in plans[0]["corrs"]], "src": "model-behaviour"})
    return plans


def random_plan(rng):
    """Binding B: a random certificate over the concrete domains with 0..3 real corruptions."""
    k = rng.randrange(1, 5)
    names = rng.sample(NAMES, k)
    elements = []
    for i, n in enumerate(names):
        r = rng.random()
        if r < 0.7:
            p = "root" if i == 0 else rng.choice(names[:i] + (["root"] if rng.random() < 0.2 else []))
        else:
            p = rng.choice(list(NAMES) + ["root", rng.choice(GHOSTS)])
        elements.append({"name": n, "signed_by": p, "tweak": rng.random() < 0.5,
                         "compressed": rng.random() < 0.4, "leafmsg": 0,
                         "shape": "canon" if rng.random() < 0.7 else rng.choice(certv1.SHAPES)})
    order = list(range(k))
    rng.shuffle(order)
    elements = [elements[i] for i in order]
    corrs = []
    for _ in range(rng.choice([0, 1, 1, 1, 2, 2, 3])):
        kind = rng.choice(ORDER[:-1])
        i = rng.randrange(k)
        if kind == "sig_swap":
            if k < 2:
                continue
            j = rng.choice([x for x in range(k) if x != i])
            corrs.append([kind, [i, j], {}])
        elif kind == "reparent":
            corrs.append([kind, [i, rng.choice(list(NAMES) + ["root"])], {}])
        elif kind == "wrong_root":
            corrs.append([kind, None, {}])
        else:
            corrs.append([kind, i, {}])
    if rng.random() < 0.35:
        corrs.append(_respell(rng, elements, certv1.SPELLINGS[1:] if rng.random() < 0.25
                              else certv1.SPELL_ACCEPTED[1:],
                              tweak_touched=any(c[0] in ("tweak_remove", "tweak_add") for c in corrs)))
    corrs.sort(key=lambda c: ORDER.index(c[0]))
    nt = rng.choice([0, 1, 1, 2, 2, 3])
    targets = [rng.choice(names + names + [rng.choice(GHOST_TARGETS)]) for _ in range(nt)]
    return {"seed": rng.randrange(1 << 62), "targets": targets, "elements": elements, "corrs": corrs,
            "src": "random"}


LEDGER_LIKE = [{"name": "device", "signed_by": "root", "tweak": False, "compressed": False, "leafmsg": 0},
               {"name": "attestation", "signed_by": "device", "tweak": True, "compressed": False, "leafmsg": 0},
               {"name": "ui", "signed_by": "attestation", "tweak": True, "compressed": True, "leafmsg": 0},
               {"name": "signer", "signed_by": "ui", "tweak": True, "compressed": False, "leafmsg": 0}]


def sweep_plans(rng, bits):
    """Every byte position of every message, signature and tweak of one representative depth-4
    chain (device <- attestation <- ui <- signer, tweaks on three links), `bits` bit(s) per byte."""
    seed = rng.randrange(1 << 62)
    base = {"seed": seed, "targets": ["signer", "attestation"], "elements": LEDGER_LIKE, "corrs": []}
    ch = build_plan(base)
    plans = []
    for i, e in enumerate(ch.cert["elements"]):
        for field, kind in (("message", "msg_flip"), ("signature", "sig_flip"), ("tweak", "tweak_flip")):
            if field not in e:
                continue
            for pos in range(len(e[field]) // 2):
                for bit in (range(8) if bits >= 8 else rng.sample(range(8), bits)):
                    plans.append({"seed": seed, "targets": base["targets"], "elements": LEDGER_LIKE,
                                  "corrs": [[kind, i, {"pos": [pos, bit]}]], "src": "byte-sweep"})
    return plans


_memo = {}
_pools = {}


def build_plan(plan):
    """plan -> certv1.Chain (deterministic given the plan)."""
    key = (plan["seed"], plan.get("keyseed"), json.dumps(plan["elements"], sort_keys=True),
           json.dumps(plan["targets"]))
    pick = _memo.get(key)
    if pick is None:
        rng = random.Random(plan["seed"])
        els = []
        for e in plan["elements"]:
            it = {"name": e["name"], "signed_by": e["signed_by"], "compressed": e.get("compressed", False),
                  "shape": e.get("shape", "canon")}
            if "signer" in e:
                it["signer"] = e["signer"]
            if e.get("tweak"):
                it["tweak"] = "random"
            if e.get("leafmsg"):
                it["message"] = bytes(rng.randrange(256) for _ in range(e["leafmsg"]))
            els.append(it)
        pool = _pools.get(plan.get("keyseed"))
        if pool is None and plan.get("keyseed") is not None:
            pool = _pools[plan["keyseed"]] = certv1.KeyPool(plan["keyseed"])
        ch = certv1.build({"targets": plan["targets"], "elements": els}, rng,
                          keypool=pool.picker() if pool else None)
        import pickle
        pick = pickle.dumps((ch, rng.getstate()))
        if len(_memo) > 8:
            _memo.clear()
        _memo[key] = pick
    import pickle
    ch, state = pickle.loads(pick)
    rng = random.Random()
    rng.setstate(state)
    ch.rng = rng
    skipped = []
    for kind, where, opt in plan["corrs"]:
        w = tuple(where) if isinstance(where, list) else where
        try:
            ch.corrupt(kind, w, rng, **opt)
        except (ValueError, KeyError, IndexError) as ex:     # not applicable to this element
            skipped.append([kind, where, str(ex), "decided" if opt.get("decided") else "fill"])
    ch.skipped = skipped
    return ch


def run_real(path, root_hex, pre_root_hex=None):
    """The code under test.  Returns the projected observation.  With `pre_root_hex` the certificate
    object is first asked about that other root and only then about `root_hex`: the verdict is a function
    of (certificate, root of trust), so an answer remembered from an earlier query shows as a difference."""
    from admin.certificate import HSMCertificate, HSMCertificateRoot
    try:
        cert = HSMCertificate.from_jsonfile(path)
    except Exception as e:          # any exception is "reports an error"
        return {"outcome": "error", "err": "%s: %s" % (type(e).__name__, str(e)[:120]), "res": []}
    if pre_root_hex is not None:
        try:
            cert.validate_and_get_values(HSMCertificateRoot(pre_root_hex))
        except Exception:
            pass
    try:
        res = cert.validate_and_get_values(HSMCertificateRoot(root_hex))
    except Exception as e:
        return {"outcome": "loaded", "err": "validate raised %s: %s" % (type(e).__name__, str(e)[:120]),
                "res": []}
    out = []
    for t, v in res.items():
        valid = bool(v[0])
        out.append({"target": t if isinstance(t, str) else repr(t), "valid": valid,
                    "name": "" if valid else str(v[1]),
                    "value": (v[1].lower() if isinstance(v[1], str) else repr(v[1])) if valid else "",
                    "tweak": (v[2] if len(v) > 2 and v[2] is not None else "") if valid else ""})
    return {"outcome": "loaded", "err": "", "res": out}


def execute(job):
    """Worker entry: job = (plan, scratch dir) -> trace record (without id)."""
    plan, scratch = job
    ch = build_plan(plan)
    path = os.path.join(scratch, "c06_%d.json" % os.getpid())
    ch.dump(path)
    obs = run_real(path, ch.root_hex)
    t = trace_of(ch, obs)
    # same question put to an object that was first asked about the other root (the stranger's key when
    # the chain is asked about its own root, and vice versa): a different answer is judged as well
    alt = ch.keys["x"].hex if ch.root_hex == ch.keys["root"].hex else ch.keys["root"].hex
    obs2 = run_real(path, ch.root_hex, pre_root_hex=alt)
    if obs2 != obs:
        t["also"] = trace_of(ch, obs2)
    return t


def trace_of(ch, obs):
    els = [{k: v for k, v in s.to_dict().items() if k != "tweak_hex"} for s in ch.sym]
    tw = {s.name: s.tweak_hex for s in ch.sym}
    return {"rootkey": ch.root_sym, "targets": list(ch.cert["targets"]), "els": els, "spell": ch.spell,
            "outcome": obs["outcome"], "res": [{k: r[k] for k in ("target", "valid", "name", "value")}
                                               for r in obs["res"]],
            "err": obs["err"], "skipped": ch.skipped,
            "tweak_drift": sum(1 for r in obs["res"] if r["valid"] and r["tweak"] != tw.get(r["target"], ""))}
