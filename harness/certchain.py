"""C06 helper: from abstract certificates (behaviours of spec/CertChain.tla, random plans, byte sweeps)
to REAL version-1 certificates (harness/certv1.py), through the real
HSMCertificate.from_jsonfile(...).validate_and_get_values(HSMCertificateRoot(root)), to one trace
record per certificate for spec/TraceCertChain.tla.

A *plan* is the JSON-serialisable recipe of one certificate (also the replay artefact):
    {"seed": int, "targets": [...],
     "elements": [{"name", "signed_by", "signer"?, "tweak": bool, "compressed": bool, "leafmsg": int,
                   "shape": one of certv1.SHAPES}],
     "corrs": [[kind, where, opt], ...], "src": "...", "desc": {...}}
"""
import json
import os
import random

from . import certv1

NAMES = certv1.NAMES
GHOSTS = ["ghost", "", "Signer", "UI", "device ", "0", "r00t", "sgx_root"]
GHOST_TARGETS = GHOSTS + ["root"]

CORR_OP = {"sigOtherKey": "sig_other_key", "sigFlip": "sig_flip", "msgFlipKey": "msg_flip_key",
           "msgFlipOther": "msg_flip_other", "keySubst": "key_subst", "tweakFlip": "tweak_flip",
           "tweakRemove": "tweak_remove", "tweakAdd": "tweak_add"}
ORDER = ["key_subst", "sig_other_key", "tweak_add", "tweak_remove", "tweak_flip", "msg_flip_key",
         "msg_flip_other", "msg_flip", "sig_flip", "sig_swap", "reparent", "wrong_root", "respell"]
HEXFIELDS = ("message", "signature", "tweak")
FLIPS = ("sig_flip", "msg_flip_key", "msg_flip_other", "msg_flip", "tweak_flip")
LOCAL_FILL = ["sig_flip", "msg_flip", "sig_other_key", "tweak_any"]


def _dict(x):
    return x if isinstance(x, dict) else {}


def _respell(rng, elements, members, decided=False, tweak_touched=False):
    """One hex field of one element (on or off any path) written in a seeded member of `members`."""
    i = rng.randrange(len(elements))
    fields = ["message", "signature"] + (["tweak"] if elements[i].get("tweak") and not tweak_touched else [])
    return ["respell", i, {"field": rng.choice(fields), "member": rng.choice(list(members)),
                           "decided": decided}]


def spelling_plans(rng):
    """Every member of every spelling class on every hex field of every element of a Ledger-like chain
    (one deviation per certificate), with targets above, at and below the respelt element."""
    seed = rng.randrange(1 << 62)
    plans = []
    for i, e in enumerate(LEDGER_LIKE):
        for f in HEXFIELDS:
            if f == "tweak" and not e["tweak"]:
                continue
            for m in certv1.SPELLINGS:
                plans.append({"seed": seed, "targets": ["signer", "device", "ui"], "elements": LEDGER_LIKE,
                              "corrs": [["respell", i, {"field": f, "member": m}]], "src": "spelling"})
    return plans


def plans_from_behaviour(b, rng, positions=("rand",), expand_shapes=True, spell_rate=0.3):
    """Concretise one behaviour of GenCertChain.  What the model decided is honoured exactly; what
    it left open (elements / links never read) is filled with seeded random content, corrupted or
    not.  Returns one plan per requested flip position class when the behaviour contains a
    bit-flip corruption, else a single plan."""
    by = _dict(b["by"])
    link = _dict(b["link"])
    shapes = _dict(b.get("shape"))       # decided for elements whose key was read (certifiers)
    swap = list(b["swap"]) if b["swap"] else []
    partner = swap[1] if swap else None
    present = {n: p for n, p in by.items() if n != "ghost" and p != "absent"}
    filler = set()
    for n in NAMES:
        if n not in by and (n == partner or rng.random() < 0.6):
            present[n] = rng.choice(list(NAMES) + ["root", "root", "ghost"])
            filler.add(n)
    order = list(present)
    rng.shuffle(order)
    idx = {n: i for i, n in enumerate(order)}
    certifies = set(present.values())
    signers = {l["signer"] for l in link.values()}
    elements, corrs, has_flip = [], [], False
    for n in order:
        p = present[n]
        l = link.get(n)
        e = {"name": n, "signed_by": rng.choice(GHOSTS) if p == "ghost" else p,
             "compressed": False, "leafmsg": 0, "shape": "canon"}
        corr = "ok"
        if l is not None:
            if l["signer"] != p:
                e["signer"] = l["signer"]
            e["tweak"] = l["tw"] != "none"
            corr = l["corr"]
        else:
            e["tweak"] = rng.random() < 0.5
            if n != partner and rng.random() < 0.3:
                k = rng.choice(LOCAL_FILL)
                if k == "tweak_any":
                    k = "tweak_flip" if e["tweak"] else "tweak_add"
                corrs.append([k, idx[n], {}])
        if n in shapes:
            e["shape"] = shapes[n]
        elif b.get("shapeson", True) and corr not in ("keySubst", "msgFlipOther", "msgFlipKey") \
                and rng.random() < 0.4:
            # its key is never read by the model's program: any shape will do (a target still has to
            # report its whole value).  In a configuration without shapes every message is canonical.
            e["shape"] = rng.choice(certv1.SHAPES)
        if e["shape"] == "canon":
            e["compressed"] = rng.random() < 0.4
        if n in ("ui", "signer") and n not in certifies and n not in signers and e["shape"] == "canon" \
                and corr != "keySubst" and rng.random() < 0.5:
            e["leafmsg"] = rng.choice([1, 32, 33, 65, 66, rng.randrange(1, 160)])
        if corr in CORR_OP:
            corrs.append([CORR_OP[corr], idx[n], {"decided": True}])
            has_flip = has_flip or CORR_OP[corr] in FLIPS
        elif corr == "sigSwap":
            corrs.append(["sig_swap", [idx[n], idx[l["partner"]]], {"decided": True}])
        elements.append(e)
    if b["rootkey"] == "k_x":
        corrs.append(["wrong_root", None, {}])
    if not elements:
        # (a refused spelling needs a field to sit in; nothing about this element was ever read)
        n = rng.choice([x for x in NAMES if by.get(x) != "absent"])
        elements.append({"name": n, "signed_by": "root", "compressed": False, "leafmsg": 0, "shape": "canon",
                         "tweak": True})
    tt = any(c[0] in ("tweak_remove", "tweak_add") for c in corrs)
    if b.get("spell") == "refused":
        corrs.append(_respell(rng, elements, certv1.SPELL_REFUSED, decided=True, tweak_touched=tt))
    elif rng.random() < spell_rate:
        # any accepted spelling of the same bytes must change nothing
        corrs.append(_respell(rng, elements, certv1.SPELL_ACCEPTED[1:], tweak_touched=tt))
    corrs.sort(key=lambda c: ORDER.index(c[0]))
    targets = [rng.choice(GHOST_TARGETS) if t == "ghost" else t for t in b["targets"]]
    plans = []
    for at in (positions if has_flip else positions[:1]):
        cs = [[k, w, dict(o, at=at) if (k in FLIPS and at != "rand") else dict(o)] for k, w, o in corrs]
        plans.append({"seed": rng.randrange(1 << 62), "targets": targets, "elements": elements,
                      "corrs": cs, "src": "model-behaviour"})
    # "longHead", "short" and "sliced" are one abstract class (the whole value is not a key, for every
    # element name): where the model decided one of them, the two others are run as well
    same = ("longHead", "short", "sliced")
    if expand_shapes and any(e["shape"] in same and e["name"] in shapes for e in elements):
        for k in (1, 2):
            els = [dict(e, shape=same[(same.index(e["shape"]) + k) % 3])
                   if (e["shape"] in same and e["name"] in shapes) else e for e in elements]
            plans.append({"seed": rng.randrange(1 << 62), "targets": targets, "elements": els,
                          "corrs": [[k2, w, dict(o)] for k2, w, o in plans[0]["corrs"]], "src": "model-behaviour"})
    return plans


def random_plan(rng):
    """Binding B: a random certificate over the concrete domains with 0..3 real corruptions."""
    k = rng.randrange(1, 5)
    names = rng.sample(NAMES, k)
    elements = []
    for i, n in enumerate(names):
        r = rng.random()
        if r < 0.7:
            p = "root" if i == 0 else rng.choice(names[:i] + (["root"] if rng.random() < 0.2 else []))
        else:
            p = rng.choice(list(NAMES) + ["root", rng.choice(GHOSTS)])
        elements.append({"name": n, "signed_by": p, "tweak": rng.random() < 0.5,
                         "compressed": rng.random() < 0.4, "leafmsg": 0,
                         "shape": "canon" if rng.random() < 0.7 else rng.choice(certv1.SHAPES)})
    order = list(range(k))
    rng.shuffle(order)
    elements = [elements[i] for i in order]
    corrs = []
    for _ in range(rng.choice([0, 1, 1, 1, 2, 2, 3])):
        kind = rng.choice(ORDER[:-1])
        i = rng.randrange(k)
        if kind == "sig_swap":
            if k < 2:
                continue
            j = rng.choice([x for x in range(k) if x != i])
            corrs.append([kind, [i, j], {}])
        elif kind == "reparent":
            corrs.append([kind, [i, rng.choice(list(NAMES) + ["root"])], {}])
        elif kind == "wrong_root":
            corrs.append([kind, None, {}])
        else:
            corrs.append([kind, i, {}])
    if rng.random() < 0.35:
        corrs.append(_respell(rng, elements, certv1.SPELLINGS[1:] if rng.random() < 0.25
                              else certv1.SPELL_ACCEPTED[1:],
                              tweak_touched=any(c[0] in ("tweak_remove", "tweak_add") for c in corrs)))
    corrs.sort(key=lambda c: ORDER.index(c[0]))
    nt = rng.choice([0, 1, 1, 2, 2, 3])
    targets = [rng.choice(names + names + [rng.choice(GHOST_TARGETS)]) for _ in range(nt)]
    return {"seed": rng.randrange(1 << 62), "targets": targets, "elements": elements, "corrs": corrs,
            "src": "random"}


LEDGER_LIKE = [{"name": "device", "signed_by": "root", "tweak": False, "compressed": False, "leafmsg": 0},
               {"name": "attestation", "signed_by": "device", "tweak": True, "compressed": False, "leafmsg": 0},
               {"name": "ui", "signed_by": "attestation", "tweak": True, "compressed": True, "leafmsg": 0},
               {"name": "signer", "signed_by": "ui", "tweak": True, "compressed": False, "leafmsg": 0}]


def sweep_plans(rng, bits):
    """Every byte position of every message, signature and tweak of one representative depth-4
    chain (device <- attestation <- ui <- signer, tweaks on three links), `bits` bit(s) per byte."""
    seed = rng.randrange(1 << 62)
    base = {"seed": seed, "targets": ["signer", "attestation"], "elements": LEDGER_LIKE, "corrs": []}
    ch = build_plan(base)
    plans = []
    for i, e in enumerate(ch.cert["elements"]):
        for field, kind in (("message", "msg_flip"), ("signature", "sig_flip"), ("tweak", "tweak_flip")):
            if field not in e:
                continue
            for pos in range(len(e[field]) // 2):
                for bit in (range(8) if bits >= 8 else rng.sample(range(8), bits)):
                    plans.append({"seed": seed, "targets": base["targets"], "elements": LEDGER_LIKE,
                                  "corrs": [[kind, i, {"pos": [pos, bit]}]], "src": "byte-sweep"})
    return plans


_memo = {}
_pools = {}


def build_plan(plan):
    """plan -> certv1.Chain (deterministic given the plan)."""
    key = (plan["seed"], plan.get("keyseed"), json.dumps(plan["elements"], sort_keys=True),
           json.dumps(plan["targets"]))
    pick = _memo.get(key)
    if pick is None:
        rng = random.Random(plan["seed"])
        els = []
        for e in plan["elements"]:
            it = {"name": e["name"], "signed_by": e["signed_by"], "compressed": e.get("compressed", False),
                  "shape": e.get("shape", "canon")}
            if "signer" in e:
                it["signer"] = e["signer"]
            if e.get("tweak"):
                it["tweak"] = "random"
            if e.get("leafmsg"):
                it["message"] = bytes(rng.randrange(256) for _ in range(e["leafmsg"]))
            els.append(it)
        pool = _pools.get(plan.get("keyseed"))
        if pool is None and plan.get("keyseed") is not None:
            pool = _pools[plan["keyseed"]] = certv1.KeyPool(plan["keyseed"])
        ch = certv1.build({"targets": plan["targets"], "elements": els}, rng,
                          keypool=pool.picker() if pool else None)
        import pickle
        pick = pickle.dumps((ch, rng.getstate()))
        if len(_memo) > 8:
            _memo.clear()
        _memo[key] = pick
    import pickle
    ch, state = pickle.loads(pick)
    rng = random.Random()
    rng.setstate(state)
    ch.rng = rng
    skipped = []
    for kind, where, opt in plan["corrs"]:
        w = tuple(where) if isinstance(where, list) else where
        try:
            ch.corrupt(kind, w, rng, **opt)
        except (ValueError, KeyError, IndexError) as ex:     # not applicable to this element
            skipped.append([kind, where, str(ex), "decided" if opt.get("decided") else "fill"])
    ch.skipped = skipped
    return ch


def run_real(path, root_hex, pre_root_hex=None, pre=()):
    """The code under test.  Returns the projected observation.  With `pre_root_hex` the certificate
    object is first asked about that other root and only then about `root_hex`: the verdict is a function
    of (certificate, root of trust), so an answer remembered from an earlier query shows as a difference."""
    from admin.certificate import HSMCertificate, HSMCertificateRoot
    try:
        cert = HSMCertificate.from_jsonfile(path)
    except Exception as e:          # any exception is "reports an error"
        return {"outcome": "error", "err": "%s: %s" % (type(e).__name__, str(e)[:120]), "res": []}
    for earlier in ([pre_root_hex] if pre_root_hex is not None else []) + list(pre):
        try:
            cert.validate_and_get_values(HSMCertificateRoot(earlier))
        except Exception:
            pass
    try:
        res = cert.validate_and_get_values(HSMCertificateRoot(root_hex))
    except Exception as e:
        return {"outcome": "loaded", "err": "validate raised %s: %s" % (type(e).__name__, str(e)[:120]),
                "res": []}
    out = []
    for t, v in res.items():
        valid = bool(v[0])
        out.append({"target": t if isinstance(t, str) else repr(t), "valid": valid,
                    "name": "" if valid else str(v[1]),
                    "value": (v[1].lower() if isinstance(v[1], str) else repr(v[1])) if valid else "",
                    "tweak": (v[2] if len(v) > 2 and v[2] is not None else "") if valid else ""})
    return {"outcome": "loaded", "err": "", "res": out}


def root_hex_for(ch, enc):
    """The root key this chain is validated against (the right one, or the stranger's after a wrong_root),
    in the requested encoding."""
    key = ch.keys["x"] if ch.root_sym == "k_x" else ch.keys["root"]
    return key.pub33.hex() if enc == "compressed" else key.hex


def execute(job):
    """Worker entry: job = (plan, scratch dir) -> trace record (without id)."""
    plan, scratch = job
    ch = build_plan(plan)
    path = os.path.join(scratch, "c06_%d.json" % os.getpid())
    ch.dump(path)
    # the ENCODING in which the root key is handed to HSMCertificateRoot is an environment choice: the
    # same key, uncompressed (04 X Y) or compressed (02/03 X); the verdicts are those of that key
    enc = plan.get("rootenc", "uncompressed")
    right = root_hex_for(ch, enc)
    obs = run_real(path, right)
    t = trace_of(ch, obs)
    t["rootenc"] = enc
    if enc != "uncompressed":
        # (and once more the plain way, for the re-query comparisons below)
        plain = run_real(path, ch.root_hex)
        if plain != obs:
            t.setdefault("more", []).append(dict(trace_of(ch, plain), rootenc="uncompressed"))
    # same question put to an object that was first asked about the other root (the stranger's key when
    # the chain is asked about its own root, and vice versa): a different answer is judged as well
    alt = ch.keys["x"].hex if ch.root_hex == ch.keys["root"].hex else ch.keys["root"].hex
    obs2 = run_real(path, ch.root_hex, pre_root_hex=alt)
    obs = run_real(path, ch.root_hex) if enc != "uncompressed" else obs
    if obs2 != obs:
        t["also"] = trace_of(ch, obs2)
    # ... and to an object that has already answered this very question (once, twice): validation must
    # not consume or remember anything
    for pre in ([ch.root_hex], [ch.root_hex, alt, ch.root_hex]):
        obs3 = run_real(path, ch.root_hex, pre=pre)
        if obs3 != obs:
            t.setdefault("more", []).append(trace_of(ch, obs3))
            break
    return t


# ------------------------------------------------------------------------------------------------------
# histories: several operations on the same certificate object(s)
# ------------------------------------------------------------------------------------------------------
def _project(res):
    out = []
    for t, v in res.items():
        valid = bool(v[0])
        out.append({"target": t if isinstance(t, str) else repr(t), "valid": valid,
                    "name": "" if valid else str(v[1]),
                    "value": (v[1].lower() if isinstance(v[1], str) else repr(v[1])) if valid else "",
                    "tweak": (v[2] if len(v) > 2 and v[2] is not None else "") if valid else ""})
    return out


def _validate(obj, ch, which):
    """One validate on the real object, recorded with the content the builder knows it has NOW."""
    from admin.certificate import HSMCertificateRoot
    hexkey = ch.keys["root"].hex if which == "right" else ch.keys["x"].hex
    try:
        obs = {"outcome": "loaded", "err": "", "res": _project(obj.validate_and_get_values(HSMCertificateRoot(hexkey)))}
    except Exception as e:
        obs = {"outcome": "loaded", "err": "validate raised %s: %s" % (type(e).__name__, str(e)[:120]), "res": []}
    t = trace_of(ch, obs)
    t["rootkey"] = "k_root" if which == "right" else "k_x"
    return t


def paths_ok(elements, targets):
    """Own walk over the builder's content: every target reaches the root without a cycle."""
    by = {e["name"]: e["signed_by"] for e in elements}
    for t in targets:
        seen, n = set(), t
        while True:
            if not isinstance(n, str) or n not in by or n in seen:
                return False
            if by[n] == "root":
                break
            seen.add(n)
            n = by[n]
    return True


def run_history(ch, obj, ops, scratch, tag):
    """Apply `ops` to the real object `obj` and, in step, to the builder's chain `ch`; every validate
    yields one trace (judged against the content at that moment and the root it was given)."""
    from admin.certificate import HSMCertificate, HSMCertificateElement
    traces = []
    for op in ops:
        k = op[0]
        if k == "validate":
            t = _validate(obj, ch, op[1])
            t["step"] = "%s: validate(%s root)" % (tag, op[1])
            traces.append(t)
        elif k == "todict":
            obj.to_dict()
        elif k == "reload":
            p2 = os.path.join(scratch, "c06_%d_%s.json" % (os.getpid(), tag))
            obj.save_to_jsonfile(p2)
            obj = HSMCertificate.from_jsonfile(p2)
        elif k == "clear":
            obj.clear_targets()
            ch.cert["targets"] = []
        elif k == "addtarget":
            obj.add_target(op[1])
            ch.cert["targets"].append(op[1])
        elif k == "addel":
            i = ch.put_element(_item(op[1], ch.rng))
            for kind, opt in op[2]:
                try:
                    ch.corrupt(kind, i, ch.rng, **opt)
                except (ValueError, KeyError, IndexError):      # not applicable to this element
                    pass
            obj.add_element(HSMCertificateElement(ch.rendered()["elements"][i]))
        else:
            raise ValueError("unknown operation %r" % (op,))
    return traces, obj


def _item(e, rng):
    it = {"name": e["name"], "signed_by": e["signed_by"], "compressed": e.get("compressed", False),
          "shape": e.get("shape", "canon")}
    if "signer" in e:
        it["signer"] = e["signer"]
    if e.get("tweak"):
        it["tweak"] = "random"
    if e.get("leafmsg"):
        it["message"] = bytes(rng.randrange(256) for _ in range(e["leafmsg"]))
    return it


def longrun_plan(rng, n_devices, every, forgers):
    """One long run in ONE process: n_devices distinct devices (each a chain root <- device <- attestation
    <- ui with its own device and attestation keys, i.e. 2 * n_devices certifier keys), introduced in
    order; after device t, earlier certificates are validated AGAIN (fresh object, same file) at the
    distances of harness/longrun.py, and so is a FORGERY of that early certificate: its attestation
    element re-signed, tweak and all, with the device key of a later device (`forgers`: which ones)."""
    return {"longrun": {"n": n_devices, "every": every, "forgers": list(forgers)}, "seed": rng.randrange(1 << 62),
            "src": "long-run", "targets": ["ui", "attestation", "device"], "elements": LONGRUN_ELEMENTS, "corrs": []}


LONGRUN_ELEMENTS = [{"name": "device", "signed_by": "root", "tweak": False, "compressed": False, "leafmsg": 0},
                    {"name": "attestation", "signed_by": "device", "tweak": True, "compressed": False, "leafmsg": 0},
                    {"name": "ui", "signed_by": "attestation", "tweak": True, "compressed": True, "leafmsg": 0}]


def execute_longrun(job):
    import copy
    from .longrun import revisit_schedule
    plan, scratch = job
    lr = plan["longrun"]
    rng = random.Random(plan["seed"])
    path = os.path.join(scratch, "c06_%d_lr.json" % os.getpid())
    chains = {}
    seen, traces = set(), []

    def observe(ch, step):
        ch.dump(path)
        t = trace_of(ch, run_real(path, ch.root_hex))
        t["step"] = step
        key = json.dumps([t["els"], t["res"], t["outcome"], t["rootkey"]], sort_keys=True)
        if key not in seen:          # (an observation identical to an earlier one is the same trace)
            seen.add(key)
            traces.append(t)
        return t
    count = {"new": 0, "again": 0, "forged": 0}
    for ev in revisit_schedule(lr["n"], every=lr["every"]):
        if ev[0] == "new":
            i = ev[1]
            els = [{"name": e["name"], "signed_by": e["signed_by"], "compressed": e["compressed"],
                    **({"tweak": "random"} if e["tweak"] else {})} for e in LONGRUN_ELEMENTS]
            chains[i] = certv1.build({"targets": plan["targets"], "elements": els}, rng)
            observe(chains[i], "device %d: first validation" % i)
            count["new"] += 1
        else:
            _, j, d = ev
            t_now = j + d
            observe(chains[j], "device %d again, %d devices later" % (j, d))
            count["again"] += 1
            for f in lr["forgers"]:
                k = {"latest": t_now, "previous": t_now - 1, "next": j + 1}[f]
                if k == j or k not in chains:
                    continue
                forged = copy.deepcopy(chains[j])
                forged.add_key("device_of_%d" % k, chains[k].keys["device"])
                forged.corrupt("sig_other_key", 1, rng, key_id="device_of_%d" % k)
                observe(forged, "device %d forged with the device key of %d, %d devices later" % (j, k, d))
                count["forged"] += 1
    if not traces:
        raise RuntimeError("empty long run")
    first = traces[0]
    first["more"] = traces[1:]
    first["longrun_counts"] = count
    return first


def execute_any(job):
    plan = job[0]
    if "longrun" in plan:
        return execute_longrun(job)
    return execute_history(job) if ("ops" in plan or "pair" in plan or plan.get("origin")) else execute(job)


def execute_history(job):
    """Worker entry for a history plan: {"origin": "loaded" | "built", base plan fields, "ops": [...]},
    or a pair plan {"pair": [planA, planB], "order": [...]}.  Returns the first trace with the others
    under "more"."""
    from admin.certificate import HSMCertificate
    plan, scratch = job
    if "pair" in plan:
        return execute_pair(plan, scratch)
    ch = build_plan(plan)
    traces = []
    if plan.get("origin") == "built":
        obj = HSMCertificate()
    else:
        path = os.path.join(scratch, "c06_%d.json" % os.getpid())
        ch.dump(path)
        try:
            obj = HSMCertificate.from_jsonfile(path)
        except Exception as e:
            return trace_of(ch, {"outcome": "error", "err": "%s: %s" % (type(e).__name__, str(e)[:120]), "res": []})
        t = _validate(obj, ch, "right" if ch.root_sym == "k_root" else "other")
        t["step"] = "loaded: validate"
        traces.append(t)
    more, obj = run_history(ch, obj, plan.get("ops", []), scratch, "h")
    traces += more
    if not traces:      # a built object that was never asked anything
        traces = [trace_of(ch, {"outcome": "loaded", "err": "", "res": []})]
        traces[0]["targets"] = []
    first = traces[0]
    first["more"] = traces[1:]
    return first


def execute_pair(plan, scratch):
    """Two different certificate objects in one process, validated alternately."""
    from admin.certificate import HSMCertificate
    chs, objs = [], []
    for k, p in enumerate(plan["pair"]):
        ch = build_plan(p)
        path = os.path.join(scratch, "c06_%d_%d.json" % (os.getpid(), k))
        ch.dump(path)
        try:
            objs.append(HSMCertificate.from_jsonfile(path))
        except Exception as e:
            objs.append(None)
        chs.append(ch)
    traces = []
    for k, which in plan["order"]:
        if objs[k] is None:
            continue
        t = _validate(objs[k], chs[k], which)
        t["step"] = "object %d: validate(%s root)" % (k, which)
        traces.append(t)
    if not traces:
        return trace_of(chs[0], {"outcome": "error", "err": "neither certificate loads", "res": []})
    first = traces[0]
    first["more"] = traces[1:]
    return first


def history_plan_from_behaviour(b, rng):
    """Concretise one behaviour of a history configuration (GenH*): replay its log of decisions and
    operations.  A decision about an element's link made AFTER an add_element of that element belongs to
    the element that was added."""
    log = b["log"] if isinstance(b["log"], list) else []
    origin = "built" if (log and log[0]["k"] == "origin") else "loaded"
    gen = {}
    links = {}                              # (name, generation) -> link decision
    first_op = next((i for i, e in enumerate(log) if e["k"].startswith("op:")), len(log))
    for e in log:
        if e["k"] == "op:addel":
            gen[e["n"]] = gen.get(e["n"], 0) + 1
        elif e["k"] == "link":
            links[(e["n"], gen.get(e["n"], 0))] = e

    def spec(n, p, l):
        it = {"name": n, "signed_by": rng.choice(GHOSTS) if p == "ghost" else p, "compressed": rng.random() < 0.4,
              "leafmsg": 0, "shape": "canon", "tweak": (l["tw"] != "none") if l else rng.random() < 0.5}
        cs = []
        if l:
            if l["a"] != p:
                it["signer"] = l["a"]
            if l["corr"] in CORR_OP:
                cs.append([CORR_OP[l["corr"]], {}])
        return it, cs
    # initial content: what _parse read (a loaded object); present = decided and not absent
    elements, corrs = [], []
    initial = [(e["n"], e["a"]) for e in log[:first_op] if e["k"] == "by" and e["a"] != "absent" and e["n"] != "ghost"]
    if origin == "loaded":
        # `by` decisions are only taken while parsing, i.e. before the first operation
        for n, p in initial:
            it, cs = spec(n, p, links.get((n, 0)))
            elements.append(it)
            corrs += [[k, len(elements) - 1, o] for k, o in cs]
    gen = {}
    ops = []
    for e in log[first_op:]:
        k = e["k"]
        if k == "op:validate":
            ops.append(["validate", "right" if e["a"] == "k_root" else "other"])
        elif k == "op:passive":
            ops.append([rng.choice(["todict", "reload"])])
        elif k == "op:clear":
            ops.append(["clear"])
        elif k == "op:addtarget":
            ops.append(["addtarget", e["n"]])
        elif k == "op:addel":
            gen[e["n"]] = gen.get(e["n"], 0) + 1
            it, cs = spec(e["n"], e["a"], links.get((e["n"], gen[e["n"]])))
            ops.append(["addel", it, cs])
    targets = [rng.choice(GHOST_TARGETS) if t == "ghost" else t for t in _initial_targets(b, log, first_op)]
    plan = {"seed": rng.randrange(1 << 62), "origin": origin, "targets": targets if origin == "loaded" else [],
            "elements": elements, "corrs": corrs, "ops": ops, "src": "model-history"}
    if any(e["k"] == "root" and e["a"] == "k_x" for e in log[:first_op]):
        plan["corrs"].append(["wrong_root", None, {}])
    return plan


def _initial_targets(b, log, first_op):
    """The target list the object was loaded with (logged by the model)."""
    return [e["n"] for e in log if e["k"] == "target0"]


def random_history_plan(rng):
    """Binding B for histories: a random certificate, then 2-4 random operations on the same object
    (validations prevail; content changes keep every target's path to the root intact)."""
    base = random_plan(rng)
    # (no re-parenting after the fact: the operations below are planned on the declared graph)
    base["corrs"] = [c for c in base["corrs"] if c[0] != "reparent"
                     and (c[0] != "respell" or c[2]["member"] in certv1.SPELL_ACCEPTED)]
    els = [dict(e) for e in base["elements"]]
    targets = list(base["targets"])
    ops = []
    for _ in range(rng.choice([2, 3, 4])):
        r = rng.random()
        names = [e["name"] for e in els]
        if r < 0.5:
            ops.append(["validate", "right" if rng.random() < 0.75 else "other"])
        elif r < 0.6:
            ops.append([rng.choice(["todict", "reload"])])
        elif r < 0.68:
            ops.append(["clear"])
            targets = []
        elif r < 0.82:
            cand = [n for n in names if paths_ok(els, targets + [n])]
            if cand:
                t = rng.choice(cand)
                ops.append(["addtarget", t])
                targets.append(t)
        else:
            n = rng.choice(NAMES)
            for _try in range(6):
                p = rng.choice(names + ["root", "root"])
                new = [e for e in els if e["name"] != n] + [{"name": n, "signed_by": p}]
                if paths_ok(new, targets):
                    it = {"name": n, "signed_by": p, "tweak": rng.random() < 0.5, "compressed": rng.random() < 0.4,
                          "leafmsg": 0, "shape": "canon"}
                    cs = [[rng.choice(["sig_flip", "msg_flip", "sig_other_key"]), {}]] if rng.random() < 0.25 else []
                    ops.append(["addel", it, cs])
                    els = [e for e in els if e["name"] != n] + [it]
                    break
    ops.append(["validate", "right"])
    base["ops"] = ops
    base["origin"] = "loaded"
    base["src"] = "random-history"
    return base


def built_history_plan(rng):
    """An object built step by step: HSMCertificate(), add_element ..., add_target ..., validate, validate."""
    k = rng.randrange(1, 5)
    names = rng.sample(NAMES, k)
    ops, els = [], []
    for i, n in enumerate(names):
        p = "root" if i == 0 else rng.choice(names[:i] + ["root"])
        it = {"name": n, "signed_by": p, "tweak": rng.random() < 0.5, "compressed": rng.random() < 0.4,
              "leafmsg": 0, "shape": "canon"}
        cs = [[rng.choice(["sig_flip", "msg_flip", "sig_other_key", "tweak_flip"]), {}]] if rng.random() < 0.25 else []
        ops.append(["addel", it, cs])
        els.append(it)
    for t in rng.sample(names, rng.randrange(1, k + 1)):
        ops.append(["addtarget", t])
    ops += [["validate", "right"], ["validate", rng.choice(["right", "right", "other"])], ["validate", "right"]]
    if rng.random() < 0.5:
        n = rng.choice(names)
        it = dict(next(e for e in els if e["name"] == n), tweak=rng.random() < 0.5)
        ops += [["addel", it, []], ["validate", "right"]]
    return {"seed": rng.randrange(1 << 62), "origin": "built", "targets": [], "elements": [], "corrs": [],
            "ops": ops, "src": "built-history"}


def pair_plan(rng):
    a, b = random_plan(rng), random_plan(rng)
    order = [[0, "right"], [1, "right"], [0, "right"], [1, rng.choice(["right", "other"])],
             [0, rng.choice(["right", "other"])], [1, "right"], [0, "right"]]
    return {"pair": [a, b], "order": order, "src": "two-objects", "seed": a["seed"], "targets": a["targets"],
            "elements": a["elements"], "corrs": a["corrs"]}


def trace_of(ch, obs):
    els = [{k: v for k, v in s.to_dict().items() if k != "tweak_hex"} for s in ch.sym]
    tw = {s.name: s.tweak_hex for s in ch.sym}
    return {"rootkey": ch.root_sym, "targets": list(ch.cert["targets"]), "els": els, "spell": ch.spell,
            "outcome": obs["outcome"], "res": [{k: r[k] for k in ("target", "valid", "name", "value")}
                                               for r in obs["res"]],
            "err": obs["err"], "skipped": getattr(ch, "skipped", []),
            "tweak_drift": sum(1 for r in obs["res"] if r["valid"] and r["tweak"] != tw.get(r["target"], ""))}
