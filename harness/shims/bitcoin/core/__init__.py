"""Minimal re-implementation of the python-bitcoinlib 0.12.2 surface used by comm/bitcoin.py.

Behaviour is written from the library's documented/source behaviour:
  * CMutableTransaction.deserialize: int32 version, optional segwit marker/flag (0x00 0x01),
    vin, vout, [witness], uint32 locktime; DeserializationExtraDataError on trailing bytes;
    SerializationTruncationError on short input.
  * serialize(): legacy form unless a non-null witness is present.
  * GetHash(): double SHA-256 of the non-witness serialization.
  * CScript: cooked iteration (0 -> 0, pushes -> bytes, OP_1..OP_16 -> int, other -> CScriptOp),
    raw_iter raising on truncated pushes, construction from an iterable with minimal-length
    push encoding (encode_op_pushdata), ints 0..16 -> OP_n, -1 -> OP_1NEGATE.
"""
import hashlib
import struct
from io import BytesIO

from . import script  # noqa: F401
from .script import CScript, CScriptOp  # noqa: F401


class SerializationError(Exception):
    pass


class SerializationTruncationError(SerializationError):
    pass


class DeserializationExtraDataError(SerializationError):
    def __init__(self, msg, obj, padding):
        super().__init__(msg)
        self.obj = obj
        self.padding = padding


MAX_SIZE = 0x02000000


def ser_read(f, n):
    if n > MAX_SIZE:
        raise SerializationError("Asked to read 0x%x bytes; MAX_SIZE exceeded" % n)
    r = f.read(n)
    if len(r) < n:
        raise SerializationTruncationError(
            "Asked to read %i bytes, but only got %i" % (n, len(r)))
    return r


def Hash(msg):
    return hashlib.sha256(hashlib.sha256(msg).digest()).digest()


class VarIntSerializer:
    @classmethod
    def stream_serialize(cls, i, f):
        if i < 0:
            raise ValueError("varint must be non-negative integer")
        elif i < 0xfd:
            f.write(bytes([i]))
        elif i <= 0xffff:
            f.write(b"\xfd")
            f.write(struct.pack(b"<H", i))
        elif i <= 0xffffffff:
            f.write(b"\xfe")
            f.write(struct.pack(b"<I", i))
        else:
            f.write(b"\xff")
            f.write(struct.pack(b"<Q", i))

    @classmethod
    def serialize(cls, i):
        f = BytesIO()
        cls.stream_serialize(i, f)
        return f.getvalue()

    @classmethod
    def stream_deserialize(cls, f):
        r = ser_read(f, 1)[0]
        if r < 0xfd:
            return r
        elif r == 0xfd:
            return struct.unpack(b"<H", ser_read(f, 2))[0]
        elif r == 0xfe:
            return struct.unpack(b"<I", ser_read(f, 4))[0]
        else:
            return struct.unpack(b"<Q", ser_read(f, 8))[0]

    @classmethod
    def deserialize(cls, buf):
        return cls.stream_deserialize(BytesIO(buf))


def _read_bytes(f):
    n = VarIntSerializer.stream_deserialize(f)
    return ser_read(f, n)


def _write_bytes(b, f):
    VarIntSerializer.stream_serialize(len(b), f)
    f.write(b)


class _Serializable:
    def serialize(self, params=None):
        f = BytesIO()
        self.stream_serialize(f)
        return f.getvalue()

    @classmethod
    def deserialize(cls, buf, allow_padding=False, params=None):
        fd = BytesIO(buf)
        r = cls.stream_deserialize(fd)
        if not allow_padding:
            padding = fd.read()
            if len(padding) != 0:
                raise DeserializationExtraDataError(
                    "Not all bytes consumed during deserialization", r, padding)
        return r

    def GetHash(self):
        return Hash(self.serialize())


class COutPoint(_Serializable):
    def __init__(self, hash=b"\x00" * 32, n=0xffffffff):
        if not len(hash) == 32:
            raise ValueError("COutPoint: hash must be exactly 32 bytes; got %d bytes" % len(hash))
        if not (0 <= n <= 0xffffffff):
            raise ValueError("COutPoint: n must be in range 0x0 to 0xffffffff; got %x" % n)
        self.hash = hash
        self.n = n

    @classmethod
    def stream_deserialize(cls, f):
        h = ser_read(f, 32)
        n = struct.unpack(b"<I", ser_read(f, 4))[0]
        return cls(h, n)

    def stream_serialize(self, f):
        f.write(self.hash)
        f.write(struct.pack(b"<I", self.n))


class CTxIn(_Serializable):
    def __init__(self, prevout=None, scriptSig=CScript(), nSequence=0xffffffff):
        if not (0 <= nSequence <= 0xffffffff):
            raise ValueError("CTxIn: nSequence must be an integer between 0x0 and 0xffffffff")
        self.nSequence = nSequence
        self.prevout = COutPoint() if prevout is None else prevout
        self.scriptSig = scriptSig

    @classmethod
    def stream_deserialize(cls, f):
        prevout = COutPoint.stream_deserialize(f)
        scriptSig = CScript(_read_bytes(f))
        nSequence = struct.unpack(b"<I", ser_read(f, 4))[0]
        return cls(prevout, scriptSig, nSequence)

    def stream_serialize(self, f):
        self.prevout.stream_serialize(f)
        _write_bytes(bytes(self.scriptSig), f)
        f.write(struct.pack(b"<I", self.nSequence))

    @classmethod
    def from_txin(cls, txin):
        return cls(COutPoint(txin.prevout.hash, txin.prevout.n), txin.scriptSig,
                   txin.nSequence)


class CMutableTxIn(CTxIn):
    pass


class CTxOut(_Serializable):
    def __init__(self, nValue=-1, scriptPubKey=CScript()):
        self.nValue = int(nValue)
        self.scriptPubKey = scriptPubKey

    @classmethod
    def stream_deserialize(cls, f):
        nValue = struct.unpack(b"<q", ser_read(f, 8))[0]
        scriptPubKey = CScript(_read_bytes(f))
        return cls(nValue, scriptPubKey)

    def stream_serialize(self, f):
        f.write(struct.pack(b"<q", self.nValue))
        _write_bytes(bytes(self.scriptPubKey), f)


class CMutableTxOut(CTxOut):
    pass


class CTxInWitness(_Serializable):
    def __init__(self, stack=()):
        self.stack = tuple(stack)

    def is_null(self):
        return len(self.stack) == 0

    @classmethod
    def stream_deserialize(cls, f):
        n = VarIntSerializer.stream_deserialize(f)
        return cls(tuple(_read_bytes(f) for _ in range(n)))

    def stream_serialize(self, f):
        VarIntSerializer.stream_serialize(len(self.stack), f)
        for item in self.stack:
            _write_bytes(item, f)


class CTxWitness:
    def __init__(self, vtxinwit=()):
        self.vtxinwit = tuple(vtxinwit)

    def is_null(self):
        for w in self.vtxinwit:
            if not w.is_null():
                return False
        return True

    def stream_deserialize_n(self, f, n):
        return CTxWitness(tuple(CTxInWitness.stream_deserialize(f) for _ in range(n)))

    def stream_serialize(self, f):
        for w in self.vtxinwit:
            w.stream_serialize(f)


def _read_vector(cls, f):
    n = VarIntSerializer.stream_deserialize(f)
    return [cls.stream_deserialize(f) for _ in range(n)]


def _write_vector(objs, f):
    VarIntSerializer.stream_serialize(len(objs), f)
    for o in objs:
        o.stream_serialize(f)


class CTransaction(_Serializable):
    def __init__(self, vin=(), vout=(), nLockTime=0, nVersion=1, witness=None):
        if not (0 <= nLockTime <= 0xffffffff):
            raise ValueError("CTransaction: nLockTime must be in range 0x0 to 0xffffffff")
        self.nLockTime = nLockTime
        self.nVersion = nVersion
        self.vin = list(vin)
        self.vout = list(vout)
        self.wit = CTxWitness() if witness is None else witness

    @classmethod
    def stream_deserialize(cls, f):
        nVersion = struct.unpack(b"<i", ser_read(f, 4))[0]
        pos = f.tell()
        markerbyte = struct.unpack(b"B", ser_read(f, 1))[0]
        flagbyte = struct.unpack(b"B", ser_read(f, 1))[0]
        if markerbyte == 0 and flagbyte == 1:
            vin = _read_vector(CMutableTxIn, f)
            vout = _read_vector(CMutableTxOut, f)
            wit = CTxWitness().stream_deserialize_n(f, len(vin))
            nLockTime = struct.unpack(b"<I", ser_read(f, 4))[0]
            return cls(vin, vout, nLockTime, nVersion, wit)
        else:
            f.seek(pos)
            vin = _read_vector(CMutableTxIn, f)
            vout = _read_vector(CMutableTxOut, f)
            nLockTime = struct.unpack(b"<I", ser_read(f, 4))[0]
            return cls(vin, vout, nLockTime, nVersion)

    def stream_serialize(self, f, include_witness=True):
        f.write(struct.pack(b"<i", self.nVersion))
        if include_witness and not self.wit.is_null():
            assert len(self.wit.vtxinwit) == len(self.vin)
            f.write(b"\x00")
            f.write(b"\x01")
            _write_vector(self.vin, f)
            _write_vector(self.vout, f)
            self.wit.stream_serialize(f)
        else:
            _write_vector(self.vin, f)
            _write_vector(self.vout, f)
        f.write(struct.pack(b"<I", self.nLockTime))

    def GetTxid(self):
        f = BytesIO()
        self.stream_serialize(f, include_witness=False)
        return Hash(f.getvalue())

    def GetHash(self):
        # python-bitcoinlib 0.12: GetHash() of a transaction == GetTxid() when there is no
        # witness; with a witness it is the wtxid.
        return Hash(self.serialize())


class CMutableTransaction(CTransaction):
    pass


class CBlockHeader(_Serializable):
    def __init__(self, nVersion=2, hashPrevBlock=b"\x00" * 32, hashMerkleRoot=b"\x00" * 32,
                 nTime=0, nBits=0, nNonce=0):
        self.nVersion = nVersion
        self.hashPrevBlock = hashPrevBlock
        self.hashMerkleRoot = hashMerkleRoot
        self.nTime = nTime
        self.nBits = nBits
        self.nNonce = nNonce

    @classmethod
    def stream_deserialize(cls, f):
        nVersion = struct.unpack(b"<i", ser_read(f, 4))[0]
        hashPrevBlock = ser_read(f, 32)
        hashMerkleRoot = ser_read(f, 32)
        nTime = struct.unpack(b"<I", ser_read(f, 4))[0]
        nBits = struct.unpack(b"<I", ser_read(f, 4))[0]
        nNonce = struct.unpack(b"<I", ser_read(f, 4))[0]
        return cls(nVersion, hashPrevBlock, hashMerkleRoot, nTime, nBits, nNonce)

    def stream_serialize(self, f):
        f.write(struct.pack(b"<i", self.nVersion))
        f.write(self.hashPrevBlock)
        f.write(self.hashMerkleRoot)
        f.write(struct.pack(b"<I", self.nTime))
        f.write(struct.pack(b"<I", self.nBits))
        f.write(struct.pack(b"<I", self.nNonce))
