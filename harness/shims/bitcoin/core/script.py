"""CScript / CScriptOp stand-in (python-bitcoinlib 0.12.2 semantics, see core/__init__.py)."""
import struct

SIGHASH_ALL = 1
SIGVERSION_BASE = 0
SIGVERSION_WITNESS_V0 = 1

OP_0 = 0x00
OP_PUSHDATA1 = 0x4c
OP_PUSHDATA2 = 0x4d
OP_PUSHDATA4 = 0x4e
OP_1NEGATE = 0x4f
OP_1 = 0x51
OP_16 = 0x60


class CScriptInvalidError(Exception):
    pass


class CScriptTruncatedPushDataError(CScriptInvalidError):
    def __init__(self, msg, data):
        self.data = data
        super().__init__(msg)


class CScriptOp(int):
    __slots__ = ()

    @staticmethod
    def encode_op_pushdata(d):
        if len(d) < 0x4c:
            return bytes([len(d)]) + d
        elif len(d) <= 0xff:
            return b"\x4c" + bytes([len(d)]) + d
        elif len(d) <= 0xffff:
            return b"\x4d" + struct.pack(b"<H", len(d)) + d
        elif len(d) <= 0xffffffff:
            return b"\x4e" + struct.pack(b"<I", len(d)) + d
        else:
            raise ValueError("Data too long to encode in a PUSHDATA op")

    @staticmethod
    def encode_op_n(n):
        if not (0 <= n <= 16):
            raise ValueError("Integer must be in range 0 <= n <= 16, got %d" % n)
        if n == 0:
            return CScriptOp(OP_0)
        return CScriptOp(OP_1 + n - 1)

    def decode_op_n(self):
        if self == OP_0:
            return 0
        if not (self == OP_0 or OP_1 <= self <= OP_16):
            raise ValueError("op %r is not an OP_N" % self)
        return int(self - OP_1 + 1)

    def is_small_int(self):
        return (0x51 <= self <= 0x60) or self == 0

    def __repr__(self):
        return "CScriptOp(0x%x)" % int(self)


def _bn2vch(v):
    # bitcoin.core._bignum.bn2vch
    if v == 0:
        return b""
    neg = v < 0
    a = abs(v)
    out = bytearray()
    while a:
        out.append(a & 0xff)
        a >>= 8
    if out[-1] & 0x80:
        out.append(0x80 if neg else 0x00)
    elif neg:
        out[-1] |= 0x80
    return bytes(out)


class CScript(bytes):
    @classmethod
    def __coerce_instance(cls, other):
        if isinstance(other, CScriptOp):
            other = bytes([other])
        elif isinstance(other, bool):
            raise TypeError("Can not coerce bool into CScript")
        elif isinstance(other, int):
            if 0 <= other <= 16:
                other = bytes([CScriptOp.encode_op_n(other)])
            elif other == -1:
                other = bytes([OP_1NEGATE])
            else:
                other = CScriptOp.encode_op_pushdata(_bn2vch(other))
        elif isinstance(other, (bytes, bytearray)):
            other = CScriptOp.encode_op_pushdata(bytes(other))
        return other

    def __new__(cls, value=b""):
        if isinstance(value, (bytes, bytearray)):
            return super().__new__(cls, value)

        def coerce_iterable(iterable):
            for instance in iterable:
                yield cls.__coerce_instance(instance)
        return super().__new__(cls, b"".join(coerce_iterable(value)))

    def raw_iter(self):
        i = 0
        while i < len(self):
            sop_idx = i
            opcode = self[i]
            i += 1
            if opcode > OP_PUSHDATA4:
                yield (opcode, None, sop_idx)
            else:
                datasize = None
                pushdata_type = None
                if opcode < OP_PUSHDATA1:
                    pushdata_type = "PUSHDATA(%d)" % opcode
                    datasize = opcode
                elif opcode == OP_PUSHDATA1:
                    pushdata_type = "PUSHDATA1"
                    if i >= len(self):
                        raise CScriptInvalidError("PUSHDATA1: missing data length")
                    datasize = self[i]
                    i += 1
                elif opcode == OP_PUSHDATA2:
                    pushdata_type = "PUSHDATA2"
                    if i + 1 >= len(self):
                        raise CScriptInvalidError("PUSHDATA2: missing data length")
                    datasize = self[i] + (self[i + 1] << 8)
                    i += 2
                elif opcode == OP_PUSHDATA4:
                    pushdata_type = "PUSHDATA4"
                    if i + 3 >= len(self):
                        raise CScriptInvalidError("PUSHDATA4: missing data length")
                    datasize = (self[i] + (self[i + 1] << 8) + (self[i + 2] << 16)
                                + (self[i + 3] << 24))
                    i += 4
                data = bytes(self[i:i + datasize])
                if len(data) != datasize:
                    raise CScriptTruncatedPushDataError("%s: truncated data" % pushdata_type,
                                                        data)
                i += datasize
                yield (opcode, data, sop_idx)

    def __iter__(self):
        for (opcode, data, sop_idx) in self.raw_iter():
            if opcode == 0:
                yield 0
            elif data is not None:
                yield data
            else:
                opcode = CScriptOp(opcode)
                if opcode.is_small_int():
                    yield opcode.decode_op_n()
                else:
                    yield CScriptOp(opcode)


def SignatureHash(*args, **kwargs):
    raise NotImplementedError("SignatureHash is not provided by the verification stand-in")
