# Stand-in for python-bitcoinlib 0.12.2 (not installed / not in the wheelhouse).
# Only the surface used by middleware/comm/bitcoin.py is provided. Part of the trusted base of
# every check that loads the ledger layer (see DESIGN.md 3.4).
