"""Drive the real admin commands (`do_onboard`, `do_unlock`, `do_changepin`, `do_get_pubkeys`) against
a simulated device and a scripted operator, and project everything that happened (device exchanges
with the device's ground truth, operator lines, randomness draws) into the event alphabet of
spec/AdminProps.tla.  Nothing here decides a property: classes come from the generator's structure
or from decoding bytes; verdicts come from TLC (TraceAdmin)."""
import io
import json
import os
import string
import sys as _sys
from types import SimpleNamespace

from . import env
from .simdev import MODE_BOOT, MODE_SIGNER, MODE_UIHB, path_bytes
from .simdev_admin import AdminSimDevice, compress
from .transport import World, install

MODE_BYTES = {"boot": MODE_BOOT, "signer": MODE_SIGNER, "uihb": MODE_UIHB, "unknown": 0xFF}
MODE_NAMES = {v: k for k, v in MODE_BYTES.items()}
OTHER_MODE_BYTES = (0x00, 0x01, 0x05, 0x07, 0x42, 0xFE)
MODES = ("boot", "signer", "uihb", "unknown", "other")

# docs/protocol.md, "key ids" (the six documented paths)
DOC_PATHS = ("m/44'/0'/0'/0/0", "m/44'/137'/0'/0/0", "m/44'/137'/1'/0/0",
             "m/44'/1'/0'/0/0", "m/44'/1'/1'/0/0", "m/44'/1'/2'/0/0")

YES = ("yes", "Yes", "YES", "yEs", "yes ")
NO = ("no", "No", "NO", "n", "N")
OTHER = ("", "maybe", "ok", "proceed", "0", "what?", "si", "ja")

LETTERS = string.ascii_letters
DIGITS = string.digits
ALNUM = LETTERS + DIGITS
PUNCT = "!@#$%^&*()-_=+[]{};:,.<>/?|~ "
UNICODE = "éñüΩЖ中ß\U0001F511"


def mode_name(b):
    return MODE_NAMES.get(b, "other")


def decode_path(b):
    """Independent decoder of a BIP32 path as the device receives it (count byte + LE uint32s)."""
    b = bytes(b)
    if len(b) < 1 or len(b) != 1 + 4 * b[0]:
        return "?"
    out = []
    for k in range(b[0]):
        v = int.from_bytes(b[1 + 4 * k:5 + 4 * k], "little")
        out.append("%d'" % (v - 0x80000000) if v >= 0x80000000 else "%d" % v)
    return "m/" + "/".join(out)


# ---------------------------------------------------------------------- PIN classes (concretisation)
def pin_of_class(cls, rng, boundary=False):
    """A member of an operator PIN class. `valid`: 8 alphanumerics with a letter; `short`: wrong
    length (alphanumeric, with a letter); `digits`: 8 digits; `nonalnum`: 8 characters, one of them
    outside [A-Za-z0-9]."""
    if cls == "valid":
        if boundary:
            return rng.choice(["a1234567", "1234567z", "ABCDEFGH", "abcd1234", "0000000Z", "zzzzzzzz"])
        while True:
            p = "".join(rng.choice(ALNUM) for _ in range(8))
            if any(c in LETTERS for c in p):
                return p
    if cls == "short":
        n = rng.choice([7, 7, 6, 4, 1]) if not boundary else 7
        p = "".join(rng.choice(ALNUM) for _ in range(n - 1))
        return p + rng.choice(LETTERS)
    if cls == "digits":
        return "".join(rng.choice(DIGITS) for _ in range(8))
    if cls == "nonalnum":
        p = [rng.choice(ALNUM) for _ in range(8)]
        p[rng.randrange(8)] = rng.choice(PUNCT + UNICODE)
        p[rng.randrange(8)] = rng.choice(LETTERS + PUNCT)
        if all(c in ALNUM for c in p):
            p[0] = "!"
        return "".join(p)
    raise ValueError(cls)


def random_pin(rng):
    """Binding B: PIN strings around the policy boundary (7/8/9 characters, all digits, punctuation,
    unicode)."""
    kind = rng.randrange(10)
    n = rng.choice([7, 8, 8, 8, 9])
    if kind <= 2:
        p = "".join(rng.choice(ALNUM) for _ in range(n))
    elif kind == 3:
        p = "".join(rng.choice(DIGITS) for _ in range(n))
    elif kind == 4:
        p = "".join(rng.choice(LETTERS) for _ in range(n))
    elif kind == 5:
        p = "".join(rng.choice(DIGITS) for _ in range(n - 1)) + rng.choice(LETTERS)
    elif kind == 6:
        p = list("".join(rng.choice(ALNUM) for _ in range(n)))
        p[rng.randrange(n)] = rng.choice(PUNCT)
        p = "".join(p)
    elif kind == 7:
        p = list("".join(rng.choice(ALNUM) for _ in range(n)))
        p[rng.randrange(n)] = rng.choice(UNICODE)
        p = "".join(p)
    elif kind == 8:
        p = "".join(rng.choice(ALNUM) for _ in range(rng.choice([1, 2, 3, 10, 12])))
    else:
        p = "".join(rng.choice(ALNUM + PUNCT) for _ in range(n))
    return p


# ---------------------------------------------------------------------- scripted operator + patches
class _Proxy:
    """Stands in for a module object (`sys`, `os`) inside one repo module: the overridden names are
    ours, everything else is the real module's."""

    def __init__(self, real, **over):
        self.__dict__["_real"] = real
        self.__dict__.update(over)

    def __getattr__(self, k):
        return getattr(self.__dict__["_real"], k)


class Operator:
    """stdin lines and getpass answers handed out from a script; each hand-out is an event in the
    world's log (interleaved with the device exchanges, carrying the device's ground truth)."""

    def __init__(self, world, lines, pins, recall=None):
        self.world = world
        self.lines = list(lines)        # [(text, class)]
        self.pins = list(pins)          # [str]
        self.recall = recall            # callable -> str | None : "the PIN I have just set"
        self.typed = []

    def _emit(self, ev):
        ev["truth"] = self.world.device.snapshot()
        self.world.emit(ev)

    # sys.stdin stand-in
    def readline(self):
        if not self.lines:
            # a real terminal would block / return "" for ever; the script ends the run instead
            self._emit({"ev": "stdin", "cls": "eof", "line": None})
            raise EOFError("operator script exhausted (stdin)")
        text, cls = self.lines.pop(0)
        self._emit({"ev": "stdin", "cls": cls, "line": text})
        return text + "\n"

    def getpass(self, prompt="", stream=None):
        r = self.recall() if self.recall is not None else None
        if r is None:
            if not self.pins:
                self._emit({"ev": "getpass", "ok": "f", "pin": None})
                raise EOFError("operator script exhausted (getpass)")
            r = self.pins.pop(0)
        self.typed.append(r)
        self._emit({"ev": "getpass", "ok": "na", "pin": r})
        return r


class Randomness:
    """`os.urandom` as admin/onboard.py sees it: records every draw, delegates to the real one."""

    def __init__(self, world, real=os.urandom):
        self.world = world
        self.real = real
        self.draws = []

    def urandom(self, n):
        b = self.real(n)
        self.draws.append(bytes(b))
        self.world.emit({"ev": "urandom", "n": n, "bytes": bytes(b),
                         "truth": self.world.device.snapshot()})
        return b


class Patched:
    """Context manager: installs the world (transport) and the operator / randomness stand-ins in the
    names the admin modules use; restores them on exit."""

    def __init__(self, world, operator, rnd):
        self.world, self.operator, self.rnd = world, operator, rnd
        self.out = io.StringIO()
        self.saved = []

    def _set(self, mod, name, val):
        self.saved.append((mod, name, getattr(mod, name)))
        setattr(mod, name, val)

    def __enter__(self):
        install(self.world)
        import admin.misc as am
        import admin.onboard as ao
        self._set(am, "sys", _Proxy(_sys, stdout=self.out, stdin=self.operator))
        self._set(am, "getpass", self.operator.getpass)
        self._set(ao, "sys", _Proxy(_sys, stdin=self.operator, stdout=self.out))
        self._set(ao, "os", _Proxy(os, urandom=self.rnd.urandom))
        return self

    def __exit__(self, *a):
        for mod, name, val in reversed(self.saved):
            setattr(mod, name, val)
        return False


# ---------------------------------------------------------------------- scenario
class Scenario:
    def __init__(self, **kw):
        self.__dict__.update(kw)


def _pick(v, dom, rng):
    return v if v not in ("?", None) else rng.choice(dom)


def scenario_from_model(cfg, e, rng, boundary=False):
    """Concretise one behaviour of GenAdmin (cfg + lazily chosen env). Dimensions the behaviour never
    looked at ("?") get seeded random members of their domain."""
    first = pin_of_class(cfg["pinc"], rng, boundary)
    pins = [first]
    if cfg["src"] == "prompt" and e["retry"] == "valid":
        pins.append(pin_of_class("valid", rng))
    answers = _pick(e["answers"], ["yes", "no", "oy", "on"], rng)
    onb = e["onb"]
    if onb == "?":
        # never asked: a device able to give the answers the behaviour goes on to record
        onb = "yes" if (cfg["no_unlock"] and (e["newpin"] == "t" or e["keys"] == "t")) \
            else rng.choice(["yes", "no"])
    return build(
        op=cfg["op"], plat=cfg["plat"], any_pin=cfg["any_pin"], no_unlock=cfg["no_unlock"],
        src=cfg["src"], pins=pins, outfile=cfg["outfile"],
        mode=_pick(e["mode"], MODES, rng), onb=onb,
        echo=_pick(e["echo"], ["t", "f"], rng), answers=answers,
        wipe=_pick(e["wipe"], ["t"], rng), unlock=_pick(e["unlock"], ["t", "f"], rng),
        newpin=_pick(e["newpin"], ["t", "f"], rng), mode2=_pick(e["mode2"], MODES, rng),
        keys=_pick(e["keys"], ["t", "f"], rng), keys_fail_at=0, rng=rng)


def build(op, plat, any_pin, no_unlock, src, pins, outfile, mode, onb, echo, answers, wipe, unlock,
          newpin, mode2, keys, rng, keys_fail_at=None, upin=None, strict=False, no_exec=False,
          devseed=None, cli=False):
    """The concrete environment of one run (all fields are plain data: the replay file is this)."""
    desc = dict(op=op, plat=plat, any_pin=bool(any_pin), no_unlock=bool(no_unlock), src=src,
                pins=list(pins), outfile=bool(outfile), mode=mode, onb=onb, echo=echo, answers=answers,
                wipe=wipe, unlock=unlock, newpin=newpin, mode2=mode2, keys=keys,
                keys_fail_at=(rng.randrange(6) if keys_fail_at is None else keys_fail_at),
                upin=upin or pin_of_class("valid", rng), strict=bool(strict), no_exec=bool(no_exec),
                devseed=devseed if devseed is not None else rng.randrange(1 << 30),
                mode_byte=(MODE_BYTES[mode] if mode != "other" else rng.choice(OTHER_MODE_BYTES)),
                mode2_byte=(MODE_BYTES[mode2] if mode2 != "other" else rng.choice(OTHER_MODE_BYTES)),
                wipe_how=rng.choice(["refuse", "err", "bad"]), newpin_how=rng.choice(["refuse", "err"]),
                yes=rng.choice(YES), no=rng.choice(NO), other=rng.choice(OTHER),
                verbose=rng.random() < 0.3, cli=bool(cli))
    return Scenario(desc=desc)


def make_device(d):
    dev = AdminSimDevice(platform=d["plat"], mode=d["mode_byte"], seed=d["devseed"])
    dev.onboarded = d["onb"] == "yes"
    dev.echo_ok = d["echo"] == "t"
    # SGX reports bootloader mode while locked; a device that is going to acknowledge a password
    # change without an unlock must already be unlocked
    dev.unlocked = d["plat"] == "sgx" and dev.onboarded and (
        d["mode"] != "boot" or (d["no_unlock"] and d["op"] == "changepin" and d["newpin"] == "t"))
    dev.strict_policy = d["strict"]
    dev.wipe_answer = "ok" if d["wipe"] == "t" else d["wipe_how"]
    if d["op"] != "onboard":
        # the device holds the PIN the operator is going to supply ("t") or some other PIN ("f");
        # it compares what it is sent, so a PIN mangled on its way is refused
        enc = [p.encode("utf-8", "surrogateescape") for p in d["pins"]] + [d["upin"].encode()]
        dev.accept_pins = set(enc) if d["unlock"] == "t" else set()
    dev.newpin_answer = "ack" if d["newpin"] == "t" else d["newpin_how"]
    if d["plat"] == "ledger":
        dev.exit_modes = [d["mode2_byte"]] if d["op"] == "pubkeys" else []
    dev.post_unlock_mode = MODE_SIGNER
    dev.pubkey_fail = None if d["keys"] == "t" else d["keys_fail_at"]
    return dev


def acceptance(d):
    """Ground truth of how the device was set up to answer a well-formed WIPE / UNLOCK / CHANGE_PIN
    carrying the operator's PIN. A production-build device (`strict`) applies its own PIN policy
    on top: not known here ("?")."""
    return {"wipe": "?" if (d["strict"] and d["wipe"] == "t") else d["wipe"],
            "unlock": d["unlock"],
            "newpin": "?" if (d["strict"] and d["newpin"] == "t" and d["plat"] == "ledger")
            else d["newpin"]}


def answer_lines(d):
    seq = {"yes": ["yes"], "no": ["no"], "oy": ["other", "yes"], "on": ["other", "no"]}[d["answers"]]
    return [(d[c], c) for c in seq]


# ---------------------------------------------------------------------- run + project
def run(sc, scratch, tag, prev_seed=None):
    """Run the command of scenario `sc` on the real code. Returns the trace record for TraceAdmin plus
    diagnostics (keys not read by the spec)."""
    env.setup()
    from comm.platform import Platform
    d = sc.desc
    dev = make_device(d)
    world = World(dev, "hid" if d["plat"] == "ledger" else "tcp")
    if d["plat"] == "ledger":
        Platform.set(Platform.LEDGER)
    else:
        Platform.set(Platform.SGX, {"sgx_host": "127.0.0.1", "sgx_port": 7777})
    d0 = {"mode": mode_name(dev.mode), "onb": "yes" if dev.onboarded else "no",
          "echo": "t" if dev.echo_ok else "f"}
    lines = answer_lines(d) + [("", "other")] if d["op"] == "onboard" else []
    prompt_pins = list(d["pins"]) if d["src"] == "prompt" else []

    def recall():
        # after a successful onboarding the operator types the PIN (s)he has just set
        if d["op"] == "onboard" and dev.received_seed is not None:
            return dev.pin.decode("utf-8", "surrogateescape")
        return None
    operator = Operator(world, lines, prompt_pins, recall)
    rnd = Randomness(world)
    out_path = None
    if d["outfile"]:
        out_path = os.path.join(scratch, "%s_%s.%s" % (d["op"], tag,
                                                       "json" if d["op"] == "onboard" else "txt"))
        for p in (out_path, os.path.splitext(out_path)[0] + ".json"):
            if os.path.exists(p):
                os.unlink(p)
    opt_pin = d["pins"][0] if d["src"] == "opt" else None
    options = SimpleNamespace(verbose=d["verbose"], any_pin=d["any_pin"], no_exec=d["no_exec"],
                              no_unlock=d["no_unlock"], output_file_path=out_path, pin=None,
                              new_pin=None)
    if d["op"] == "changepin":
        options.pin = d["upin"]
        options.new_pin = opt_pin
    else:
        options.pin = opt_pin
    exc = None
    with Patched(world, operator, rnd) as patched:
        from admin.onboard import do_onboard
        from admin.unlock import do_unlock
        from admin.changepin import do_changepin
        from admin.pubkeys import do_get_pubkeys
        fn = {"onboard": do_onboard, "unlock": do_unlock, "changepin": do_changepin,
              "pubkeys": do_get_pubkeys}[d["op"]]
        try:
            if d.get("cli"):
                outcome, exc = run_cli(d, options)
            else:
                fn(options)
                outcome = "ok"
        except BaseException as e:   # noqa: AdminError, HSM2DongleError, ValueError, EOFError, SystemExit
            outcome = "err"
            exc = "%s: %s" % (type(e).__name__, str(e)[:120])
    evs = project(world)
    files, notes = read_files(d, out_path)
    expect = [{"path": p, "c": compress(dev.keys[path_bytes(p)]).hex(),
               "u": dev.keys[path_bytes(p)].hex()} for p in DOC_PATHS]
    trace = {
        "op": d["op"], "plat": d["plat"], "any_pin": d["any_pin"], "no_unlock": d["no_unlock"],
        "src": d["src"], "pins": [list(p.encode("utf-8", "surrogateescape")) for p in d["pins"]],
        "upin": list(d["upin"].encode()), "outfile": d["outfile"],
        "answers": [c for (_, c) in answer_lines(d)], "d0": d0, "acc": acceptance(d),
        "prev_seed": list(prev_seed) if prev_seed else [],
        "ev": evs, "outcome": outcome, "files": files, "expect": expect,
    }
    diag = {"exc": exc, "desc": d, "classes": [e["cls"] for e in evs],
            "seed_received": dev.received_seed, "draws": rnd.draws, "stdout": patched.out.getvalue(),
            "final": {"mode": mode_name(dev.mode), "onb": dev.onboarded, "pin": bytes(dev.pin)},
            "notes": notes, "cert": out_path if d["op"] == "onboard" else None}
    return trace, diag


def run_cli(d, options):
    """The same run through the command-line front end (adm_ledger.main / adm_sgx.main): the options
    object is built by the tool's own argument parser from an argv we derive from the scenario."""
    import adm_ledger
    import adm_sgx
    argv = ["adm_%s.py" % d["plat"], d["op"]]
    if options.pin is not None:
        argv.append("--pin=%s" % options.pin)
    if options.new_pin is not None:
        argv.append("--newpin=%s" % options.new_pin)
    if options.any_pin:
        argv.append("--anypin")
    if options.output_file_path is not None:
        argv.append("--output=%s" % options.output_file_path)
    if options.no_unlock:
        argv.append("--nounlock")
    if options.no_exec and d["plat"] == "ledger":
        argv.append("--noexec")
    if options.verbose:
        argv.append("--verbose")
    saved, _sys.argv = _sys.argv, argv
    err = io.StringIO()
    saved_err, _sys.stderr = _sys.stderr, err
    try:
        (adm_ledger if d["plat"] == "ledger" else adm_sgx).main()
        return "ok", None
    except SystemExit as e:
        if e.code in (0, None):
            return "ok", None
        return "err", "exit code %s %s" % (e.code, err.getvalue().strip()[-80:])
    finally:
        _sys.argv = saved
        _sys.stderr = saved_err


def _ev(cls, truth, ans="na", ok="na", i=0, b=0, data=()):
    return {"cls": cls, "d_mode": mode_name(truth["mode"]), "d_onb": "yes" if truth["onb"] else "no",
            "ans": ans, "ok": ok, "i": i, "b": b, "data": list(data)}


def project(world):
    """world.log -> events of AdminProps."""
    evs = []
    for e in world.log:
        kind = e["ev"]
        if kind in ("open", "close"):
            continue
        t = e["truth"]
        if kind == "stdin":
            evs.append(_ev("stdin", t, ans=e["cls"]))
            continue
        if kind == "getpass":
            evs.append(_ev("getpass", t, ok=e["ok"]))
            continue
        if kind == "urandom":
            evs.append(_ev("urandom", t, data=e["bytes"]))
            continue
        apdu = e["apdu"]
        sw, resp = e.get("sw"), e.get("resp")
        good = sw == 0x9000
        okf = "t" if good else "f"
        if e.get("fault") == "drop":
            okf = "na"
        cla = apdu[0] if len(apdu) > 0 else -1
        cmd = apdu[1] if len(apdu) > 1 else -1
        mode = mode_name(t["mode"])
        if cla == 0xE0:
            evs.append(_ev("admin", t, ok=okf))
        elif cla != 0x80:
            evs.append(_ev("other", t, ok=okf))
        elif cmd == 0x43:
            evs.append(_ev("get_mode", t, ans=(mode_name(resp[1]) if good and len(resp) > 1 else "na"),
                           ok=okf))
        elif cmd == 0x06:
            evs.append(_ev("is_onboard", t, ans=(("yes" if resp[1] == 1 else "no")
                                                 if good and len(resp) > 1 else "na"), ok=okf))
        elif cmd == 0xA4 or (cmd == 0x02 and mode == "boot"):
            evs.append(_ev("echo", t, ok="t" if (good and bytes(resp) == bytes(apdu)) else "f"))
        elif cmd == 0x44:
            evs.append(_ev("seed_byte", t, ok=okf, i=apdu[2] if len(apdu) > 2 else 255,
                           b=apdu[3] if len(apdu) > 3 else 0))
        elif cmd == 0x41:
            evs.append(_ev("pin_byte", t, ok=okf, i=apdu[2] if len(apdu) > 2 else 255,
                           b=apdu[3] if len(apdu) > 3 else 0))
        elif cmd == 0x07:
            evs.append(_ev("wipe", t, ok="t" if (good and len(resp) > 1 and resp[1] == 2) else "f"))
        elif cmd == 0xA0:
            evs.append(_ev("sgx_onboard", t, data=apdu[2:],
                           ok="t" if (good and len(resp) > 2 and resp[2] == 1) else "f"))
        elif cmd in (0xFE, 0xA3):
            evs.append(_ev("unlock", t, data=apdu[2:] if cmd == 0xA3 else (),
                           ok="t" if (good and len(resp) > 2 and resp[2] != 0) else "f"))
        elif cmd == 0x08:
            evs.append(_ev("change_pin", t, ok=okf))
        elif cmd == 0xA5:
            evs.append(_ev("change_pin", t, data=apdu[2:],
                           ok="t" if (good and len(resp) > 2 and resp[2] == 1) else "f"))
        elif cmd in (0xFF, 0xFA):
            evs.append(_ev("exit", t, ok="na" if e.get("fault") == "drop" else okf))
        elif cmd == 0x04:
            evs.append(_ev("get_pubkey", t, ans=decode_path(apdu[2:]), ok=okf))
        else:
            evs.append(_ev("cmd%02x" % cmd, t, ok=okf))
    return evs


def read_files(d, out_path):
    """Read back what do_get_pubkeys wrote: rows <<path, key>> of the text table and of the JSON."""
    files = {"txt": [], "json": []}
    notes = []
    if d["op"] != "pubkeys" or out_path is None:
        return files, notes
    try:
        with open(out_path) as f:
            for line in f.read().splitlines():
                tok = line.split()
                if len(tok) == 3 and tok[1].startswith("m/"):
                    files["txt"].append([tok[1], tok[2]])
    except OSError as e:
        notes.append("text file: %s" % e)
    jp = os.path.splitext(out_path)[0] + ".json"
    try:
        with open(jp) as f:
            obj = json.load(f)
        if isinstance(obj, dict):
            files["json"] = [[str(k), v if isinstance(v, str) else json.dumps(v)] for k, v in obj.items()]
        else:
            notes.append("json file is not an object")
    except (OSError, ValueError) as e:
        notes.append("json file: %s" % e)
    return files, notes


def stdout_rows(text):
    return [[t[1], t[2]] for t in (ln.split() for ln in text.splitlines())
            if len(t) == 3 and t[1].startswith("m/")]
