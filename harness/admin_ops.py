"""Drive the real admin commands (`do_onboard`, `do_unlock`, `do_changepin`, `do_get_pubkeys`) against
a simulated device and a scripted operator, and project everything that happened (device exchanges
with the device's ground truth, operator lines, randomness draws) into the event alphabet of
spec/AdminProps.tla.  Nothing here decides a property: classes come from the generator's structure
or from decoding bytes; verdicts come from TLC (TraceAdmin)."""
import io
import json
import os
import shutil
import string
import sys as _sys
from types import SimpleNamespace

from . import env
from .simdev import MODE_BOOT, MODE_SIGNER, MODE_UIHB, path_bytes
from .simdev_admin import (AdminSimDevice, compress, ECHO_SHAPES, ONB_SHAPES, WIPE_SHAPES,
                           UNLOCK_FAIL_SHAPES, UNLOCK_TRUE_BYTES, NEWPIN_SHAPES)
from .transport import World, install

MODE_BYTES = {"boot": MODE_BOOT, "signer": MODE_SIGNER, "uihb": MODE_UIHB, "unknown": 0xFF}
MODE_NAMES = {v: k for k, v in MODE_BYTES.items()}
OTHER_MODE_BYTES = (0x00, 0x01, 0x05, 0x07, 0x42, 0xFE)
MODES = ("boot", "signer", "uihb", "unknown", "other")

# docs/protocol.md, "key ids" (the six documented paths)
DOC_PATHS = ("m/44'/0'/0'/0/0", "m/44'/137'/0'/0/0", "m/44'/137'/1'/0/0",
             "m/44'/1'/0'/0/0", "m/44'/1'/1'/0/0", "m/44'/1'/2'/0/0")

YES = ("yes", "Yes", "YES", "yEs", "yes ")
NO = ("no", "No", "NO", "n", "N")
# not an explicit yes: blank, near misses of "yes" (prefixes, suffixes, extensions), other words
OTHER = ("", " ", "y", "Y", "ye", "es", "s", "yess", "yeah", "yes!", "maybe", "ok", "proceed", "0", "1",
         "what?", "si", "ja", "true")

LETTERS = string.ascii_letters
DIGITS = string.digits
ALNUM = LETTERS + DIGITS
PUNCT = "!@#$%^&*()-_=+[]{};:,.<>/?|~ "
UNICODE = "éñüΩЖ中ß\U0001F511"


def mode_name(b):
    return MODE_NAMES.get(b, "other")


def decode_path(b):
    """Independent decoder of a BIP32 path as the device receives it (count byte + LE uint32s)."""
    b = bytes(b)
    if len(b) < 1 or len(b) != 1 + 4 * b[0]:
        return "?"
    out = []
    for k in range(b[0]):
        v = int.from_bytes(b[1 + 4 * k:5 + 4 * k], "little")
        out.append("%d'" % (v - 0x80000000) if v >= 0x80000000 else "%d" % v)
    return "m/" + "/".join(out)


# ---------------------------------------------------------------------- PIN classes (concretisation)
# boundary characters: the ASCII neighbours of the three alphanumeric ranges, blanks, controls
ASCII_EDGE = "!/:@[`{~-_. \x00\n\t\x7f"


def _ascii_members():
    out = ["abc%s1234" % c for c in ASCII_EDGE]                        # inside
    out += ["%sbcd1234" % c for c in "! \x00\n-"]                      # at the start
    out += ["abcd123%s" % c for c in "! \x00\n."]                      # at the end
    return out


# what a terminal, a pipe or an editor adds around the text the operator meant
NOISE_AFTER = ("\r", "\n", "\r\n", "\n\r", "\r\r\n", " ", "  ", "\t", "\x00", "\x04", "\x08", "\x7f", "\x1b",
               "\x1b[A", "\x0b", "\x0c", "\x85", "\u2028", "\u00a0", "\u200b", "\ufeff")
NOISE_BEFORE = (" ", "\t", "\r", "\n", "\x00", "\ufeff", "\u200b", "\u200e", "\u2060", "\x1b[200~", "\x08")


def _noise_members():
    out = ["abcd1234" + n for n in NOISE_AFTER]                         # compliant + trailing noise
    out += [n + "abcd1234" for n in NOISE_BEFORE]                       # leading noise + compliant
    out += [" abcd1234 ", "\ufeffabcd1234\r\n", "\tabcd1234\n", "ABCDEFGH\r", "a1234567\n", "1234567z\r\n"]
    # the same around PINs that are not compliant anyway (one of them: 7 characters + CR = 8 bytes)
    out += ["abc1234\r", "abc1234\r\n", "12345678\r", "12345678\n", "abcd12345\r", " abc1234", "1234567\t",
            "abc!1234\r", "Z\u00fcrich1\n", "\ufeff12345678"]
    return out


# Members of every PIN content class of spec/Admin.tla, boundary-first. Every member is run in the
# PIN-decisive (single-deviation) behaviours; elsewhere one seeded member is drawn.
PIN_MEMBERS = {
    # compliant: mixed, upper only, lower only, a single letter first / last, extremes of the ranges
    "ok": ["abcd1234", "a1234567", "1234567z", "ABCDEFGH", "abcdefgh", "ABCD1234", "0000000Z",
           "zzzzzzzz", "aB3dE6gH", "A0000000", "9999999a"],
    "digits": ["12345678", "00000000", "99999999"],
    "len7": ["abc1234", "a123456", "ABCDEFG", "abcdefg", "123456z", "1234567", "a"],
    "len9": ["abcd12345", "a12345678", "ABCDEFGHI", "abcdefghi", "12345678z", "123456789"],
    "ascii": _ascii_members(),
    "noise": _noise_members(),
    # non-ASCII text whose UTF-8 encoding is exactly 8 bytes: Latin-1 letters and signs (2 bytes),
    # Greek / Cyrillic / Arabic-Indic and extended Arabic-Indic digits (2), fullwidth forms and CJK
    # (3), emoji and mathematical digits (4), NBSP
    "hi8": ["Z\u00fcrich1", "p\u00eache12", "1234\u00fa67", "abcdef\u00e9", "\u00f1andu12",
            "ab\u00fe1234", "\u00b5abc123", "\u00aa\u00ba\u00b2\u00b3", "\u00bdabc123", "\u00ffabc123",
            "\u00d7abc123", "\u00e9\u00e9\u00e9\u00e9", "\u00fc\u00fc\u00fc\u00fc", "\u00c0bcdef1",
            "abc\u00a0123", "\u03a9mega12", "\u0416abc123", "\u0660\u0661\u0662\u0663",
            "\u0661\u0662\u0663a1", "\u06f2\u06f3\u06f5\u06f9", "\uff11\uff12ab", "\uff21\uff11cd",
            "\uff41b12345", "\u4e2dab123", "\U0001f511ab12", "\U0001d7cf\U0001d7d0", "\u00dfabc123",
            "a\u00f2\u00f3\u00f51", "1\u00f9\u00fd\u00fa2", "\u00bc\u00be\u00b9\u00b5"],
    # 8 characters, more than 8 bytes
    "hiwide": ["abcdefg\u00e9", "Z\u00fcrich12", "p\u00eache123", "\uff11\uff12\uff13\uff14\uff15\uff16\uff17\uff18",
               "\u0660\u0661\u0662\u0663\u0664\u0665\u0666\u0667", "\u00c0\u00c9\u00ce\u00d5\u00dcabc",
               "abcd123\U0001f511", "\u00ea\u00ea\u00ea\u00ea\u00ea\u00ea\u00ea\u00ea", "\uff21bcd1234"],
}

# characters by UTF-8 length, for composing random non-ASCII PINs of an exact byte length
_BY_LEN = {
    1: ALNUM,
    2: "".join(chr(c) for c in list(range(0xA1, 0x100)) + [0x3A9, 0x416, 0x660, 0x661, 0x669, 0x6F2,
                                                            0x6F9, 0x131, 0x17F]),
    3: "".join(chr(c) for c in list(range(0xFF10, 0xFF1A)) + list(range(0xFF21, 0xFF27)) +
               [0xFF41, 0x4E2D, 0x0967, 0x2460, 0x212A]),
    4: "".join(chr(c) for c in [0x1F511, 0x1D7CF, 0x1D7D8, 0x1D400, 0x1D41A, 0x10400]),
}


def compose_utf8(rng, nbytes, need_high=True):
    """Random text whose UTF-8 encoding is exactly `nbytes` long (with a non-ASCII character)."""
    while True:
        out, left = [], nbytes
        while left > 0:
            k = rng.choice([n for n in (1, 1, 2, 2, 2, 3, 4) if n <= left])
            out.append(rng.choice(_BY_LEN[k]))
            left -= k
        rng.shuffle(out)
        p = "".join(out)
        if not need_high or any(ord(c) > 127 for c in p):
            return p


def pin_of_class(cls, rng, boundary=False):
    """A member of a PIN content class: a listed (boundary) member or a seeded random one."""
    if boundary or rng.random() < 0.5:
        return rng.choice(PIN_MEMBERS[cls])
    if cls == "ok":
        while True:
            p = "".join(rng.choice(ALNUM) for _ in range(8))
            if any(c in LETTERS for c in p):
                return p
    if cls == "digits":
        return "".join(rng.choice(DIGITS) for _ in range(8))
    if cls in ("len7", "len9"):
        n = rng.choice([7, 7, 7, 6, 4, 2]) if cls == "len7" else 9     # (longer: random tier only)
        return "".join(rng.choice(ALNUM) for _ in range(n - 1)) + rng.choice(LETTERS)
    if cls == "ascii":
        p = [rng.choice(ALNUM) for _ in range(8)]
        p[rng.randrange(8)] = rng.choice(PUNCT + ASCII_EDGE)
        return "".join(p)
    if cls == "noise":
        core = pin_of_class(rng.choice(["ok", "ok", "ok", "digits", "len7", "len9"]), rng)
        if rng.random() < 0.7:
            return core + rng.choice(NOISE_AFTER)
        return rng.choice(NOISE_BEFORE) + core + rng.choice(("",) + NOISE_AFTER)
    if cls == "hi8":
        return compose_utf8(rng, 8)
    if cls == "hiwide":
        while True:
            p = "".join(rng.choice(rng.choice([ALNUM, _BY_LEN[2], _BY_LEN[3]])) for _ in range(8))
            if any(ord(c) > 127 for c in p):
                return p
    raise ValueError(cls)


def random_pin(rng):
    """Binding B: PIN strings around the policy boundary (7/8/9 characters, all digits, one case
    only, ASCII punctuation / blanks / controls, non-ASCII text of exactly 8 bytes or of 8
    characters, members of the class lists with one character mutated)."""
    kind = rng.randrange(16)
    n = rng.choice([7, 8, 8, 8, 9])
    if kind >= 14:
        return pin_of_class("noise", rng)
    if kind <= 2:
        p = "".join(rng.choice(ALNUM) for _ in range(n))
    elif kind == 3:
        p = "".join(rng.choice(DIGITS) for _ in range(n))
    elif kind == 4:
        p = "".join(rng.choice(rng.choice([string.ascii_lowercase, string.ascii_uppercase]))
                    for _ in range(n))
    elif kind == 5:
        p = "".join(rng.choice(DIGITS) for _ in range(n - 1)) + rng.choice(LETTERS)
    elif kind == 6:
        p = list("".join(rng.choice(ALNUM) for _ in range(n)))
        p[rng.randrange(n)] = rng.choice(PUNCT + ASCII_EDGE)
        p = "".join(p)
    elif kind == 7:
        p = list("".join(rng.choice(ALNUM) for _ in range(n)))
        p[rng.randrange(n)] = rng.choice(UNICODE + _BY_LEN[2])
        p = "".join(p)
    elif kind == 8:
        p = "".join(rng.choice(ALNUM) for _ in range(rng.choice([1, 2, 3, 10, 12])))
    elif kind in (9, 10):
        p = compose_utf8(rng, rng.choice([8, 8, 8, 7, 9]))
    elif kind == 11:
        p = rng.choice(PIN_MEMBERS[rng.choice(sorted(PIN_MEMBERS))])
    elif kind == 12:
        p = list(rng.choice(PIN_MEMBERS[rng.choice(sorted(PIN_MEMBERS))]))
        p[rng.randrange(len(p))] = rng.choice(ALNUM + PUNCT + _BY_LEN[2])
        p = "".join(p)
    else:
        p = "".join(rng.choice(ALNUM + PUNCT) for _ in range(n))
    return p


def sweep_wrapped(planes=(1,)):
    """A compliant PIN with every character of the given UTF-8 lengths appended, and prepended
    (the noise of the input channel, exhaustively for the low planes)."""
    cps = []
    if 1 in planes:
        cps += list(range(0x80))
    if 2 in planes:
        cps += list(range(0x80, 0x800))
    cps += [0x2028, 0x2029, 0x200B, 0x200C, 0x200D, 0x200E, 0x2060, 0xFEFF, 0xFFFD, 0x3000, 0x1F511]
    return ["abcd1234" + chr(c) for c in cps] + [chr(c) + "abcd1234" for c in cps]


def sweep_pins(planes=(1, 2)):
    """Every character of the given UTF-8 lengths (1: U+0000..7F, 2: U+0080..7FF; 3 and 4: fullwidth
    forms, Indic / CJK / enclosed samples, mathematical alphanumerics) inside an otherwise compliant
    PIN padded with ASCII so that the encoding is exactly 8 bytes."""
    cps = []
    if 1 in planes:
        cps += [(c, 1) for c in range(0x80)]
    if 2 in planes:
        cps += [(c, 2) for c in range(0x80, 0x800)]
    if 3 in planes:
        cps += [(c, 3) for c in list(range(0xFF00, 0xFF60)) + list(range(0x0966, 0x0970)) +
                list(range(0x2460, 0x2474)) + list(range(0x3040, 0x3060)) + [0x212A, 0x4E2D, 0xFFFD]]
    if 4 in planes:
        cps += [(c, 4) for c in list(range(0x1D400, 0x1D420)) + list(range(0x1D7CE, 0x1D800)) +
                list(range(0x10400, 0x10410)) + [0x1F511]]
    pad = {1: ("abc", "1234"), 2: ("abc", "123"), 3: ("ab", "123"), 4: ("ab", "12")}
    return [pad[n][0] + chr(c) + pad[n][1] for c, n in cps]


# ---------------------------------------------------------------------- scripted operator + patches
class _Proxy:
    """Stands in for a module object (`sys`, `os`) inside one repo module: the overridden names are
    ours, everything else is the real module's."""

    def __init__(self, real, **over):
        self.__dict__["_real"] = real
        self.__dict__.update(over)

    def __getattr__(self, k):
        return getattr(self.__dict__["_real"], k)


# hard cap on what one run may be handed at its prompts - well above the largest number of answers a
# scenario supplies - beyond which "the command keeps prompting" is recorded as an observation
PROMPT_CAP = 5000
# how many other answers / rejected entries a prompt gets before the decisive one (scale dimension)
COUNTS = (1, 2, 39, 40, 41, 255, 256, 999, 1000, 1001, 2500)


class PromptLoop(BaseException):
    """The command is still prompting after PROMPT_CAP answers: it would never return. (BaseException:
    nothing in the code under test may swallow it.)"""


class Operator:
    """The operator's input, behaving like a real stdin / terminal: lines and PINs are handed out from a
    script, and once the script is used up the input is at END-OF-FILE - `sys.stdin.readline()` returns
    "" (for ever), `getpass()` raises EOFError. Each hand-out is an event in the world's log
    (interleaved with the device exchanges, carrying the device's ground truth). A hard cap on the
    number of hand-outs turns a command that never stops prompting into an observation."""

    def __init__(self, world, lines, pins, recall=None):
        self.world = world
        self.lines = list(lines)        # [(text, class)]
        self.pins = list(pins)          # [str]
        self.recall = recall            # callable -> str | None : "the PIN I have just set" (typed once)
        self.typed = []
        self.handed = 0
        self.line_at = 0
        self.pin_at = 0
        self.looping = False
        self.ended = None               # callable -> bool : the operator's input has ended by now

    def _emit(self, ev):
        # a run of identical hand-outs (nothing crossed the link in between) is one event with a count
        last = self.world.log[-1] if self.world.log else None
        if last is not None and last.get("ev") == ev["ev"] and last.get("cls") == ev.get("cls") \
                and last.get("ok") == ev.get("ok") and "n" in last:
            last["n"] += 1
            last.update({k: ev[k] for k in ("line", "pin") if k in ev})
            return
        ev["n"] = 1
        ev["truth"] = self.world.device.snapshot()
        self.world.emit(ev)

    def _count(self):
        self.handed += 1
        if self.handed > PROMPT_CAP:
            self.looping = True
            raise PromptLoop("still prompting after %d answers" % PROMPT_CAP)

    # sys.stdin stand-in
    def readline(self):
        self._count()
        if self.line_at >= len(self.lines):
            self._emit({"ev": "stdin", "cls": "eof", "line": None})
            return ""
        text, cls = self.lines[self.line_at]
        self.line_at += 1
        self._emit({"ev": "stdin", "cls": cls, "line": text})
        return text + "\n"

    def getpass(self, prompt="", stream=None):
        self._count()
        r = None
        if self.recall is not None:
            r = self.recall()
            if r is not None:
                self.recall = None      # typed once; after that the input goes on as scripted
        if r is None:
            if self.pin_at >= len(self.pins) or (self.ended is not None and self.ended()):
                self._emit({"ev": "getpass", "ok": "f", "pin": None})
                raise EOFError("end of the operator's input (getpass)")
            r = self.pins[self.pin_at]
            self.pin_at += 1
        self.typed.append(r)
        self._emit({"ev": "getpass", "ok": "na", "pin": r})
        return r


class Randomness:
    """`os.urandom` as admin/onboard.py sees it: records every draw, delegates to the real one."""

    def __init__(self, world, real=os.urandom):
        self.world = world
        self.real = real
        self.draws = []

    def urandom(self, n):
        b = self.real(n)
        self.draws.append(bytes(b))
        self.world.emit({"ev": "urandom", "n": n, "bytes": bytes(b),
                         "truth": self.world.device.snapshot()})
        return b


class Patched:
    """Context manager: installs the world (transport) and the operator / randomness stand-ins in the
    names the admin modules use; restores them on exit."""

    def __init__(self, world, operator, rnd):
        self.world, self.operator, self.rnd = world, operator, rnd
        self.out = io.StringIO()
        self.saved = []

    def _set(self, mod, name, val):
        self.saved.append((mod, name, getattr(mod, name)))
        setattr(mod, name, val)

    def __enter__(self):
        install(self.world)
        import admin.misc as am
        import admin.onboard as ao
        self._set(am, "sys", _Proxy(_sys, stdout=self.out, stdin=self.operator))
        self._set(am, "getpass", self.operator.getpass)
        self._set(ao, "sys", _Proxy(_sys, stdin=self.operator, stdout=self.out))
        self._set(ao, "os", _Proxy(os, urandom=self.rnd.urandom))
        return self

    def __exit__(self, *a):
        for mod, name, val in reversed(self.saved):
            setattr(mod, name, val)
        return False


# ---------------------------------------------------------------------- scenario
class Scenario:
    def __init__(self, **kw):
        self.__dict__.update(kw)


def _pick(v, dom, rng):
    return v if v not in ("?", None) else rng.choice(dom)


# what may already sit at the output path(s) (spec/AdminProps.tla, C.pre)
PRE_KINDS = {"pubkeys": ("absent", "same", "other", "extra", "fewer", "notjson", "dir", "dirjson"),
             "onboard": ("absent", "other", "notjson", "dir"),
             "unlock": ("absent",), "changepin": ("absent",)}

FAVOURABLE = {"echo": "t", "answers": "yes", "wipe": "t", "unlock": "t", "newpin": "t",
              "mode2": "signer", "keys": "t", "retry": "valid"}


def scenario_from_model(cfg, e, rng, boundary=False, member=None, favourable=False, shapes=None,
                        hist=None, n_other=1, n_rejected=None, how=None, truth_onb=None):
    """Concretise one behaviour of GenAdmin (cfg + lazily chosen env). Dimensions the behaviour never
    looked at ("?") get seeded random members of their domain - or, for the PIN-decisive behaviours
    (`favourable`), the value that lets the command go on, so that a PIN the command should have
    refused would reach the device. `member`: the member of the PIN content class to use.
    `shapes`: how the device words its wrong / negative answers (see deviation_shapes)."""
    e = dict(e)
    shapes = dict(shapes or {})
    link = None
    if e.get("link", "?") != "?":
        # the behaviour ends with the exchange that failed: its class, and which one of that class
        cls = hist[-1]
        spread = {"sendseed": 32, "onbpin": 2, "sendnewpin": 2, "getkeys": 6}.get(e["linkat"], 1)
        link = {"kind": e["link"], "cls": cls, "nth": hist[:-1].count(cls) + rng.randrange(spread),
                "how": how or rng.choice(hows_at(e["linkat"]))}
        if favourable and e["onb"] == "?":
            # what the device really is (not yet asked, or the question is the exchange that fails)
            e["onb"] = truth_onb or (rng.choice(["no", "yes"]) if cfg["op"] == "onboard" else "yes")
    if e["onb"] in ("g:yes", "g:no"):
        # is_onboarded() answers garbage; the device's ground truth is what follows the colon
        shapes.setdefault("onb", rng.choice(ONB_SHAPES))
        e["onb"] = e["onb"][2:]
    if favourable:
        for k, v in FAVOURABLE.items():
            if e[k] == "?":
                e[k] = v
        if e["mode"] == "?":
            e["mode"] = "boot" if not cfg["no_unlock"] else (
                "signer" if (cfg["plat"] == "sgx" or cfg["op"] == "pubkeys") else "boot")
        if e["onb"] == "?":
            e["onb"] = "no" if cfg["op"] == "onboard" else "yes"
    pre = e.get("pre", "?")
    if pre == "?":
        pre = "absent" if favourable else rng.choice(PRE_KINDS[cfg["op"]])
    pinc = e["pinc"] if e["pinc"] != "?" else ("ok" if favourable else rng.choice(sorted(PIN_MEMBERS)))
    first = member if member is not None else pin_of_class(pinc, rng, boundary)
    pins = [first]
    if cfg["src"] == "prompt":
        # what follows a rejected entry: a compliant one, nothing (end of input), or a second rejected
        # entry first (another member of the class, or of another class that is refused as well)
        if e["retry"] in ("r2valid", "r2eof"):
            pins.append(pin_of_class(pinc if rng.random() < 0.6 else rng.choice(["ascii", "hi8", "noise"]),
                                     rng))
        if e["retry"] in ("valid", "r2valid"):
            pins.append(pin_of_class("ok", rng))
        if e["retry"] == "eof0":
            pins = []
        if n_rejected is not None and e["retry"] in ("valid", "eof"):
            # scale: the prompt gets n rejected entries before the compliant one / the end of input
            pins = [first] * n_rejected + pins[1:]
    answers = _pick(e["answers"], ["yes", "no", "oy", "on"], rng)
    onb = e["onb"]
    if onb == "?":
        # never asked: a device able to give the answers the behaviour goes on to record
        onb = "yes" if (cfg["no_unlock"] and (e["newpin"] == "t" or e["keys"] == "t")) \
            else rng.choice(["yes", "no"])
    sc = build(
        op=cfg["op"], plat=cfg["plat"], any_pin=cfg["any_pin"], no_unlock=cfg["no_unlock"],
        src=cfg["src"], pins=pins, outfile=cfg["outfile"],
        mode=_pick(e["mode"], MODES, rng), onb=onb,
        echo=_pick(e["echo"], ["t", "f"], rng), answers=answers,
        wipe=_pick(e["wipe"], ["t"], rng), unlock=_pick(e["unlock"], ["t", "f"], rng),
        newpin=_pick(e["newpin"], ["t", "f"], rng), mode2=_pick(e["mode2"], MODES, rng),
        keys=_pick(e["keys"], ["t", "f"], rng), keys_fail_at=0, rng=rng, shapes=shapes, pre=pre, link=link,
        enter=("other" if e.get("enter", "?") == "?" else e["enter"]),
        post=("retype" if e.get("post", "?") == "?" else e["post"]), n_other=n_other)
    sc.desc["pinc"] = pinc
    return sc


def deviation_shapes(b):
    """For a behaviour of the model whose only deviation is a wrong / negative device answer that
    gates the seed or the PIN (it ends right there), every shape that answer can take; for a Ledger
    behaviour that unlocked, the non-canonical positive answers. Each is a `shapes` argument."""
    cfg, e, h = b["cfg"], b["env"], b["hist"]
    if b["outcome"] == "err" and h:
        last = h[-1]
        if last == "echo" and e["echo"] == "f":
            return [{"echo": x} for x in ECHO_SHAPES]
        if last == "is_onboard" and e["onb"] in ("g:yes", "g:no"):
            return [{"onb": x} for x in ONB_SHAPES]
        if last in ("wipe", "sgx_onboard") and e["wipe"] == "f":
            return [{"wipe": x} for x in WIPE_SHAPES]
        if last == "unlock" and e["unlock"] == "f":
            return [{"unlock": x} for x in UNLOCK_FAIL_SHAPES]
        if last == "change_pin" and e["newpin"] == "f":
            return [{"newpin": x} for x in NEWPIN_SHAPES[cfg["plat"]]]
    if b["outcome"] == "ok" and cfg["plat"] == "ledger" and cfg["op"] != "onboard" and e["unlock"] == "t":
        return [{"unlock_byte": x} for x in UNLOCK_TRUE_BYTES[1:]]
    return []


def clean_prefix(b):
    """Everything the behaviour looked at before its last step was favourable (single deviation)."""
    cfg, e = b["cfg"], b["env"]
    for k, v in FAVOURABLE.items():
        if e[k] not in ("?", v) and not (k == "answers" and e[k] == "oy"):
            return False
    want_onb = "no" if cfg["op"] == "onboard" else "yes"
    return (e["onb"] in ("?", want_onb) and e["mode"] in ("?", "boot", "signer")
            and e["pinc"] in ("?", "ok") and e["pre"] in ("?", "absent"))


def clean_prefix_but(b, dims):
    """clean_prefix, not counting the named dimensions."""
    e = dict(b["env"])
    for k in dims:
        e[k] = "?"
    return clean_prefix({"cfg": b["cfg"], "env": e})


def pin_decisive(b):
    """A behaviour of the model in which the PIN content is the only deviation: the PIN was looked at
    and either everything went through, or the command stopped because of the PIN (rejected option
    before any exchange; operator gave up at the prompt)."""
    cfg, e = b["cfg"], b["env"]
    if e["pinc"] == "?":
        return False
    return b["outcome"] == "ok" or (cfg["src"] == "opt" and not b["hist"]) or e["retry"] in ("eof", "r2eof")


def build(op, plat, any_pin, no_unlock, src, pins, outfile, mode, onb, echo, answers, wipe, unlock,
          newpin, mode2, keys, rng, keys_fail_at=None, upin=None, strict=False, no_exec=False,
          devseed=None, cli=False, shapes=None, pre="absent", link=None, enter="other", post="retype",
          n_other=1):
    """The concrete environment of one run (all fields are plain data: the replay file is this).
    `shapes`: {echo, onb, wipe, unlock, unlock_byte, newpin} -> how the device words that answer."""
    shapes = shapes or {}
    desc = dict(op=op, plat=plat, any_pin=bool(any_pin), no_unlock=bool(no_unlock), src=src,
                pins=list(pins), outfile=bool(outfile), mode=mode, onb=onb, echo=echo, answers=answers,
                wipe=wipe, unlock=unlock, newpin=newpin, mode2=mode2, keys=keys,
                keys_fail_at=(rng.randrange(6) if keys_fail_at is None else keys_fail_at),
                upin=upin or pin_of_class("ok", rng), strict=bool(strict), no_exec=bool(no_exec),
                devseed=devseed if devseed is not None else rng.randrange(1 << 30),
                mode_byte=(MODE_BYTES[mode] if mode != "other" else rng.choice(OTHER_MODE_BYTES)),
                mode2_byte=(MODE_BYTES[mode2] if mode2 != "other" else rng.choice(OTHER_MODE_BYTES)),
                echo_shape=shapes.get("echo") or rng.choice(ECHO_SHAPES),
                onb_shape=shapes.get("onb"),
                wipe_how=shapes.get("wipe") or rng.choice(WIPE_SHAPES),
                unlock_how=shapes.get("unlock") or rng.choice(UNLOCK_FAIL_SHAPES),
                unlock_byte=shapes.get("unlock_byte") or rng.choice(UNLOCK_TRUE_BYTES),
                newpin_how=shapes.get("newpin") or rng.choice(NEWPIN_SHAPES[plat]),
                yes=rng.choice(YES), no=rng.choice(NO), other=rng.choice(OTHER),
                verbose=rng.random() < 0.3, cli=bool(cli),
                pre=pre, pre_devseed=rng.randrange(1 << 30), link=link, enter=enter, post=post,
                cli_form=rng.choice(["long", "short"]), n_other=n_other)
    return Scenario(desc=desc)


def make_device(d):
    dev = AdminSimDevice(platform=d["plat"], mode=d["mode_byte"], seed=d["devseed"],
                         with_keys=(d["op"] == "pubkeys"))
    dev.onboarded = d["onb"] == "yes"
    dev.echo_ok = d["echo"] == "t"
    dev.echo_shape = None if dev.echo_ok else d.get("echo_shape", "last")
    dev.onb_shape = d.get("onb_shape")
    dev.unlock_fail_shape = d.get("unlock_how", "zero")
    dev.unlock_true_byte = d.get("unlock_byte", 1)
    # SGX reports bootloader mode while locked; a device that is going to acknowledge a password
    # change without an unlock must already be unlocked
    dev.unlocked = d["plat"] == "sgx" and dev.onboarded and (
        d["mode"] != "boot" or (d["no_unlock"] and d["op"] == "changepin" and d["newpin"] == "t"))
    dev.strict_policy = d["strict"]
    dev.wipe_answer = "ok" if d["wipe"] == "t" else d["wipe_how"]
    if d["op"] != "onboard":
        # the device holds the PIN the operator is going to supply ("t") or some other PIN ("f");
        # it compares what it is sent, so a PIN mangled on its way is refused
        enc = [p.encode("utf-8", "surrogateescape") for p in d["pins"]] + [d["upin"].encode()]
        dev.accept_pins = set(enc) if d["unlock"] == "t" else set()
    dev.newpin_answer = "ack" if d["newpin"] == "t" else d["newpin_how"]
    if d["plat"] == "ledger":
        dev.exit_modes = [d["mode2_byte"]] if d["op"] == "pubkeys" else []
    dev.post_unlock_mode = MODE_SIGNER
    dev.pubkey_fail = None if d["keys"] == "t" else d["keys_fail_at"]
    return dev


def acceptance(d):
    """Ground truth of how the device was set up to answer a well-formed WIPE / UNLOCK / CHANGE_PIN
    carrying the operator's PIN. A production-build device (`strict`) applies its own PIN policy
    on top: not known here ("?")."""
    return {"wipe": "?" if (d["strict"] and d["wipe"] == "t") else d["wipe"],
            "unlock": d["unlock"],
            "newpin": "?" if (d["strict"] and d["newpin"] == "t" and d["plat"] == "ledger")
            else d["newpin"]}


def answer_lines(d):
    # "eof" / "oeof": the operator's input ends at the first prompt / after one other answer
    # n_other: how many other answers come before the decisive one (scale dimension)
    n = d.get("n_other", 1)
    seq = {"yes": ["yes"], "no": ["no"], "oy": ["other"] * n + ["yes"], "on": ["other"] * n + ["no"],
           "eof": [], "oeof": ["other"] * n}[d["answers"]]
    others = [d["other"]] + list(OTHER)
    return [((others[k % len(others)] if c == "other" else d[c]), c) for k, c in enumerate(seq)]


def collapse(seq):
    """Consecutive duplicates dropped (n identical answers / entries in a row read as one: the
    predicates of AdminProps do not count them)."""
    out = []
    for x in seq:
        if not out or out[-1] != x:
            out.append(x)
    return out


# ---------------------------------------------------------------------- run + project
def _clear(path):
    if os.path.isdir(path) and not os.path.islink(path):
        shutil.rmtree(path)
    elif os.path.lexists(path):
        os.unlink(path)


def prepare_output(d, out_path, scratch, tag):
    """Put at the output path(s) what the scenario says is already there. Earlier exports are made by
    the real command, in this process, against the same device or against another one (other keys:
    another device, or this one wiped and onboarded again with a new seed)."""
    jp = os.path.splitext(out_path)[0] + ".json"
    _clear(out_path)
    _clear(jp)
    pre = d.get("pre", "absent")
    if pre == "absent":
        return
    if pre == "dir" or (pre == "dirjson" and jp == out_path):
        os.mkdir(out_path)
        return
    if pre == "dirjson":
        os.mkdir(jp)
        return
    if pre == "notjson":
        for p in {out_path, jp}:
            with open(p, "w") as f:
                f.write("Name \t Path \t Pubkey\n{ this is not JSON ]\n")
        return
    if d["op"] == "onboard":
        with open(out_path, "w") as f:       # a certificate left by the onboarding of another device
            json.dump({"version": 1, "targets": ["attestation"], "elements": [
                {"name": "attestation", "message": "ff04" + "5a" * 64, "signature": "3006020101020101",
                 "signed_by": "device"},
                {"name": "device", "message": "02" + "00" * 9 + "04" + "a5" * 64,
                 "signature": "3006020102020102", "signed_by": "root"}]}, f, indent=2)
        return
    # pubkeys: an earlier export by the real command
    earlier = build(op="pubkeys", plat=d["plat"], any_pin=False, no_unlock=True, src="opt", pins=["abcd1234"],
                    outfile=True, mode="signer", onb="yes", echo="t", answers="yes", wipe="t", unlock="t",
                    newpin="t", mode2="signer", keys="t", rng=_FixedRng(),
                    devseed=(d["devseed"] if pre == "same" else d["pre_devseed"]))
    try:
        run(earlier, scratch, tag, out_path=out_path)
    except Exception:      # noqa: a broken tree may fail here; the environment is then simply emptier
        return
    if pre in ("extra", "fewer"):
        try:
            with open(jp) as f:
                obj = json.load(f)
            with open(out_path) as f:
                lines = f.read().splitlines()
            if pre == "extra":
                obj["m/44'/0'/0'/0/1"] = "04" + "11" * 64
                lines.insert(len(lines) - 1, "xtra \t\t m/44'/0'/0'/0/1 \t\t 02" + "11" * 32)
            else:
                for k in list(obj)[:2]:
                    del obj[k]
                    lines = [ln for ln in lines if k not in ln.split()]
            with open(jp, "w") as f:
                f.write("%s\n" % json.dumps(obj, indent=2))
            with open(out_path, "w") as f:
                f.write("\n".join(lines) + "\n")
        except (OSError, ValueError):
            pass


class _FixedRng:
    """Minimal rng for scenarios whose random fields do not matter."""

    def choice(self, seq):
        return seq[0]

    def randrange(self, *a):
        return 0

    def random(self):
        return 1.0


def run(sc, scratch, tag, prev_seed=None, out_path=None):
    """Run the command of scenario `sc` on the real code. Returns the trace record for TraceAdmin plus
    diagnostics (keys not read by the spec)."""
    env.setup()
    from comm.platform import Platform
    d = sc.desc
    dev = make_device(d)
    world = World(dev, "hid" if d["plat"] == "ledger" else "tcp")
    if d["plat"] == "ledger":
        Platform.set(Platform.LEDGER)
    else:
        Platform.set(Platform.SGX, {"sgx_host": "127.0.0.1", "sgx_port": 7777})
    # the device as it presents itself at the start ("garbled": it does not answer IS_ONBOARD)
    d0 = {"mode": mode_name(dev.mode),
          "onb": "garbled" if dev.onb_shape else ("yes" if dev.onboarded else "no"),
          "echo": "t" if dev.echo_ok else "f"}
    lines = []
    if d["op"] == "onboard":
        # the answers to "proceed?", then [Enter] - unless the input has ended by then
        lines = answer_lines(d) + ([("", "other")] if d.get("enter", "other") != "eof" else [])
    prompt_pins = list(d["pins"]) if d["src"] == "prompt" else []

    def recall():
        # after a successful onboarding the operator types the PIN (s)he has just set
        if d["op"] == "onboard" and dev.received_seed is not None and d.get("post", "retype") != "eof":
            return operator.typed[-1] if operator.typed else dev.pin.decode("utf-8", "surrogateescape")
        return None
    install_link_fault(world, d.get("link"))
    operator = Operator(world, lines, prompt_pins, recall)
    # "post = eof": nothing more is typed once the device has been onboarded
    operator.ended = lambda: (d["op"] == "onboard" and dev.received_seed is not None
                              and d.get("post", "retype") == "eof")
    rnd = Randomness(world)
    if out_path is None and d["outfile"]:
        out_path = os.path.join(scratch, "%s_%s.%s" % (d["op"], tag,
                                                       "json" if d["op"] == "onboard" else "txt"))
        prepare_output(d, out_path, scratch, tag)
    opt_pin = d["pins"][0] if d["src"] == "opt" else None
    options = SimpleNamespace(verbose=d["verbose"], any_pin=d["any_pin"], no_exec=d["no_exec"],
                              no_unlock=d["no_unlock"], output_file_path=out_path, pin=None,
                              new_pin=None)
    if d["op"] == "changepin":
        options.pin = d["upin"]
        options.new_pin = opt_pin
    else:
        options.pin = opt_pin
    exc = None
    with Patched(world, operator, rnd) as patched:
        from admin.onboard import do_onboard
        from admin.unlock import do_unlock
        from admin.changepin import do_changepin
        from admin.pubkeys import do_get_pubkeys
        fn = {"onboard": do_onboard, "unlock": do_unlock, "changepin": do_changepin,
              "pubkeys": do_get_pubkeys}[d["op"]]
        try:
            if d.get("cli"):
                outcome, exc = run_cli(d, options)
            else:
                fn(options)
                outcome = "ok"
        except PromptLoop as e:
            outcome = "hang"             # never returns: still prompting after PROMPT_CAP answers
            exc = "%s: %s" % (type(e).__name__, e)
        except BaseException as e:   # noqa: AdminError, HSM2DongleError, ValueError, EOFError, SystemExit
            outcome = "err"
            exc = "%s: %s" % (type(e).__name__, str(e)[:120])
    evs = project(world)
    files, notes = read_files(d, out_path)
    expect = [{"path": p, "c": compress(dev.keys[path_bytes(p)]).hex(),
               "u": dev.keys[path_bytes(p)].hex()} for p in DOC_PATHS] if d["op"] == "pubkeys" else []
    trace = {
        "op": d["op"], "plat": d["plat"], "any_pin": d["any_pin"], "no_unlock": d["no_unlock"],
        "src": d["src"],
        "pins": collapse([list(p.encode("utf-8", "surrogateescape")) for p in d["pins"]]),
        "upin": list(d["upin"].encode()), "outfile": d["outfile"],
        "answers": collapse([c for (_, c) in answer_lines(d)]), "d0": d0, "acc": acceptance(d),
        "prev_seed": list(prev_seed) if prev_seed else [],
        "ev": evs, "outcome": outcome, "files": files, "expect": expect,
        "fin_pin": list(bytes(dev.pin)), "pre": d.get("pre", "absent"),
    }
    diag = {"exc": exc, "desc": d, "classes": [e["cls"] for e in evs],
            "seed_received": dev.received_seed, "draws": rnd.draws, "stdout": patched.out.getvalue(),
            "final": {"mode": mode_name(dev.mode), "onb": dev.onboarded, "pin": bytes(dev.pin)},
            "notes": notes, "cert": out_path if d["op"] == "onboard" else None}
    return trace, diag


def run_cli(d, options):
    """The same run through the command-line front end (adm_ledger.main / adm_sgx.main): the options
    object is built by the tool's own argument parser from an argv we derive from the scenario."""
    import adm_ledger
    import adm_sgx
    argv = ["adm_%s.py" % d["plat"], d["op"]]
    short = d.get("cli_form") == "short"

    def valued(long, letter, value):
        # long form: --name=value; short form: -x value (attached, -xvalue, when the value starts with
        # a dash or is empty, which argparse would otherwise take for another option)
        if not short:
            argv.append("--%s=%s" % (long, value))
        elif value.startswith("-") or value == "":
            argv.append("-%s%s" % (letter, value))
        else:
            argv.extend(["-%s" % letter, value])

    def flag(long, letter):
        argv.append(("-%s" % letter) if short else ("--%s" % long))
    if options.pin is not None:
        valued("pin", "p" if d["plat"] == "ledger" else "P", options.pin)
    if options.new_pin is not None:
        valued("newpin", "n", options.new_pin)
    if options.any_pin:
        flag("anypin", "a")
    if options.output_file_path is not None:
        valued("output", "o", options.output_file_path)
    if options.no_unlock:
        flag("nounlock", "u")
    if options.no_exec and d["plat"] == "ledger":
        flag("noexec", "e")
    if options.verbose:
        flag("verbose", "v")
    saved, _sys.argv = _sys.argv, argv
    err = io.StringIO()
    saved_err, _sys.stderr = _sys.stderr, err
    try:
        (adm_ledger if d["plat"] == "ledger" else adm_sgx).main()
        return "ok", None
    except SystemExit as e:
        if e.code in (0, None):
            return "ok", None
        return "err", "exit code %s %s" % (e.code, err.getvalue().strip()[-80:])
    finally:
        _sys.argv = saved
        _sys.stderr = saved_err


def run_generated(n, scratch, tag):
    """PINs from the generator the manager uses for its own PIN changes (`BasePin.generate_pin`, and
    `FileBasedPin.new` read back from the file it writes), as one trace of `generated` events."""
    env.setup()
    from ledger.pin import BasePin, FileBasedPin
    none = {"mode": -1, "onb": False}
    evs = []
    for k in range(n):
        if k % 10 == 9:
            path = os.path.join(scratch, "genpin_%s.txt" % tag)
            FileBasedPin.new(path)
            with open(path, "rb") as f:
                pin = f.read()
        else:
            pin = BasePin.generate_pin()
        evs.append(_ev("generated", none, data=bytes(pin)))
    return {"op": "genpin", "plat": "ledger", "any_pin": False, "no_unlock": False, "src": "opt",
            "pins": [], "upin": [], "outfile": False, "answers": [],
            "d0": {"mode": "na", "onb": "na", "echo": "na"},
            "acc": {"wipe": "?", "unlock": "?", "newpin": "?"}, "prev_seed": [], "ev": evs,
            "outcome": "ok", "files": {"txt": [], "json": []}, "expect": [], "fin_pin": [],
            "pre": "absent"}


def _ev(cls, truth, ans="na", ok="na", i=0, b=0, data=()):
    return {"cls": cls, "d_mode": mode_name(truth["mode"]), "d_onb": "yes" if truth["onb"] else "no",
            "ans": ans, "ok": ok, "i": i, "b": b, "data": list(data)}


def apdu_class(apdu, mode_byte):
    """Event class of an APDU (the device's mode disambiguates 0x02: echo in the UI, sign in the signer)."""
    if len(apdu) < 2:
        return "other"
    if apdu[0] == 0xE0:
        return "admin"
    if apdu[0] != 0x80:
        return "other"
    cmd = apdu[1]
    if cmd == 0x02:
        return "echo" if mode_name(mode_byte) == "boot" else "cmd02"
    return {0x43: "get_mode", 0x06: "is_onboard", 0xA4: "echo", 0x44: "seed_byte", 0x41: "pin_byte",
            0x07: "wipe", 0xA0: "sgx_onboard", 0xFE: "unlock", 0xA3: "unlock", 0x08: "change_pin",
            0xA5: "change_pin", 0xFF: "exit", 0xFA: "exit", 0x04: "get_pubkey"}.get(cmd, "cmd%02x" % cmd)


LINK_KINDS = ("lost", "late", "err")
# the kinds of failure behind "err": link read / write error; an error status word of each class -
# inside the powHSM range (0x69A0..0x6BFF, 0x6D00), outside it (no time-out) - and an exception of
# the transport that the dongle class does not classify
ERR_HOWS = ("read", "write", "sw:6a99", "sw:6b00", "sw:6d00", "sw:6e00", "sw:6f00", "sw:6f42", "sw:6800",
            "sw:6200", "exc")
# a status word the transport treats as success (the ordinary answer is delivered): random tier only
SUCCESS_LIKE = ("sw:6100", "sw:6105")


# failures the dongle class reports as a plain HSM2DongleError: get_current_mode() turns those into
# the mode "unknown" (already an answer of the model's mode question), so they are not link faults there
GENERIC_HOWS = ("sw:6e00", "sw:6f00", "sw:6f42", "sw:6800", "sw:6200", "exc")


def hows_at(linkat):
    return tuple(h for h in ERR_HOWS if not (linkat in ("mode", "mode2") and h in GENERIC_HOWS))


def fault_spec(how):
    if how.startswith("sw:"):
        return ("sw", int(how[3:], 16))
    if how == "exc":
        return ("exc", OSError(5, "Input/output error"))
    return (how,)


def install_link_fault(world, link):
    """`link` = {kind: lost | late | err, cls, nth, how}: the nth exchange of class `cls` does not get
    its answer in time - lost for good, or arriving late and staying queued on the open handle
    (World.late_answers) - or fails with a read / write error."""
    if not link:
        return
    world.late_answers = link["kind"] == "late"
    seen = {}

    def hook(w, apdu, idx):
        c = apdu_class(apdu, w.device.mode)
        n = seen.get(c, 0)
        seen[c] = n + 1
        if c == link["cls"] and n == link["nth"]:
            w.faulted_at = idx
            return ("timeout",) if link["kind"] in ("lost", "late") else fault_spec(link.get("how", "read"))
        return None
    world.fault_hook = hook


def project(world):
    """world.log -> events of AdminProps."""
    evs = []
    for e in world.log:
        kind = e["ev"]
        if kind in ("open", "close"):
            continue
        t = e["truth"]
        if kind == "stdin":
            evs.append(_ev("stdin", t, ans=e["cls"], i=e.get("n", 1)))
            continue
        if kind == "getpass":
            evs.append(_ev("getpass", t, ok=e["ok"], i=e.get("n", 1)))
            continue
        if kind == "urandom":
            evs.append(_ev("urandom", t, data=e["bytes"]))
            continue
        apdu = e["apdu"]
        sw, resp = e.get("sw"), e.get("resp")
        good = sw == 0x9000
        okf = "t" if good else "f"
        if e.get("fault") == "drop":
            okf = "na"
        cla = apdu[0] if len(apdu) > 0 else -1
        cmd = apdu[1] if len(apdu) > 1 else -1
        mode = mode_name(t["mode"])
        if cla == 0xE0:
            evs.append(_ev("admin", t, ok=okf))
        elif cla != 0x80:
            evs.append(_ev("other", t, ok=okf))
        elif cmd == 0x43:
            evs.append(_ev("get_mode", t, ans=(mode_name(resp[1]) if good and len(resp) > 1 else "na"),
                           ok=okf))
        elif cmd == 0x06:
            wellformed = good and len(resp) > 1 and resp[1] in (0, 1)
            evs.append(_ev("is_onboard", t, ans=(("yes" if resp[1] == 1 else "no") if wellformed else "na"),
                           ok="t" if wellformed else "f"))
        elif cmd == 0xA4 or (cmd == 0x02 and mode == "boot"):
            evs.append(_ev("echo", t, ok="t" if (good and bytes(resp) == bytes(apdu)) else "f"))
        elif cmd == 0x44:
            evs.append(_ev("seed_byte", t, ok=okf, i=apdu[2] if len(apdu) > 2 else 255,
                           b=apdu[3] if len(apdu) > 3 else 0))
        elif cmd == 0x41:
            evs.append(_ev("pin_byte", t, ok=okf, i=apdu[2] if len(apdu) > 2 else 255,
                           b=apdu[3] if len(apdu) > 3 else 0))
        elif cmd == 0x07:
            evs.append(_ev("wipe", t, ok="t" if (good and len(resp) > 1 and resp[1] == 2) else "f"))
        elif cmd == 0xA0:
            evs.append(_ev("sgx_onboard", t, data=apdu[2:],
                           ok="t" if (good and len(resp) > 2 and resp[2] == 1) else "f"))
        elif cmd in (0xFE, 0xA3):
            evs.append(_ev("unlock", t, data=apdu[2:] if cmd == 0xA3 else (),
                           ok="t" if (good and len(resp) > 2 and resp[2] != 0) else "f"))
        elif cmd == 0x08:
            evs.append(_ev("change_pin", t, ok=okf))
        elif cmd == 0xA5:
            evs.append(_ev("change_pin", t, data=apdu[2:],
                           ok="t" if (good and len(resp) > 2 and resp[2] == 1) else "f"))
        elif cmd in (0xFF, 0xFA):
            evs.append(_ev("exit", t, ok="na" if e.get("fault") == "drop" else okf))
        elif cmd == 0x04:
            evs.append(_ev("get_pubkey", t, ans=decode_path(apdu[2:]), ok=okf))
        else:
            evs.append(_ev("cmd%02x" % cmd, t, ok=okf))
        if e.get("fault") in ("timeout", "read", "write", "exc") or (
                getattr(world, "faulted_at", None) == e.get("i") and e.get("sw") not in (None, 0x9000)
                and (e["sw"] & 0xFF00) != 0x6100):
            evs[-1]["ok"] = "x"          # the link failed: the host got no answer to this exchange
            evs[-1]["ans"] = "na"
    return evs


def read_files(d, out_path):
    """Read back what do_get_pubkeys wrote: rows <<path, key>> of the text table and of the JSON."""
    files = {"txt": [], "json": []}
    notes = []
    if d["op"] != "pubkeys" or out_path is None:
        return files, notes
    try:
        with open(out_path) as f:
            for line in f.read().splitlines():
                tok = line.split()
                if len(tok) == 3 and tok[1].startswith("m/"):
                    files["txt"].append([tok[1], tok[2]])
    except OSError as e:
        notes.append("text file: %s" % e)
    jp = os.path.splitext(out_path)[0] + ".json"
    try:
        with open(jp) as f:
            obj = json.load(f)
        if isinstance(obj, dict):
            files["json"] = [[str(k), v if isinstance(v, str) else json.dumps(v)] for k, v in obj.items()]
        else:
            notes.append("json file is not an object")
    except (OSError, ValueError) as e:
        notes.append("json file: %s" % e)
    return files, notes


def stdout_rows(text):
    return [[t[1], t[2]] for t in (ln.split() for ln in text.splitlines())
            if len(t) == 3 and t[1].startswith("m/")]
