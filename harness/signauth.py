"""C17 helper: independent oracles (Keccak-256, message text, EIP-191, DER, Intel HEX), a UI-bootloader
simulator that implements SIGNER_AUTH (0x51) as the firmware does, an Ethereum-app simulator for
`signapp eth`, in-process runners for the real code (SignerVersion / SignerAuthorization, signapp.main,
do_authorize_signer, HSM2Dongle.authorize_signer) and the projection of what they did into the events
of spec/SignerAuthProps.tla.  Nothing here decides a property: TLC does, on the events."""
import contextlib
import functools
import hashlib
import io
import json
import os
import sys
import types

from . import env
from .simdev import SimDevice, MODE_BOOT, der_sig
from .transport import World, install

# ----------------------------------------------------------------------------------------------
# Keccak-f[1600] sponge, written from the Keccak reference (NOT pycryptodome, which the code uses)
_RC = []
_r = 1
for _ in range(24):
    _c = 0
    for _j in range(7):
        _r = ((_r << 1) ^ ((_r >> 7) * 0x71)) % 256
        if _r & 2:
            _c ^= 1 << ((1 << _j) - 1)
    _RC.append(_c)
_M64 = (1 << 64) - 1
_ROT = [0] * 25
_PI = [0] * 25
_x, _y = 1, 0
for _t in range(24):
    _nx, _ny = _y, (2 * _x + 3 * _y) % 5
    _ROT[_x + 5 * _y] = ((_t + 1) * (_t + 2) // 2) % 64
    _PI[_x + 5 * _y] = _nx + 5 * _ny
    _x, _y = _nx, _ny


def _f1600(A):
    for rnd in range(24):
        C = [A[x] ^ A[x + 5] ^ A[x + 10] ^ A[x + 15] ^ A[x + 20] for x in range(5)]
        D = [C[(x - 1) % 5] ^ (((C[(x + 1) % 5] << 1) | (C[(x + 1) % 5] >> 63)) & _M64) for x in range(5)]
        B = [0] * 25
        for i in range(25):
            v = A[i] ^ D[i % 5]
            r = _ROT[i]
            B[_PI[i]] = ((v << r) | (v >> (64 - r))) & _M64 if r else v
        for y in range(0, 25, 5):
            for x in range(5):
                A[y + x] = B[y + x] ^ ((~B[y + (x + 1) % 5]) & B[y + (x + 2) % 5])
        A[0] ^= _RC[rnd]
    return A


def _sponge(data, pad, rate=136, out=32):
    p = bytearray(data) + bytes([pad])
    p += b"\x00" * (-len(p) % rate)
    p[-1] |= 0x80
    A = [0] * 25
    for off in range(0, len(p), rate):
        for i in range(rate // 8):
            A[i] ^= int.from_bytes(p[off + 8 * i: off + 8 * i + 8], "little")
        A = _f1600(A)
    return b"".join(a.to_bytes(8, "little") for a in A)[:out]


@functools.lru_cache(maxsize=8192)
def _keccak256_cached(data):
    return _sponge(data, 0x01)


def keccak256(data):
    """Original Keccak-256 (padding 0x01), as Ethereum uses."""
    return _keccak256_cached(bytes(data))


def sha3_256(data):
    """FIPS-202 SHA3-256 (padding 0x06): a *different* function, kept for the self-test."""
    return _sponge(data, 0x06)


_VECTORS = [
    (b"", "c5d2460186f7233c927e7db2dcc703c0e500b653ca82273b7bfad8045d85a470"),
    (b"abc", "4e03657aea45a94fc7d47ba826c8d667c0d1e6e33a64a036ec44f58fa12d6c45"),
    (b"\xa3" * 135, "3d28d08c3dacab77392064a939f3e7f8d03f2e02e2c664ac08a05f63ac652626"),
    (b"\xa3" * 136, "b82d89d96e5575d11a9e1f4cabb2a45e60899e69a19a724cd796bdcf13511018"),
    (b"\xa3" * 200, "3a57666b048777f2c953dc4456f45a2588e1cb6f2da760122d530ac2ce607d4a"),
]


def selftest():
    """Known-answer test of the oracle hash; the SHA3 variant must differ and match hashlib."""
    for d, h in _VECTORS:
        if keccak256(d).hex() != h:
            return "keccak256 known-answer test failed for %d bytes" % len(d)
        if sha3_256(d) != hashlib.sha3_256(d).digest():
            return "sponge self-test (sha3 padding) failed for %d bytes" % len(d)
        if sha3_256(d) == keccak256(d):
            return "keccak256 and sha3_256 coincide"
    return None


# ----------------------------------------------------------------------------------------------
# independent encoders (from the property text / docs/signer-authorization.md)
def codes(x):
    """text -> list of code points, bytes -> list of 0..255, for TLC"""
    if isinstance(x, str):
        return [ord(c) for c in x]
    return list(bytes(x))


SPELLINGS = ("upper", "mixed", "p0x", "p0X", "lead_ws", "trail_ws", "inner_ws", "trail_nl", "split_pair",
             "odd0", "nonascii")
_OTHER_DIGITS = {"0": "\u0660\uff10", "1": "\u0661\uff11", "2": "\u0662\uff12", "3": "\u0663\uff13",
                 "4": "\u0664\uff14", "5": "\u0665\uff15", "6": "\u0666\uff16", "7": "\u0667\uff17",
                 "8": "\u0668\uff18", "9": "\u0669\uff19", "a": "\uff41", "b": "\uff42", "c": "\uff43",
                 "d": "\uff44", "e": "\uff45", "f": "\uff46"}


def spell(hx, sp, rng):
    """an unusual spelling of the plain lower-case hex text `hx` (same names as spec/SignerAuth.tla)"""
    ws = rng.choice((" ", " ", "\t", "\n", "\r", "  "))
    if sp == "upper":
        return hx.upper()
    if sp == "mixed":
        t = "".join(c.upper() if rng.random() < 0.5 else c for c in hx)
        return t if t not in (hx, hx.upper()) else hx[:len(hx) // 2].upper() + hx[len(hx) // 2:]
    if sp == "p0x":
        return "0x" + hx
    if sp == "p0X":
        return "0X" + hx
    if sp == "lead_ws":
        return ws + hx
    if sp == "trail_ws":
        return hx + rng.choice((" ", "\t", "  ", " \t"))
    if sp == "inner_ws":
        i = 2 * rng.randrange(1, len(hx) // 2)
        return hx[:i] + ws + hx[i:]
    if sp == "trail_nl":
        return hx + rng.choice(("\n", "\r\n"))
    if sp == "split_pair":
        i = 2 * rng.randrange(0, len(hx) // 2) + 1
        return hx[:i] + " " + hx[i:]
    if sp == "odd0":
        return rng.choice((hx + "0", "0" + hx))
    if sp == "nonascii":
        i = rng.randrange(len(hx))
        return hx[:i] + rng.choice(_OTHER_DIGITS[hx[i]]) + hx[i + 1:]
    raise ValueError(sp)


def msg_text(h, n):
    return b"RSK_powHSM_signer_" + h.hex().encode() + b"_iteration_" + str(n).encode()


def eip191(m):
    return b"\x19Ethereum Signed Message:\n" + str(len(m)).encode() + m


def oracle_digest(h, n):
    return keccak256(eip191(msg_text(h, n)))


def intel_hex(data, base=0xC0D00000, reclen=32):
    """Minimal Intel HEX writer: one extended-linear-address record, data records, EOF."""
    def rec(addr, typ, payload):
        b = bytes([len(payload), (addr >> 8) & 0xFF, addr & 0xFF, typ]) + payload
        return ":" + (b + bytes([(-sum(b)) & 0xFF])).hex().upper()
    lines = [rec(0, 4, bytes([(base >> 24) & 0xFF, (base >> 16) & 0xFF]))]
    off = base & 0xFFFF
    for i in range(0, len(data), reclen):
        lines.append(rec((off + i) & 0xFFFF, 0, data[i:i + reclen]))
    lines.append(rec(0, 1, b""))
    return "\n".join(lines) + "\n"


# ----------------------------------------------------------------------------------------------
# keys and signatures of the harness (libsecp256k1 for speed; python-ecdsa only as the verifier of
# signatures the *tool* produced)
ORDER = 0xFFFFFFFFFFFFFFFFFFFFFFFFFFFFFFFEBAAEDCE6AF48A03BBFD25E8CD0364141


class Key:
    def __init__(self, rng=None, raw=None):
        import secp256k1
        while raw is None:
            raw = bytes(rng.getrandbits(8) for _ in range(32))
            if not 0 < int.from_bytes(raw, "big") < ORDER:
                raw = None
        self.raw = raw
        self._sk = secp256k1.PrivateKey(raw, raw=True)
        self.pub = self._sk.pubkey.serialize(compressed=False)

    def sign(self, digest, high_s=False):
        """DER signature over a 32-byte digest (own DER encoder; optionally the high-S twin)."""
        sig = self._sk.ecdsa_sign(digest, raw=True)
        c = self._sk.ecdsa_serialize_compact(sig)
        r, s = int.from_bytes(c[:32], "big"), int.from_bytes(c[32:], "big")
        if high_s:
            s = ORDER - s
        return der_sig(_der_int(r), _der_int(s))


def short_value_key(rng, digest, high_s=False, tries=4000):
    """a key whose signature over `digest` has r or s below 2^247 (a leading zero byte followed by a
    byte < 0x80 in the 32-byte form, as the Ethereum app returns them): the boundary class for
    whoever DER-encodes (r, s). None if none found."""
    for _ in range(tries):
        k = Key(rng)
        der = k.sign(digest, high_s=high_s)
        rl = der[3]
        r = int.from_bytes(der[4:4 + rl], "big")
        s_ = int.from_bytes(der[6 + rl:], "big")
        if r < (1 << 247) or s_ < (1 << 247):
            return k
    return None


def _der_int(v):
    b = v.to_bytes((v.bit_length() + 7) // 8 or 1, "big")
    return (b"\x00" + b) if b[0] & 0x80 else b


def device_verifies(pub, digest, der):
    """What cx_ecdsa_verify answers: DER that does not parse = not valid; high-S is fine."""
    import secp256k1
    try:
        pk = secp256k1.PublicKey(pub, raw=True)
        sig = pk.ecdsa_deserialize(bytes(der))
        _, sig = pk.ecdsa_signature_normalize(sig)
        return bool(pk.ecdsa_verify(digest, sig, raw=True))
    except Exception:
        return False


def ecdsa_verifies(pub, digest, der):
    """Independent check of a tool-produced signature with python-ecdsa under the signing key."""
    import ecdsa
    try:
        vk = ecdsa.VerifyingKey.from_string(pub[1:], curve=ecdsa.SECP256k1)
        return bool(vk.verify_digest(bytes(der), digest, sigdecode=ecdsa.util.sigdecode_der))
    except Exception:
        return False


MALFORMED_KINDS = ("trail", "seqtag", "inttag", "trunc", "seqlen", "zerolen", "empty", "nonhex", "oddlen")


def malform(der, kind, rng):
    """hex text of a DER signature broken in the named way (same kinds as spec/SignerAuth.tla)."""
    d = bytearray(der)
    if kind == "trail":
        return (bytes(d) + bytes([rng.randrange(256)])).hex()
    if kind == "seqtag":
        d[0] = rng.choice((0x31, 0x20, 0x00, 0x10))
        return bytes(d).hex()
    if kind == "inttag":
        d[4 + d[3]] = rng.choice((0x03, 0x00, 0x30))
        return bytes(d).hex()
    if kind == "trunc":
        return bytes(d[:-1 - rng.randrange(3)]).hex()
    if kind == "seqlen":
        d[1] = (d[1] + rng.choice((1, 2, -1))) & 0x7F
        return bytes(d).hex()
    if kind == "zerolen":
        s = bytes(d[4 + d[3]:])
        body = b"\x02\x00" + s
        return (bytes([0x30, len(body)]) + body).hex()
    if kind == "empty":
        return ""
    if kind == "nonhex":
        t = list(bytes(d).hex())
        t[rng.randrange(len(t))] = rng.choice("gzx-?")
        return "".join(t)
    if kind == "oddlen":
        return bytes(d).hex()[:-1]
    raise ValueError(kind)


# ----------------------------------------------------------------------------------------------
# simulators
class UIDevice(SimDevice):
    """UI bootloader with the signer-authorization protocol of
    firmware/src/ledger/ui/src/signer_authorization.c: SIGVER (hash32 + iteration BE16; must be above
    the current iteration, else 0x6A03), then SIGN (DER) answered 0x01 "more" / 0x02 "authorised" once
    `threshold` distinct authorizers have signed Keccak256(Eip191(text)); protocol errors 0x6A01."""

    def __init__(self, authorizers, threshold, cur_iter=0, seed=1):
        super().__init__(platform="ledger", mode=MODE_BOOT, seed=seed)
        self.authorizers = list(authorizers)       # uncompressed public keys
        self.threshold = threshold
        self.cur_iter = cur_iter
        self.cur_hash = bytes(32)
        self.sa_state = "wait_version"
        self.sa_verified = set()
        self.sa_hash = None
        self.sa_iter = None
        self.sa_digest = None
        self.sa_log = []
        self.authorised = False
        self.sign_ops = 0
        self.success_at = None      # how many SIGN operations had been received when it authorised

    def _sa_reset(self):
        self.sa_state = "wait_version"
        self.sa_verified = set()

    def _ui(self, cmd, data, apdu):
        if cmd != 0x51:
            return super()._ui(cmd, data, apdu)
        if len(data) < 1:
            return 0x6A01, b""
        op, payload = data[0], bytes(data[1:])
        H = bytes([0x80, 0x51, op])
        if op == 0x00:
            return 0x9000, H + self.cur_hash + self.cur_iter.to_bytes(2, "big")
        if op == 0x01:
            if self.sa_state != "wait_version":
                self._sa_reset()
                return 0x6A01, b""
            if len(payload) != 34:
                return 0x6A01, b""
            h, n = payload[:32], int.from_bytes(payload[32:], "big")
            self.sa_log.append(("sigver", h, n))
            if n <= self.cur_iter:
                self._sa_reset()
                return 0x6A03, b""
            self.sa_hash, self.sa_iter = h, n
            self.sa_digest = oracle_digest(h, n)
            self.sa_state = "wait_signature"
            return 0x9000, H
        if op == 0x02:
            if self.sa_state != "wait_signature":
                self._sa_reset()
                return 0x6A01, b""
            self.sa_log.append(("sign", payload))
            self.sign_ops += 1
            for i, pub in enumerate(self.authorizers):
                if device_verifies(pub, self.sa_digest, payload):
                    self.sa_verified.add(i)
                    break
            if len(self.sa_verified) >= self.threshold:
                self.cur_hash, self.cur_iter = self.sa_hash, self.sa_iter
                self.authorised = True
                self.success_at = self.sign_ops
                self._sa_reset()
                return 0x9000, H + b"\x02"
            return 0x9000, H + b"\x01"
        if op == 0x03:
            return 0x9000, H + bytes([len(self.authorizers)])
        if op == 0x04:
            if len(payload) != 1:
                return 0x6A01, b""
            if payload[0] >= len(self.authorizers):
                return 0x6A05, b""
            return 0x9000, H + self.authorizers[payload[0]]
        self._sa_reset()
        return 0x6A01, b""


DEFAULT_ETH_PATH = "m/44'/60'/0'/0/0"        # the documented default of signapp eth


def eth_path_bytes(spec):
    """derivation path as the Ethereum app receives it: element count + 4-byte big-endian elements
    (own encoder)"""
    parts = spec[2:].split("/") if spec.startswith("m/") else []
    out = bytes([len(parts)])
    for q in parts:
        hard = q.endswith("'")
        out += ((int(q[:-1] if hard else q) + (0x80000000 if hard else 0)) & 0xFFFFFFFF).to_bytes(4, "big")
    return out


def eth_key(seed, path_spec):
    """the simulated Ethereum app's key for a path: one key per path, derived from the path bytes"""
    raw = hashlib.sha256(b"eth-app" + bytes(seed) + eth_path_bytes(path_spec or DEFAULT_ETH_PATH)).digest()
    while not 0 < int.from_bytes(raw, "big") < ORDER:
        raw = hashlib.sha256(raw).digest()
    return Key(raw=raw)


class EthAppDevice:
    """Ledger Ethereum app as admin/dongle_eth.py talks to it: GET_PUBLIC_ADDRESS (0x02) and
    SIGN_PERSONAL_MSG (0x08), which signs Keccak256(Eip191(message)) computed with the oracle hash.
    One key per derivation path (derived from the path bytes of the request); the path of every
    request is recorded."""

    def __init__(self, seed, high_s=False):
        self.seed = bytes(seed)
        self.high_s = high_s
        self.signed = []
        self.paths = []

    def on_connect(self):
        pass

    def _key(self, pathbytes):
        raw = hashlib.sha256(b"eth-app" + self.seed + pathbytes).digest()
        while not 0 < int.from_bytes(raw, "big") < ORDER:
            raw = hashlib.sha256(raw).digest()
        return Key(raw=raw)

    def handle(self, apdu):
        if len(apdu) < 6 or apdu[0] != 0xE0:
            return 0x6E00, b""
        cmd, body = apdu[1], bytes(apdu[5:])
        npath = body[0]
        pathbytes = body[:1 + 4 * npath]
        rest = body[1 + 4 * npath:]
        self.paths.append(pathbytes)
        key = self._key(pathbytes)
        if cmd == 0x02:
            return 0x9000, bytes([65]) + key.pub + bytes([40]) + b"0" * 40
        if cmd == 0x08:
            ln = int.from_bytes(rest[:4], "big")
            m = rest[4:4 + ln]
            self.signed.append(m)
            der = key.sign(keccak256(eip191(m)), high_s=self.high_s)
            rl = der[3]
            r = int.from_bytes(der[4:4 + rl], "big")
            s = int.from_bytes(der[6 + rl:], "big")
            return 0x9000, bytes([27]) + r.to_bytes(32, "big") + s.to_bytes(32, "big")
        return 0x6D00, b""


def short_value_seed(rng, digest, path_spec, high_s=False, tries=4000):
    """an Ethereum-app seed whose key for `path_spec` signs `digest` with r or s below 2^247"""
    for _ in range(tries):
        seed = bytes(rng.getrandbits(8) for _ in range(16))
        der = eth_key(seed, path_spec).sign(digest, high_s=high_s)
        rl = der[3]
        if int.from_bytes(der[4:4 + rl], "big") < (1 << 247) or int.from_bytes(der[6 + rl:], "big") < (1 << 247):
            return seed
    return None


# command-line shapes: every option in its short or long spelling, operation first / last
SIGNAPP_OPTS = {"output": ("-o", "--output"), "app": ("-a", "--app"), "iteration": ("-i", "--iteration"),
                "key": ("-k", "--key"), "path": ("-p", "--path"), "signature": ("-g", "--signature"),
                "pubkey": ("-b", "--pubkey")}
ADM_OPTS = {"pin": ("-p", "--pin"), "signauth": ("-z", "--signauth")}
STYLES = ("short_first", "long_first", "short_last", "long_last", "mixed_mid", "longeq_first")


def build_argv(op, opts, shape, table=SIGNAPP_OPTS):
    """opts: [(name, value | None for a flag)]; shape: {style, seed}. Own construction of the command
    line: option names short / long / mixed / --name=value, options in a seeded order, the operation
    before, after or between them."""
    import random
    shape = shape or {"style": "short_first", "seed": 0}
    style = shape["style"]
    r = random.Random(shape.get("seed", 0))
    opts = list(opts)
    if style != "short_first":
        r.shuffle(opts)
    groups = []
    for name, value in opts:
        form = {"short": 0, "long": 1, "longeq": 1, "mixed": r.randrange(2)}[style.split("_")[0]]
        flag = table[name][form]
        if value is None:
            groups.append([flag])
        elif style.startswith("longeq"):
            groups.append(["%s=%s" % (flag, value)])
        else:
            groups.append([flag, str(value)])
    where = style.split("_")[1]
    pos = 0 if where == "first" else len(groups) if where == "last" else r.randrange(len(groups) + 1)
    groups.insert(pos, [op])
    return [x for g in groups for x in g]


# ----------------------------------------------------------------------------------------------
# running the real code
PIN = "abcd1234"


def _mods():
    env.setup()
    from admin.signer_authorization import SignerAuthorization, SignerVersion
    return SignerAuthorization, SignerVersion


def py_hash(hin):
    """hash input record -> the Python value handed to the code"""
    return hin["s"] if hin["kind"] == "str" else hin["py"]


def py_iter(iin):
    f = iin["form"]
    if f == "int":
        return iin["val"]
    if f == "str":
        return iin["s"]
    if f == "float":
        return float(iin["val"])
    if f == "bool":
        return bool(iin["val"])
    return None


def file_text(hin, iin, sigs):
    """An authorization file written by the harness (stdlib json), from raw inputs."""
    return json.dumps({"version": 1, "signer": {"hash": py_hash(hin), "iteration": py_iter(iin)},
                       "signatures": list(sigs)}, indent=2) + "\n"


def read_file(path):
    """What is on disk, read with the stdlib only: {hash, iter, sigs} or None."""
    try:
        with open(path) as f:
            d = json.load(f)
        return {"hash": d["signer"]["hash"], "iter": d["signer"]["iteration"], "sigs": list(d["signatures"])}
    except Exception:
        return None


def _ev_inputs(hin, iin, sigs):
    return {"hash": {"kind": hin["kind"], "s": codes(hin["s"]) if hin["kind"] == "str" else []},
            "iter": {"form": iin["form"], "val": iin["val"] if iin["form"] in ("int", "float", "bool") else 0,
                     "s": codes(iin["s"]) if iin["form"] == "str" else []},
            "sigs": [codes(s) for s in sigs]}


def _oracle_point(hin, n):
    """One point of Keccak-256's graph: applied to the harness's own text for the 32 bytes the hash
    text denotes (hex digits only) and the iteration the tool says it holds."""
    hx = "".join(c for c in hin["s"] if c in "0123456789abcdefABCDEF") if hin["kind"] == "str" else ""
    try:
        h = bytes.fromhex(hx)
    except ValueError:
        h = b""
    if not isinstance(n, int) or isinstance(n, bool) or n < 0:
        n = 0
    text = eip191(msg_text(h, n))
    return text, keccak256(text)


def build_event(hin, iin, sigs, obj, wrap_override=None):
    """`obj`: the real SignerAuthorization the code produced, or None if it refused."""
    e = {"k": "build"}
    e.update(_ev_inputs(hin, iin, sigs))
    if obj is None:
        e.update({"ok": "f", "o_hash": [], "o_iter": 0, "o_msg": [], "o_wrap": [], "o_digest": [],
                  "o_sigs": [], "orc_of": [], "orc_is": []})
        return e
    v = obj.signer_version
    it = v.iteration
    text, dig = _oracle_point(hin, it)
    e.update({"ok": "t", "o_hash": codes(v.hash),
              "o_iter": it if (type(it) is int and abs(it) < 2 ** 31) else -7,
              "o_msg": codes(v.msg),
              "o_wrap": codes(wrap_override if wrap_override is not None else v.get_authorization_msg()),
              "o_digest": codes(v.get_authorization_digest()),
              "o_sigs": [codes(s) for s in obj.signatures],
              "orc_of": codes(text), "orc_is": codes(dig)})
    return e


def build_api(hin, iin, sigs):
    """SignerVersion(hash, iteration) + SignerAuthorization(version, signatures)"""
    SA, SV = _mods()
    try:
        obj = SA(SV(py_hash(hin), py_iter(iin)), list(sigs))
    except Exception:
        obj = None
    return obj, build_event(hin, iin, sigs, obj)


def build_file(hin, iin, sigs, path):
    """harness-written file -> SignerAuthorization.from_jsonfile"""
    SA, _ = _mods()
    with open(path, "w") as f:
        f.write(file_text(hin, iin, sigs))
    try:
        obj = SA.from_jsonfile(path)
    except Exception:
        obj = None
    return obj, build_event(hin, iin, sigs, obj)


def run_signapp(argv):
    """signapp.main() in-process: (exit code, stdout text)"""
    env.setup()
    import signapp
    out = io.StringIO()
    old = sys.argv
    sys.argv = ["signapp.py"] + [str(a) for a in argv]
    code = None
    try:
        with contextlib.redirect_stdout(out), contextlib.redirect_stderr(io.StringIO()):
            try:
                signapp.main()
            except SystemExit as e:
                code = e.code if isinstance(e.code, int) else (0 if e.code is None else 1)
    finally:
        sys.argv = old
    return code, out.getvalue()


def build_signapp(app_data, iter_text, path, app_path):
    """`signapp message -a app -i <text> -o file`, then the real loader on the produced file; the
    wrapped message is the one `signapp message` prints. hash input = sha256 of the app's bytes."""
    SA, _ = _mods()
    with open(app_path, "w") as f:
        f.write(intel_hex(app_data))
    hin = {"kind": "str", "s": hashlib.sha256(app_data).hexdigest()}
    iin = {"form": "str", "val": 0, "s": iter_text}
    if os.path.exists(path):
        os.unlink(path)
    code, _ = run_signapp(["message", "-a", app_path, "-i", iter_text, "-o", path])
    code2, printed = run_signapp(["message", "-a", app_path, "-i", iter_text])
    obj = None
    if code == 0 and os.path.exists(path):
        try:
            obj = SA.from_jsonfile(path)
        except Exception:
            obj = None
    wrap = None
    if code2 == 0 and obj is not None:
        line = printed.strip("\n").split("\n")[-1]
        try:
            wrap = line.encode("ascii").decode("unicode_escape").encode("latin-1")
        except Exception:
            wrap = line.encode("latin-1", errors="replace")
    if obj is not None and code2 != 0:
        obj = None
    return obj, build_event(hin, iin, [], obj, wrap_override=wrap), hin, iin


def _file_rec(path):
    d = read_file(path)
    if d is None:
        return {"hash": [], "iter": -7, "sigs": []}
    it = d["iter"]
    return {"hash": codes(d["hash"]) if isinstance(d["hash"], str) else [],
            "iter": it if (type(it) is int and abs(it) < 2 ** 31) else -7,
            "sigs": [codes(s) if isinstance(s, str) else [] for s in d["sigs"]]}


def _file_text_for_verification(d):
    """the message (wrapped) for the version a file on disk names, from the harness's own encoders"""
    try:
        h = bytes.fromhex("".join(c for c in d["hash"] if c in "0123456789abcdefABCDEF"))
        n = d["iter"]
        if type(n) is not int or n < 0:
            return b""
        return eip191(msg_text(h, n))
    except Exception:
        return b""


def sign_event(via, path, before_count, code, pub=None, given=None, args=None, paths=(), want_path=b""):
    """what one signapp invocation did to the file at -o. The added signature is verified (python-ecdsa,
    under the signing key) for the digest of the version the file names AFTER the step."""
    d = read_file(path)
    exists = d is not None
    rec = _file_rec(path) if exists else {"hash": [], "iter": 0, "sigs": []}
    sigs = d["sigs"] if exists else []
    added = sigs[-1] if (code == 0 and via != "message" and len(sigs) > before_count
                         and isinstance(sigs[-1], str)) else None
    text = _file_text_for_verification(d) if exists else b""
    ver = "na"
    if via in ("key", "eth") and added is not None:
        try:
            raw = bytes.fromhex(added)
        except Exception:
            raw = b""
        ver = "t" if ecdsa_verifies(pub, keccak256(text), raw) else "f"
    if args is None:
        arec = {"given": "f", "hash": [], "iter": {"form": "str", "val": 0, "s": []}}
    else:
        arec = {"given": "t", "hash": codes(args["hash"]),
                "iter": {"form": "str", "val": 0, "s": codes(args["iter"])}}
    return {"k": "sign", "via": via, "args": arec, "given": codes(given) if given is not None else [],
            "ok": "t" if code == 0 else "f", "sig": codes(added) if added is not None else [],
            "exists": "t" if exists else "f", "file": rec, "verifies": ver, "ver_of": codes(text),
            "paths": [codes(x) for x in paths], "want_path": codes(want_path)}


def _count(path):
    d = read_file(path)
    return len(d["sigs"]) if d else 0


def _arg_opts(args):
    return [("app", args["app_path"]), ("iteration", args["iter"])] if args else []


def tool_key(path, key, args=None, shape=None):
    before = _count(path)
    code, _ = run_signapp(build_argv("key", [("output", path), ("key", key.raw.hex())] + _arg_opts(args), shape))
    return sign_event("key", path, before, code, pub=key.pub, args=args)


def _eth_world(seed, high_s):
    dev = EthAppDevice(seed, high_s=high_s)
    world = World(dev, "hid")
    install(world)
    import admin.dongle_eth as de
    de.getDongle = world.get_dongle_hid
    return dev


def tool_eth(path, seed, sel_path=None, high_s=False, args=None, shape=None):
    """signapp eth against an Ethereum app with one key per path; the operator selected `sel_path`
    (None: left out). The signature is verified under the app's key for THAT path."""
    before = _count(path)
    dev = _eth_world(seed, high_s)
    opts = [("output", path)] + ([("path", sel_path)] if sel_path is not None else []) + _arg_opts(args)
    code, _ = run_signapp(build_argv("eth", opts, shape))
    return sign_event("eth", path, before, code, pub=eth_key(seed, sel_path).pub, args=args,
                      paths=dev.paths, want_path=eth_path_bytes(sel_path or DEFAULT_ETH_PATH))


def tool_eth_pub(pub_path, seed, sel_path=None, shape=None):
    """signapp eth -b -o <file> [-p path]: the public key printed and saved"""
    if os.path.exists(pub_path):
        os.unlink(pub_path)
    dev = _eth_world(seed, False)
    opts = [("output", pub_path), ("pubkey", None)] + ([("path", sel_path)] if sel_path is not None else [])
    code, out = run_signapp(build_argv("eth", opts, shape))
    saved = ""
    if os.path.exists(pub_path):
        with open(pub_path) as f:
            saved = f.read().strip()
        os.unlink(pub_path)
    printed = ""
    for line in out.split("\n"):
        if line.startswith("Public key: "):
            printed = line[len("Public key: "):].strip()
    return {"k": "pubkey", "ok": "t" if code == 0 else "f", "saved": codes(saved), "printed": codes(printed),
            "want": codes(eth_key(seed, sel_path).pub.hex()), "paths": [codes(x) for x in dev.paths],
            "want_path": codes(eth_path_bytes(sel_path or DEFAULT_ETH_PATH))}


def tool_manual(path, sig_text, args=None, shape=None):
    before = _count(path)
    code, _ = run_signapp(build_argv("manual", [("output", path), ("signature", sig_text)] + _arg_opts(args),
                                     shape))
    return sign_event("manual", path, before, code, given=sig_text, args=args)


def tool_message(path, args=None, shape=None):
    before = _count(path)
    code, _ = run_signapp(build_argv("message", [("output", path)] + _arg_opts(args), shape))
    return sign_event("message", path, before, code, args=args)


def roundtrip_event(path, scratch, tag):
    """load(path) -> save p1 -> load -> save p2 ; `after` = the second loaded object"""
    SA, _ = _mods()
    p1 = os.path.join(scratch, "rt1_%s.json" % tag)
    p2 = os.path.join(scratch, "rt2_%s.json" % tag)
    try:
        a = SA.from_jsonfile(path)
        a.save_to_jsonfile(p1)
        b = SA.from_jsonfile(p1)
        b.save_to_jsonfile(p2)
        with open(p1, "rb") as f:
            f1 = f.read()
        with open(p2, "rb") as f:
            f2 = f.read()
        it = b.signer_version.iteration
        ev = {"k": "roundtrip", "ok": "t",
              "after": {"hash": codes(b.signer_version.hash),
                        "iter": it if (type(it) is int and abs(it) < 2 ** 31) else -7,
                        "sigs": [codes(s) for s in b.signatures]},
              "f1": codes(f1), "f2": codes(f2)}
    except Exception:
        ev = {"k": "roundtrip", "ok": "f", "after": {"hash": [], "iter": 0, "sigs": []}, "f1": [], "f2": []}
    for p in (p1, p2):
        if os.path.exists(p):
            os.unlink(p)
    return ev


def apdu_events(world):
    evs = []
    for e in world.log:
        if e["ev"] != "apdu":
            continue
        evs.append({"k": "apdu", "apdu": codes(e["apdu"]), "sw": e.get("sw", 0),
                    "resp": codes(e.get("resp", b""))})
    return evs


def run_adm_ledger(argv):
    """adm_ledger.main() in-process: (exit code, stdout)"""
    env.setup()
    import adm_ledger
    out = io.StringIO()
    old = sys.argv
    sys.argv = ["adm_ledger.py"] + [str(a) for a in argv]
    code = None
    try:
        with contextlib.redirect_stdout(out), contextlib.redirect_stderr(io.StringIO()):
            try:
                adm_ledger.main()
            except SystemExit as e:
                code = e.code if isinstance(e.code, int) else (0 if e.code is None else 1)
    finally:
        sys.argv = old
    return code, out.getvalue()


ADM_EXIT = {0: None, 1: "AdminError", 2: "HSM2DongleError", 3: "KeyboardInterrupt", 4: "Exception"}


def authorize(path, device, via, shape=None):
    """via 'admin': `adm_ledger authorize_signer -p PIN -z file` (adm_ledger.main in-process, options in
    the spelling / order of `shape`; unlocks first); via 'dongle':
    HSM2Dongle.authorize_signer(SignerAuthorization.from_jsonfile(path)).
    Returns (events, exception class name | None)."""
    SA, _ = _mods()
    from comm.platform import Platform
    Platform.set(Platform.LEDGER)
    device.pin = PIN.encode()
    world = World(device, "hid")
    install(world)
    exc = None
    if via == "admin":
        code, out = run_adm_ledger(build_argv("authorize_signer", [("pin", PIN), ("signauth", path)], shape,
                                              table=ADM_OPTS))
        ok = code == 0 and "Signer authorized" in out
        exc = ADM_EXIT.get(code, "Exit%s" % code) if not ok else None
        if not ok and exc is None:
            exc = "NoSuccessMessage"
    else:
        out = io.StringIO()
        with contextlib.redirect_stdout(out):
            from ledger.hsm2dongle import HSM2Dongle
            try:
                auth = SA.from_jsonfile(path)
                d = HSM2Dongle(False)
                d.connect()
                try:
                    ok = d.authorize_signer(auth) is True
                finally:
                    d.disconnect()
            except Exception as e:
                ok, exc = False, type(e).__name__
    evs = apdu_events(world)
    evs.append({"k": "outcome", "authorized": "t" if ok else "f", "exc": exc or "none", "fresh": "na"})
    return evs, exc


def authorize_object(obj, device):
    """HSM2Dongle.authorize_signer(obj) on an already built authorization (no file, no unlock)."""
    env.setup()
    from comm.platform import Platform
    from ledger.hsm2dongle import HSM2Dongle
    Platform.set(Platform.LEDGER)
    world = World(device, "hid")
    install(world)
    exc = None
    try:
        d = HSM2Dongle(False)
        d.connect()
        try:
            ok = d.authorize_signer(obj) is True
        finally:
            d.disconnect()
    except Exception as e:
        ok, exc = False, type(e).__name__
    evs = apdu_events(world)
    evs.append({"k": "outcome", "authorized": "t" if ok else "f", "exc": exc or "none", "fresh": "na"})
    return evs


def _content(obj_or_dict, via):
    """content event from a real object (through the accessor named by `via`) or from a dict read by
    the stdlib from disk"""
    try:
        if via == "dict":
            d = obj_or_dict.to_dict()
            h, it, sg = d["signer"]["hash"], d["signer"]["iteration"], d["signatures"]
        elif via == "sigs":
            h, it, sg = obj_or_dict.signer_version.hash, obj_or_dict.signer_version.iteration, \
                obj_or_dict.signatures
        elif via == "ver":
            v = obj_or_dict.signer_version
            h, it, sg = v.to_dict()["hash"], v.to_dict()["iteration"], obj_or_dict.to_dict()["signatures"]
        elif via in ("save", "reload"):
            h, it, sg = obj_or_dict.signer_version.hash, obj_or_dict.signer_version.iteration, \
                obj_or_dict.signatures
        else:       # disk
            h, it, sg = obj_or_dict["hash"], obj_or_dict["iter"], obj_or_dict["sigs"]
        return {"k": "content", "via": via, "hash": codes(h) if isinstance(h, str) else [],
                "iter": it if (type(it) is int and abs(it) < 2 ** 31) else -7,
                "sigs": [codes(x) if isinstance(x, str) else [] for x in sg]}
    except Exception:
        return {"k": "content", "via": via, "hash": [], "iter": -7, "sigs": []}


def make_device(d):
    return UIDevice([bytes.fromhex(a) for a in d["authorizers"]], d["threshold"], cur_iter=d["cur"])


def run_history(path, ops, scratch, tag):
    """2-3 operations on ONE SignerAuthorization object loaded from `path`:
      {op: auth, device: {authorizers, threshold, cur} | same: true}   HSM2Dongle.authorize_signer(obj)
      {op: dict | sigs | ver}      to_dict() / .signatures / .signer_version
      {op: save}                   save_to_jsonfile, then the disk (stdlib) and a reload (real loader)
      {op: add, sig: text}         add_signature
    Every authorize is also run on a freshly loaded copy of a file the harness writes from the content
    the object should have, against a device in the same state (`fresh` of the outcome event)."""
    import copy
    SA, _ = _mods()
    evs = []
    obj = SA.from_jsonfile(path)
    expect = read_file(path)           # what the object should hold: disk at load + accepted adds
    dev = None
    for i, op in enumerate(ops):
        if op["op"] == "auth":
            if not op.get("same") or dev is None:
                dev = make_device(op["device"])
            twin = copy.deepcopy(dev)
            evs.append({"k": "begin"})
            aevs = authorize_object(obj, dev)
            if op.get("nofresh"):
                evs.extend(aevs)
                continue
            fp = os.path.join(scratch, "fresh_%s_%d.json" % (tag, i))
            with open(fp, "w") as f:
                f.write(json.dumps({"version": 1, "signer": {"hash": expect["hash"], "iteration": expect["iter"]},
                                    "signatures": expect["sigs"]}) + "\n")
            try:
                fevs = authorize_object(SA.from_jsonfile(fp), twin)
                aevs[-1]["fresh"] = fevs[-1]["authorized"]
            except Exception:
                aevs[-1]["fresh"] = "f"
            os.unlink(fp)
            evs.extend(aevs)
        elif op["op"] in ("dict", "sigs", "ver"):
            evs.append(_content(obj, op["op"]))
        elif op["op"] == "save":
            sp = os.path.join(scratch, "hsave_%s_%d.json" % (tag, i))
            try:
                obj.save_to_jsonfile(sp)
                evs.append(_content(read_file(sp) or {}, "disk"))
                evs.append(_content(SA.from_jsonfile(sp), "reload"))
            except Exception:
                evs.append(_content({}, "disk"))
            if os.path.exists(sp):
                os.unlink(sp)
        elif op["op"] == "add":
            try:
                obj.add_signature(op["sig"])
                ok = True
            except Exception:
                ok = False
            after = _content(obj, "dict")
            if ok:
                expect["sigs"] = expect["sigs"] + [op["sig"]]
            evs.append({"k": "add", "given": codes(op["sig"]), "ok": "t" if ok else "f",
                        "after": {"hash": after["hash"], "iter": after["iter"], "sigs": after["sigs"]}})
    return evs


def admin_twice(path, devices, scratch):
    """do_authorize_signer twice in one process on the same file (`devices`: two configs, the second
    may be {"same": true}); then what is on disk."""
    evs = []
    dev = None
    for d in devices:
        if not d.get("same") or dev is None:
            dev = make_device(d)
        evs.append({"k": "begin"})
        aevs, _ = authorize(path, dev, "admin", shape=d.get("shape"))
        evs.extend(aevs)
    evs.append(_content(read_file(path) or {}, "disk"))
    return evs


# ----------------------------------------------------------------------------------------------
def execute(recipe, scratch, tag):
    """Run one fully concrete recipe (JSON-serialisable, also the replay artefact) on the real code:
      src: api | file | signapp | absent (no authorization file to start with)
      hash: {kind, s, py?}   iter: {form, val, s}   sigs: [text]      app: hex of the app image (src signapp)
      apps: {name: hex image}      (images the signapp steps may name with -a)
      tools: [{op: key, key: hex} | {op: eth, seed: hex, high_s, path: text | null} | {op: eth_pub, seed, path}
              | {op: manual, sig: text} | {op: message}], each optionally with args: {app: name, iter: text}
              (-a / -i) and shape: {style, seed} (spelling / order of the command line)
      admin_shape: {style, seed} for `adm_ledger authorize_signer`
      roundtrip: bool
      history: [operations on one loaded object, see run_history]   admin_twice: [device, device]
      device: {authorizers: [hex pub], threshold, cur}   via: admin | dongle
    Returns (events, info)."""
    hin, iin, sigs = recipe["hash"], recipe["iter"], list(recipe["sigs"])
    path = os.path.join(scratch, "auth_%s.json" % tag)
    if os.path.exists(path):
        os.unlink(path)
    evs = []
    obj = None
    if recipe["src"] == "absent":
        pass
    elif recipe["src"] == "signapp":
        obj, ev, _, _ = build_signapp(bytes.fromhex(recipe["app"]), iin["s"], path,
                                      os.path.join(scratch, "app_%s.hex" % tag))
        evs.append(ev)
    elif recipe["src"] == "api":
        obj, ev = build_api(hin, iin, sigs)
        if obj is not None:
            obj.save_to_jsonfile(path)
        else:
            with open(path, "w") as f:
                f.write(file_text(hin, iin, sigs))
        evs.append(ev)
    else:
        obj, ev = build_file(hin, iin, sigs, path)
        evs.append(ev)
    info = {"accepted": obj is not None, "exc": None, "success_at": None}
    apps = {}
    for name, image in (recipe.get("apps") or {}).items():
        data = bytes.fromhex(image)
        ap = os.path.join(scratch, "app_%s_%s.hex" % (tag, name))
        with open(ap, "w") as f:
            f.write(intel_hex(data))
        apps[name] = {"app_path": ap, "hash": hashlib.sha256(data).hexdigest()}
    if obj is not None or recipe["src"] == "absent":
        for t in recipe.get("tools", []):
            args = None
            if t.get("args"):
                args = dict(apps[t["args"]["app"]], iter=t["args"]["iter"])
            shape = t.get("shape")
            if t["op"] == "key":
                evs.append(tool_key(path, Key(raw=bytes.fromhex(t["key"])), args=args, shape=shape))
            elif t["op"] == "eth":
                evs.append(tool_eth(path, bytes.fromhex(t["seed"]), t.get("path"), high_s=t.get("high_s", False),
                                    args=args, shape=shape))
            elif t["op"] == "eth_pub":
                evs.append(tool_eth_pub(os.path.join(scratch, "pub_%s.txt" % tag), bytes.fromhex(t["seed"]),
                                        t.get("path"), shape=shape))
            elif t["op"] == "message":
                evs.append(tool_message(path, args=args, shape=shape))
            else:
                evs.append(tool_manual(path, t["sig"], args=args, shape=shape))
        if recipe.get("roundtrip") and os.path.exists(path):
            evs.append(roundtrip_event(path, scratch, tag))
    if recipe.get("history") is not None and os.path.exists(path):
        try:
            evs.extend(run_history(path, recipe["history"], scratch, tag))
        except ValueError:
            # the loader refuses the file the steps above left: the operations on the object cannot
            # start; the refusal itself is judged on the build / sign / roundtrip events
            info["history_not_started"] = True
    if recipe.get("admin_twice") is not None and os.path.exists(path):
        evs.extend(admin_twice(path, recipe["admin_twice"], scratch))
    d = recipe.get("device")
    if d is not None:
        dev = UIDevice([bytes.fromhex(a) for a in d["authorizers"]], d["threshold"], cur_iter=d["cur"])
        aevs, exc = authorize(path, dev, recipe.get("via", "admin"), shape=recipe.get("admin_shape"))
        if recipe.get("history") or recipe.get("admin_twice"):
            evs.append({"k": "begin"})      # one more authorize operation after the ones above
        evs.extend(aevs)
        info["exc"] = exc
        info["success_at"] = dev.success_at
    info["total"] = len((read_file(path) or {"sigs": sigs})["sigs"])
    return evs, info
