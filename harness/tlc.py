"""Thin driver around TLC / SANY: exhaustive runs, behaviour generation, batch trace validation."""
import json
import os
import re
import shutil
import subprocess
import tempfile
import time

from .env import SPEC

JAR = "/opt/veriftools/tla/tla2tools.jar:/opt/veriftools/tla/CommunityModules-deps.jar"


class TLCError(RuntimeError):
    pass


class TLCResult:
    def __init__(self, out, rc, wall):
        self.out = out
        self.rc = rc
        self.wall = wall
        m = re.findall(r"(\d+) states generated, (\d+) distinct states found", out)
        self.generated = int(m[-1][0]) if m else 0
        self.distinct = int(m[-1][1]) if m else 0
        m = re.search(r"The depth of the complete state graph search is (\d+)", out)
        self.depth = int(m.group(1)) if m else 0
        self.violated = re.findall(r"Invariant (\S+) is violated", out)
        self.violated += re.findall(r"Action property (\S+) is violated", out)
        if "Temporal properties were violated" in out:
            self.violated.append("<temporal>")
        if "Deadlock reached" in out:
            self.violated.append("<deadlock>")
        self.ok = ("Model checking completed. No error has been found" in out) or \
                  ("Finished computing initial states" not in out and rc == 0 and
                   "Error:" not in out)
        self.error = None
        if not self.ok and not self.violated:
            m = re.search(r"(Error: .*(?:\n.*){0,12})", out)
            self.error = m.group(1) if m else out[-2000:]

    def printed(self, tag):
        """Payloads of all lines printed by PrintT("<tag> " \\o ToJson(x)). TLC prints a string as a
        TLA+ string literal, which for these payloads is also a JSON string literal."""
        res = []
        pre = '"' + tag + " "
        for line in self.out.splitlines():
            if line.startswith(pre):
                try:
                    body = json.loads(line)
                except ValueError:
                    continue
                res.append(body[len(tag) + 1:])
        return res

    def coverage_zero(self):
        """Action names TLC reported with 0 distinct states (needs -coverage)."""
        zero = []
        for m in re.finditer(r"<(\w+) line \d+, col \d+ to line \d+, col \d+ of module (\w+)>: (\d+):(\d+)",
                             self.out):
            if int(m.group(4)) == 0 and int(m.group(3)) == 0:
                zero.append(m.group(1))
        return sorted(set(zero))

    def action_counts(self):
        cnt = {}
        for m in re.finditer(r"<(\w+) line \d+, col \d+ to line \d+, col \d+ of module (\w+)>: (\d+):(\d+)",
                             self.out):
            cnt[m.group(1)] = max(cnt.get(m.group(1), 0), int(m.group(4)))
        return cnt


def _unescape(s):
    # TLC prints strings raw (no escaping on output), so nothing to do; kept for clarity
    return s


def run(module, cfg, workers=8, env=None, timeout=1800, coverage=False, simulate=None, depth=None,
        seed=None, extra=(), deadlock=None, java_opts=(), cwd=SPEC, heap="8g"):
    """Run TLC on spec/<module>.tla with spec/<cfg>. Returns TLCResult."""
    meta = tempfile.mkdtemp(prefix="tlcmeta_")
    cmd = ["java", "-XX:+UseParallelGC", "-Xmx" + heap] + list(java_opts) + [
        "-cp", JAR, "tlc2.TLC", "-workers", str(workers), "-metadir", meta, "-noGenerateSpecTE",
        "-config", cfg]
    if coverage:
        cmd += ["-coverage", "1"]
    if simulate:
        cmd += ["-simulate", simulate]
    if depth:
        cmd += ["-depth", str(depth)]
    if seed is not None:
        cmd += ["-seed", str(seed)]
    if deadlock is False:
        cmd += ["-deadlock"]
    cmd += list(extra) + [module]
    e = dict(os.environ)
    if env:
        e.update({k: str(v) for k, v in env.items()})
    t0 = time.time()
    try:
        p = subprocess.run(cmd, cwd=cwd, env=e, stdout=subprocess.PIPE, stderr=subprocess.STDOUT,
                           timeout=timeout, text=True, errors="replace")
        out, rc = p.stdout, p.returncode
    except subprocess.TimeoutExpired as ex:
        out = (ex.stdout or b"")
        if isinstance(out, bytes):
            out = out.decode(errors="replace")
        out += "\nError: TLC timed out after %ds" % timeout
        rc = 124
    finally:
        shutil.rmtree(meta, ignore_errors=True)
    r = TLCResult(out, rc, time.time() - t0)
    r.cmd = "tlc -workers %d -config %s %s" % (workers, cfg, module)
    return r


def check(module, cfg, **kw):
    """Exhaustive run that must succeed; raises TLCError (machinery failure) otherwise unless the
    failure is an invariant/property violation, which is returned to the caller."""
    r = run(module, cfg, **kw)
    if not r.ok and not r.violated:
        raise TLCError("TLC failed on %s/%s: %s" % (module, cfg, r.error))
    return r


def sany(module, cwd=SPEC):
    p = subprocess.run(["java", "-cp", JAR, "tla2sany.SANY", module + ".tla"], cwd=cwd,
                       stdout=subprocess.PIPE, stderr=subprocess.STDOUT, text=True)
    ok = p.returncode == 0 and "Semantic errors" not in p.stdout and "Parse Error" not in p.stdout \
        and "Fatal errors" not in p.stdout and "*** Errors" not in p.stdout
    return ok, p.stdout


def generate(module, cfg, tag="B", **kw):
    """Run a generation configuration (-workers 1) and return the list of JSON behaviours it printed
    as PrintT("<tag> " \\o ToJson(x))."""
    kw.setdefault("workers", 1)
    r = check(module, cfg, **kw)
    if r.violated:
        raise TLCError("generation config %s/%s violated %s" % (module, cfg, r.violated))
    out = []
    for s in r.printed(tag):
        out.append(json.loads(s))
    return out, r


def _validate_shard(args):
    module, cfg, path, timeout = args
    r = run(module, cfg, workers=1, env={"TRACE_FILE": path}, timeout=timeout)
    verdicts = {}
    for s in r.printed("VERDICT"):
        v = json.loads(s)
        tid = v["id"]
        old = verdicts.get(tid)
        # an accepted branch wins over any rejecting branch (existential acceptance)
        if old is None or v["ok"] or (not old["ok"] and v.get("at", 0) > old.get("at", 0)):
            if not (old is not None and old["ok"]):
                verdicts[tid] = v
    return verdicts, r


def validate(module, cfg, traces, shards=12, timeout=1800, scratch=None, key="id"):
    """Validate `traces` (list of dicts each with a unique integer/str id) against a trace spec.
    The trace spec reads JsonDeserialize(IOEnv.TRACE_FILE) (a JSON array), and prints one
    `VERDICT {"id":..,"ok":true|false,"clause":..,"at":..}` per explored terminal branch.
    Returns (verdicts: {id: verdict}, stats). A trace without any verdict line is reported as
    {"ok": False, "clause": "Stuck"}; a TLC failure raises TLCError."""
    import concurrent.futures as cf
    if not traces:
        return {}, {"states": 0, "generated": 0, "wall": 0.0, "jvms": 0}
    own = scratch is None
    scratch = scratch or tempfile.mkdtemp(prefix="tracev_")
    try:
        n = max(1, min(shards, (len(traces) + 49) // 50))
        parts = [traces[i::n] for i in range(n)]
        jobs = []
        for i, part in enumerate(parts):
            path = os.path.join(scratch, "%s_%d.json" % (module, i))
            with open(path, "w") as f:
                json.dump(part, f)
            jobs.append((module, cfg, path, timeout))
        verdicts = {}
        stats = {"states": 0, "generated": 0, "wall": 0.0, "jvms": n}
        with cf.ThreadPoolExecutor(max_workers=n) as ex:
            for (v, r) in ex.map(_validate_shard, jobs):
                if not r.ok and not r.violated:
                    raise TLCError("trace validation %s/%s failed: %s" % (module, cfg, r.error))
                if r.violated:
                    raise TLCError("trace validation %s/%s: monitor must never fail: %s\n%s" %
                                   (module, cfg, r.violated, r.out[-3000:]))
                verdicts.update(v)
                stats["states"] += r.distinct
                stats["generated"] += r.generated
                stats["wall"] = max(stats["wall"], r.wall)
        for t in traces:
            if t[key] not in verdicts:
                verdicts[t[key]] = {"id": t[key], "ok": False, "clause": "Stuck", "at": -1}
        return verdicts, stats
    finally:
        if own:
            shutil.rmtree(scratch, ignore_errors=True)


def validate_cells(module, cfg, batches, shards=12, timeout=1800):
    """For trace specs that judge a *batch* of independent one-step cases per trace and do not stop at
    a failing one: every failing case prints Verdict(case id, FALSE, clause, at); a finished batch prints
    Verdict(batch id, TRUE, ...). Returns (failures: {case id: clause}, finished batch ids, stats)."""
    import concurrent.futures as cf
    scratch = tempfile.mkdtemp(prefix="tracec_")
    try:
        n = max(1, min(shards, len(batches)))
        parts = [batches[i::n] for i in range(n)]
        jobs = []
        for i, part in enumerate(parts):
            path = os.path.join(scratch, "%s_%d.json" % (module, i))
            with open(path, "w") as f:
                json.dump(part, f)
            jobs.append((module, cfg, path, timeout))

        def one(job):
            r = run(job[0], job[1], workers=1, env={"TRACE_FILE": job[2]}, timeout=job[3])
            return [json.loads(s) for s in r.printed("VERDICT")], r
        fails, done = {}, set()
        stats = {"states": 0, "generated": 0, "wall": 0.0, "jvms": n}
        with cf.ThreadPoolExecutor(max_workers=n) as ex:
            for (vs, r) in ex.map(one, jobs):
                if (not r.ok and not r.violated) or r.violated:
                    raise TLCError("trace validation %s/%s failed: %s\n%s" % (module, cfg, r.error or r.violated, r.out[-2000:]))
                for v in vs:
                    if v["ok"]:
                        done.add(v["id"])
                    else:
                        fails[v["id"]] = v["clause"]
                stats["states"] += r.distinct
                stats["generated"] += r.generated
                stats["wall"] = max(stats["wall"], r.wall)
        return fails, done, stats
    finally:
        shutil.rmtree(scratch, ignore_errors=True)
